"""C16 - static rules are enforced in every syntactic position, and only there."""
import collections
import concurrent.futures as cf
import json
import os
import shutil
import time

import bsyntax
import gen_static
import runner
import vlib

PID = "C16"


def with_root(prog):
    """the specification sees the implicit root explicitly: when a program names the type 'Object', a member-less class Object is
    added and every class without a declared base (static classes apart) derives from it"""
    if '"cls": "Object"' not in json.dumps(prog):
        return prog
    import copy
    p = copy.deepcopy(prog)
    for c in p["classes"]:
        if not c.get("base") and not c.get("static"):
            c["base"] = "Object"
    p["classes"].append(bsyntax.Class("Object", ctors=[bsyntax.Ctor([], [], default=True)]))
    return p


def static_oracle(cases, parts=8, timeout=3000):
    """BlochStatic.Verdict for every case, evaluated by TLC. Returns {id: {"v":..., "rule":...}}"""
    tmp = vlib.scratch("static")
    try:
        def one(k):
            sub = cases[k::parts]
            if not sub:
                return {}
            cfn = os.path.join(tmp, "cases%d.ndjson" % k)
            of = os.path.join(tmp, "out%d.ndjson" % k)
            with open(cfn, "w") as f:
                for c in sub:
                    f.write(json.dumps({"id": c["id"], "prog": with_root(bsyntax.to_tlc(c["prog"]))}) + "\n")
            open(of, "w").close()
            r = vlib.tlc("MCBlochStatic.tla", os.path.join(vlib.SPEC, "MCBlochStatic.cfg"), env={"STATIC_CASES": cfn, "STATIC_OUT": of},
                         workers=max(2, vlib.JOBS // parts), timeout=timeout, heap="4g")
            vlib.tlc_ok(r, "MCBlochStatic part %d" % k)
            out = {}
            for l in open(of):
                d = json.loads(l)
                out[d["id"]] = d
            if len(out) != len(sub):
                raise vlib.Infra("static oracle produced %d verdicts for %d programs" % (len(out), len(sub)))
            return out, r
        res = {}
        states = 0
        with cf.ThreadPoolExecutor(max_workers=parts) as ex:
            for d in ex.map(one, range(parts)):
                if d:
                    res.update(d[0])
                    states += d[1].distinct or 0
        return res, states
    finally:
        shutil.rmtree(tmp, ignore_errors=True)


def run(tier, seed):
    t0 = time.time()
    out = vlib.Outcome(PID)
    cases = gen_static.all_cases(seed, tier)
    ids = [c["id"] for c in cases]
    if len(ids) != len(set(ids)):
        raise vlib.Infra("duplicate case ids")
    oracle, states = static_oracle(cases)
    jobs = [{"id": i, "stage": "front", "src": bsyntax.render(c["prog"], order=c["order"])} for i, c in enumerate(cases)]
    res = runner.run_jobs(jobs)
    bad = []
    verdicts = collections.Counter()
    rules = collections.Counter()
    unparsed = []
    for i, c in enumerate(cases):
        o = oracle[c["id"]]
        r = res[i]
        verdicts[o["v"]] += 1
        if r["status"] in ("parse", "lexical"):
            unparsed.append((c["id"], r.get("what", "").strip()))
            continue
        if o["v"] == "unspec":
            continue
        if o["v"] == "reject":
            rules[o["rule"]] += 1
        impl = {"ok": "accept", "semantic": "reject"}.get(r["status"], r["status"])
        if impl != o["v"]:
            if o["v"] == "reject":
                msg = "%s: violates the rule '%s' but the analyser ends with '%s' (expected a Semantic error)" % (c["note"], o["rule"], r["status"])
            else:
                msg = "%s: violates no rule but the analyser ends with '%s': %s" % (c["note"], r["status"], r.get("what", "").strip()[:200])
            bad.append((c, msg, o, r))
    if unparsed:
        # every generated program is meant to be grammatical: a parse error is a defect of the generator/renderer
        raise vlib.Infra("%d generated programs do not parse, e.g. %s" % (len(unparsed), unparsed[:3]))
    if verdicts["unspec"] > 0.15 * len(cases):
        raise vlib.Infra("too many cases outside the documented fragment: %s" % verdicts)
    need = {"type", "access", "undeclared", "redeclared", "new-abstract", "new-static", "final-var", "final-field", "final-nested", "final-twice",
            "final-inherited", "final-has-init", "final-unassigned", "void-value", "void-operand", "void-variable", "void-parameter",
            "static-context", "this-outside-class", "null-nonclass", "null-operator", "return-value-in-void", "bare-return-in-non-void",
            "quantum-return", "shots-not-main", "final-uninitialised", "implicit-super"}
    missing = need - set(rules)
    if missing:
        raise vlib.Infra("rules never exercised by a rejecting case: %s" % sorted(missing))
    # group: one report per (rule, construct)
    seen = set()
    for c, msg, o, r in bad:
        key = (o["rule"], c["id"].split(":")[1] if ":" in c["id"] else c["id"])
        if key in seen or len(seen) >= 10:
            continue
        seen.add(key)
        out.violation(msg, {"what": msg, "case": c["id"], "program": bsyntax.render(c["prog"], order=c["order"]), "specification": o,
                            "analyser": {k: r.get(k) for k in ("status", "what", "line", "col")}}, "case%d" % len(seen))
    fam = collections.Counter(c["id"].split(":")[0] for c in cases)
    sample = next(c for c in cases if c["id"].startswith("pos:fld_ob_priv:"))
    compared_sources = {jobs[i]["src"] for i, c in enumerate(cases) if oracle[c["id"]]["v"] != "unspec"}
    cov = {"evaluations": len(cases), "distinct_nontrivial": len(compared_sources), "states": states, "traces_replayed_into_impl": len(cases) - verdicts["unspec"],
           "verdicts": dict(verdicts), "rejecting_cases_per_rule": dict(rules), "families": dict(fam), "disagreements": len(bad),
           "samples": [{"case": sample["id"], "specification": oracle[sample["id"]], "program_tail": bsyntax.render(sample["prog"])[-600:]}],
           "rule": "non-trivial = the specification gives a definite verdict (accept or reject, not unspec); distinct = distinct program text. "
                   "BlochStatic.tla (a checker for the documented hard rules over the shared JSON syntax) decides every case; the real analyser must "
                   "agree (Semantic error <=> reject). Families: pos = ~140 offending/innocent expressions (member access by 8 receiver routes x "
                   "visibility, bare names and calls, static access, super calls, void calls, null, new of static/abstract/private-ctor classes, "
                   "this/super in static code, writes and ++ on final locals/fields/static finals, undeclared names) x ~25 expression positions "
                   "(statement, initialiser, assignment, operands, unary, cast, argument, nested argument, method/constructor argument, field "
                   "write, index, element write, array literal, concat, if/while/for-init/for-cond/for-update/ternary condition, ternary branches, "
                   "member/receiver) x 11 contexts (function, main, instance/void/static methods of base, derived, unrelated and static classes, "
                   "constructors of base and derived, destructor) plus instance and static field initialisers and six statement nestings; "
                   "ty = 9 declared types x 29 source expressions x 14 kinds of sink (initialiser, final initialiser, assignment, nested "
                   "assignment, for-initialiser, function/method/constructor argument, field via object/this/bare name, static field, element "
                   "write, return from function/method/static method, field initialisers) + array-literal elements; fin = final fields in "
                   "constructors (top level, twice, none, if/else/while/for/block/ternary nesting, for-header clauses, second constructor, "
                   "other objects, inherited, methods, outside); decl = @quantum x 10 return types on functions/methods, @shots, void "
                   "variables/parameters/fields, final without initialiser, duplicate parameters; scope = 27 declaration/use shapes x 7 contexts; "
                   "ret = 5 return forms x 11 contexts x 7 nestings; hier = 10 abstract hierarchies x every class x 5 positions x class "
                   "declaration orders; gen = 8 generic types x 10 sources x 5 sinks (instantiations monomorphised for the specification), members of instantiations; 400 cases re-rendered with shuffled top-level declaration order."}
    vlib.write_evidence(PID, tier, seed, "exploration", cov,
                        ["cases the documentation leaves open (value of a nested assignment, mixed-type operators, returns in constructors, long "
                         "into int[]) get verdict 'unspec' from the specification and are not compared",
                         "generic classes reach BlochStatic monomorphised (harness/py/bsyntax.py): each instantiation is its own class; quantum statements are outside the fragment"],
                        time.time() - t0, len(bad))
    return out.finish()
