"""C10 - acceptance and behaviour do not depend on top-level declaration order."""
import random
import time

import bsyntax
import gen_core
import gen_obj
import rename
import runner
import semrun
import vlib

PID = "C10"


def invalid_family():
    """statically invalid programs with <= 4 top-level declarations: EVERY order must be rejected with a Semantic error"""
    from bsyntax import (Program, Func, Class, Ctor, Method, Field, Param, P, C, VOID, I, S, Var, New, Decl, Echo, Ret, Expr, Call,
                         MCall, Asg, Bin, Fld)
    out = []
    # 1. abstract method left unimplemented along a 3-level chain, leaf instantiated
    shape = Class("Shape", "", [], [dict(Method("area", [], P("int"), [], virtual=True), abstract_body=True)], [Ctor([], [])], [], abstract=True)
    poly = Class("Polygon", "Shape", [], [Method("sides", [], P("int"), [Ret(I(4))])], [Ctor([], [])], [], abstract=True)
    blob = Class("Blob", "Polygon", [], [Method("name", [], P("str"), [Ret(S("blob"))])], [Ctor([], [])], [])
    out.append(("abstract leaf instantiated", Program([Func("main", [], VOID, [Decl(C("Blob"), "b", New("Blob")), Echo(MCall(Var("b"), "name"))])], [shape, poly, blob])))
    # 2. wrong argument type in a (possibly forward) call
    out.append(("argument type mismatch", Program([Func("main", [], VOID, [Echo(Call("twice", S("x")))]),
                                                   Func("twice", [Param(P("int"), "v")], P("int"), [Ret(Bin("*", Var("v"), I(2)))]),
                                                   Func("other", [], VOID, [Echo(I(1))])])))
    # 3. result of a void function used (callee declared before / after)
    out.append(("void result assigned", Program([Func("main", [], VOID, [Decl(P("int"), "x", Call("nothing")), Echo(Var("x"))]),
                                                 Func("nothing", [], VOID, [Echo(S("n"))]), Func("pad", [], P("int"), [Ret(I(1))])])))
    # 4. wrong arity
    out.append(("arity mismatch", Program([Func("main", [], VOID, [Echo(Call("add", I(1)))]),
                                           Func("add", [Param(P("int"), "a"), Param(P("int"), "b")], P("int"), [Ret(Bin("+", Var("a"), Var("b")))])])))
    # 5. private field used from a function, class declared before / after
    k = Class("K", "", [Field(P("int"), "secret", I(3), vis="private")], [], [Ctor([], [])], [])
    out.append(("private access", Program([Func("main", [], VOID, [Decl(C("K"), "k", New("K")), Echo(Fld(Var("k"), "secret"))]),
                                           Func("pad", [], VOID, [Echo(I(0))])], [k])))
    # 6. override without a virtual base method, base after derived
    b = Class("Base", "", [], [Method("m", [], P("int"), [Ret(I(1))])], [Ctor([], [])], [])
    d = Class("Der", "Base", [], [Method("m", [], P("int"), [Ret(I(2))], override=True)], [Ctor([], [])], [])
    out.append(("override of non-virtual", Program([Func("main", [], VOID, [Decl(C("Der"), "x", New("Der")), Echo(MCall(Var("x"), "m"))])], [b, d])))
    # 7. return type mismatch in a function used before its declaration
    out.append(("return type mismatch", Program([Func("main", [], VOID, [Decl(P("str"), "s", Call("num")), Echo(Var("s"))]),
                                                 Func("num", [], P("int"), [Ret(I(3))])])))
    return out


def structured_family():
    """accepted programs aimed at mechanisms through which declaration order could leak: (name, program in dependency order).
    The reference is evaluated on the given (dependency) order; every permutation must reproduce it."""
    from bsyntax import (Program, Func, Class, Ctor, Method, Field, Param, P, C, VOID, I, S, Var, New, Decl, Echo, Ret, Expr, Call,
                         MCall, SCall, Asg, Bin, Fld, FAsg, SFAsg, This, SFld, Super, Null, Bool, If)
    out = []
    counter = Class("Counter", "", [Field(P("int"), "n")],
                    [Method("bump", [], P("int"), [Expr(FAsg(This(), "n", Bin("+", Fld(This(), "n"), I(1)))), Ret(Fld(This(), "n"))])],
                    [Ctor([Param(P("int"), "s")], [Expr(FAsg(This(), "n", Var("s")))])], [])
    # 1. a call result dereferenced directly, callee before / after every caller
    out.append(("call result dereferenced", Program([
        Func("makeCounter", [Param(P("int"), "s")], C("Counter"), [Ret(New("Counter", Var("s")))]),
        Func("useIt", [], P("int"), [Ret(MCall(Call("makeCounter", I(1)), "bump"))]),
        Func("fieldIt", [], P("int"), [Ret(Fld(Call("makeCounter", I(5)), "n"))]),
        Func("main", [], VOID, [Echo(Call("useIt")), Echo(Call("fieldIt")), Echo(MCall(Call("makeCounter", I(40)), "bump"))])], [counter])))
    # 2. the same through a method returning an object and a generic instantiation
    box = Class("Box", "", [Field(P("T"), "v")], [Method("get", [], P("T"), [Ret(Fld(This(), "v"))])],
                [Ctor([Param(P("T"), "x")], [Expr(FAsg(This(), "v", Var("x")))])], [], tparams=["T"])
    out.append(("generic call result dereferenced", Program([
        Func("mkBox", [Param(P("int"), "s")], C("Box", [P("int")]), [Ret(New("Box", Var("s"), targs=[P("int")]))]),
        Func("peek", [], P("int"), [Ret(Fld(Call("mkBox", I(7)), "v"))]),
        Func("main", [], VOID, [Echo(Call("peek")), Echo(MCall(Call("mkBox", I(8)), "get"))])], [box])))
    # 3. a bounded type parameter whose bound is declared before / after the generic class
    shape = Class("Shape", "", [Field(P("int"), "s")], [], [Ctor([Param(P("int"), "x")], [Expr(FAsg(This(), "s", Var("x")))])], [])
    holder = dict(Class("Holder", "", [Field(P("T"), "item")], [Method("size", [], P("int"), [Ret(Fld(Fld(This(), "item"), "s"))])],
                        [Ctor([Param(P("T"), "x")], [Expr(FAsg(This(), "item", Var("x")))])], [], tparams=["T"]), tbounds={"T": "Shape"})
    out.append(("bounded type parameter", Program([
        Func("main", [], VOID, [Decl(C("Holder", [C("Shape")]), "h", New("Holder", New("Shape", I(3)), targs=[C("Shape")])), Echo(MCall(Var("h"), "size"))]),
        Func("pad", [], P("int"), [Ret(I(1))])], [shape, holder])))
    # 4. static initialisers reading another class's static (dependency order: A, B, Cc)
    a = Class("A", "", [Field(P("int"), "x", I(5), static=True)], [], [Ctor([], [], default=True)], [])
    b = Class("B", "", [Field(P("int"), "y", Bin("+", SFld("A", "x"), I(1)), static=True)], [], [Ctor([], [], default=True)], [])
    cc = Class("Cc", "", [Field(P("int"), "z", Bin("*", SFld("B", "y"), I(2)), static=True)], [], [Ctor([], [], default=True)], [])
    out.append(("cross-class static initialisers", Program([Func("main", [], VOID, [Echo(SFld("Cc", "z")), Echo(SFld("B", "y")), Echo(SFld("A", "x"))])], [a, b, cc])))
    # 5. a class deriving from a generic instantiation whose template derives from a plain class
    base0 = Class("Base0", "", [Field(P("int"), "b0", I(1))], [], [Ctor([], [])], [])
    g = Class("G", "Base0", [Field(P("int"), "g", I(2))], [], [Ctor([], [Super()])], [], tparams=["T"])
    d = Class("D", "G", [Field(P("int"), "d", I(3))],
              [Method("show", [], VOID, [Echo(Fld(This(), "b0")), Echo(Fld(This(), "g")), Echo(Fld(This(), "d"))])],
              [Ctor([], [Super()])], [], base_targs=[P("int")])
    out.append(("generic base over a plain base", Program([Func("main", [], VOID, [Decl(C("D"), "x", New("D")), Expr(MCall(Var("x"), "show"))])], [base0, g, d])))
    # 6. a base class's static read through the name of a derived class, from a third class's static initialiser
    lim = Class("Limits", "", [Field(P("int"), "cap", I(40), static=True), Field(P("int"), "floor", I(2), static=True)], [], [Ctor([], [], default=True)], [])
    tight = Class("TightLimits", "Limits", [], [], [Ctor([], [Super()])], [])
    plan = Class("Plan", "", [Field(P("int"), "budget", Bin("+", SFld("TightLimits", "cap"), SFld("TightLimits", "floor")), static=True)], [], [], [], static=True)
    out.append(("inherited static read through the derived class name", Program([
        Func("report", [], VOID, [Echo(SFld("Plan", "budget"))]),
        Func("main", [], VOID, [Expr(Call("report")), Echo(SFld("Limits", "cap")), Echo(SFld("TightLimits", "floor"))])], [lim, tight, plan])))
    # 6b. the same with names chosen so that the reading class precedes the declaring base in name order as well (classes are
    #     initialised in name order; the read must initialise the declaring class on demand)
    zed = Class("ZedLimits", "", [Field(P("int"), "cap", I(40), static=True), Field(P("int"), "floor", I(2), static=True)], [], [Ctor([], [], default=True)], [])
    midl = Class("MidLimits", "ZedLimits", [], [], [Ctor([], [Super()])], [])
    aplan = Class("APlan", "", [Field(P("int"), "budget", Bin("+", SFld("MidLimits", "cap"), SFld("MidLimits", "floor")), static=True)], [], [], [], static=True)
    out.append(("inherited static read through the derived class name, reader first in name order", Program([
        Func("main", [], VOID, [Echo(SFld("APlan", "budget")), Echo(SFld("ZedLimits", "cap")), Echo(SFld("MidLimits", "floor"))])], [zed, midl, aplan])))
    # 7. a plain class over two generic levels over a plain base with fields
    dev = Class("Device", "", [Field(P("int"), "id")], [Method("label", [], P("int"), [Ret(Bin("+", Fld(This(), "id"), I(1000)))], virtual=True)],
                [Ctor([Param(P("int"), "id0")], [Expr(FAsg(This(), "id", Var("id0")))])], [])
    sens = Class("Sensor", "Device", [Field(P("int"), "samples")], [], [Ctor([Param(P("int"), "i"), Param(P("int"), "n")], [Super(Var("i")), Expr(FAsg(This(), "samples", Var("n")))])], [],
                 tparams=["T"])
    cal = Class("Calibrated", "Sensor", [Field(P("int"), "offset"), Field(P("T"), "unit")], [],
                [Ctor([Param(P("int"), "i"), Param(P("int"), "n"), Param(P("T"), "u")], [Super(Var("i"), Var("n")), Expr(FAsg(This(), "offset", I(3))), Expr(FAsg(This(), "unit", Var("u")))])], [],
                tparams=["T"], base_targs=[P("T")])
    thermo = Class("Thermometer", "Calibrated", [Field(P("int"), "reading")],
                   [Method("corrected", [], P("int"), [Ret(Bin("+", Fld(This(), "reading"), Fld(This(), "offset")))])],
                   [Ctor([Param(P("int"), "i"), Param(P("int"), "r")], [Super(Var("i"), I(8), I(55)), Expr(FAsg(This(), "reading", Var("r")))])], [], base_targs=[P("int")])
    out.append(("plain class over two generic levels over a plain base", Program([
        Func("describe", [Param(C("Thermometer"), "t")], VOID, [Echo(MCall(Var("t"), "label")), Echo(Fld(Var("t"), "samples")), Echo(Fld(Var("t"), "offset")),
                                                                 Echo(Fld(Var("t"), "unit")), Echo(Fld(Var("t"), "reading")), Echo(Fld(Var("t"), "id"))]),
        Func("main", [], VOID, [Decl(C("Thermometer"), "t", New("Thermometer", I(7), I(21))), Expr(Call("describe", Var("t"))), Echo(MCall(Var("t"), "corrected"))])],
        [dev, sens, cal, thermo])))
    # 8. a generic class whose static initialiser reads another class's static, instantiated through a plain subclass
    conf = Class("Conf", "", [Field(P("int"), "base", I(5), static=True)], [], [], [], static=True)
    gs = Class("GS", "", [Field(P("int"), "s", Bin("+", SFld("Conf", "base"), I(1)), static=True), Field(P("T"), "t")],
               [Method("get", [], P("int"), [Ret(Var("s"))])], [Ctor([], [])], [], tparams=["T"])
    sub = Class("SubS", "GS", [], [], [Ctor([], [Super()])], [], base_targs=[P("int")])
    out.append(("generic static initialiser reading another class's static", Program([
        Func("main", [], VOID, [Decl(C("SubS"), "x", New("SubS")), Echo(MCall(Var("x"), "get")), Decl(C("GS", [P("str")]), "y", New("GS", targs=[P("str")])), Echo(MCall(Var("y"), "get")),
                                Echo(SFld("Conf", "base"))])], [conf, gs, sub])))
    # 9. a type parameter named like a class declared elsewhere: it shadows that class inside its own generic class only
    item = Class("Item", "", [Field(P("int"), "id", I(4))], [Method("show", [], P("int"), [Ret(Bin("+", Var("id"), I(100)))])], [Ctor([], [], default=True)], [])
    shelf = Class("Shelf", "", [Field(C("Item"), "first")], [Method("top", [], P("int"), [Ret(MCall(Var("first"), "show"))])],
                  [Ctor([], [Expr(Asg("first", New("Item")))])], [])
    boxi = Class("Box", "", [Field(P("Item"), "content")], [Method("get", [], P("Item"), [Ret(Var("content"))])],
                 [Ctor([Param(P("Item"), "c0")], [Expr(FAsg(This(), "content", Var("c0")))])], [], tparams=["Item"])
    other = Class("Other", "", [Field(C("Item"), "held")], [Method("peek", [], P("int"), [Ret(Fld(Var("held"), "id"))])], [Ctor([], [Expr(FAsg(This(), "held", New("Item")))])], [])
    out.append(("type parameter named like a class", Program([
        Func("mk", [], C("Item"), [Ret(New("Item"))]),
        Func("main", [], VOID, [Decl(C("Shelf"), "sh", New("Shelf")), Echo(MCall(Var("sh"), "top")), Decl(C("Box", [C("Shelf")]), "b", New("Box", Var("sh"), targs=[C("Shelf")])),
                                Echo(MCall(MCall(Var("b"), "get"), "top")), Echo(MCall(New("Other"), "peek")), Echo(Fld(Call("mk"), "id"))])], [item, shelf, boxi, other])))
    # 10. static initialisers that call into another class (a static method reading its statics by bare name; a constructor whose
    #     field initialisers and methods read a static by bare name) before that class's own turn
    rates = Class("Rates", "", [Field(P("int"), "base", I(20), static=True), Field(P("int"), "step", I(1), static=True)],
                  [Method("next", [], P("int"), [Ret(Bin("+", Var("base"), Var("step")))], static=True)], [Ctor([], [], default=True)], [])
    plan = Class("Plan", "", [Field(P("int"), "budget", Bin("*", SCall("Rates", "next"), I(2)), static=True)], [], [Ctor([], [], default=True)], [])
    token = Class("Token", "", [Field(P("int"), "seed", I(7), static=True), Field(P("int"), "id", Bin("*", Var("seed"), I(3)))],
                  [Method("value", [], P("int"), [Ret(Bin("+", Var("id"), Var("seed")))])], [Ctor([], [], default=True)], [])
    vault = Class("Vault", "", [Field(P("int"), "opening", MCall(New("Token"), "value"), static=True)], [], [Ctor([], [], default=True)], [])
    out.append(("static initialisers calling into classes not yet initialised", Program([
        Func("main", [], VOID, [Echo(SFld("Plan", "budget")), Echo(SCall("Rates", "next")), Echo(SFld("Vault", "opening")), Decl(C("Token"), "t", New("Token")), Echo(MCall(Var("t"), "value"))])],
        [rates, plan, token, vault])))
    # 11. two generic classes using the same type-parameter name with different bounds, each passing a T to the same overloaded method
    animal = Class("Animal", "", [], [Method("name", [], P("str"), [Ret(S("animal"))], virtual=True)], [Ctor([], [], default=True)], [])
    dog = Class("Dog", "Animal", [], [Method("name", [], P("str"), [Ret(S("dog"))], override=True)], [Ctor([], [Super()])], [])
    feeder = Class("Feeder", "", [], [Method("feed", [Param(C("Animal"), "a")], P("str"), [Ret(Bin("+", S("hay for the "), MCall(Var("a"), "name")))]),
                                      Method("feed", [Param(C("Dog"), "d")], P("str"), [Ret(Bin("+", S("biscuits for the "), MCall(Var("d"), "name")))])], [Ctor([], [], default=True)], [])
    cage = dict(Class("Cage", "", [Field(P("T"), "occupant")], [Method("serve", [Param(C("Feeder"), "f")], P("str"), [Ret(MCall(Var("f"), "feed", Fld(This(), "occupant")))])],
                      [Ctor([Param(P("T"), "t")], [Expr(FAsg(This(), "occupant", Var("t")))])], [], tparams=["T"]), tbounds={"T": "Animal"})
    kennel = dict(Class("Kennel", "", [Field(P("T"), "occupant")], [Method("serve", [Param(C("Feeder"), "f")], P("str"), [Ret(MCall(Var("f"), "feed", Fld(This(), "occupant")))])],
                        [Ctor([Param(P("T"), "t")], [Expr(FAsg(This(), "occupant", Var("t")))])], [], tparams=["T"]), tbounds={"T": "Dog"})
    out.append(("same type-parameter name, different bounds, one overloaded callee", Program([
        Func("main", [], VOID, [Decl(C("Feeder"), "f", New("Feeder")), Decl(C("Cage", [C("Animal")]), "c", New("Cage", New("Animal"), targs=[C("Animal")])),
                                Decl(C("Kennel", [C("Dog")]), "k", New("Kennel", New("Dog"), targs=[C("Dog")])), Echo(MCall(Var("c"), "serve", Var("f"))), Echo(MCall(Var("k"), "serve", Var("f")))])],
        [animal, dog, feeder, cage, kennel])))
    # 12. a static initialiser whose constructor call stores into statics of a class that has not been initialised yet
    widget = Class("Widget", "", [Field(P("str"), "label")], [], [Ctor([Param(P("str"), "l0")], [Expr(FAsg(This(), "label", Var("l0"))), Expr(SFAsg("Registry", "latest", This())),
                                                                                                   Expr(SFAsg("Registry", "registered", Bool(True))), Expr(SFAsg("Registry", "count", Bin("+", SFld("Registry", "count"), I(1))))])], [])
    registry = Class("Registry", "", [Field(C("Widget"), "latest", Null(), static=True), Field(P("bool"), "registered", Bool(False), static=True), Field(P("int"), "count", I(100), static=True)],
                     [Method("describe", [], P("str"), [If(Bin("==", Var("latest"), Null()), [Ret(S("nothing registered"))]), Ret(Bin("+", S("latest widget: "), Fld(Var("latest"), "label")))], static=True)],
                     [], [], static=True)
    defaults = Class("Defaults", "", [Field(C("Widget"), "panel", New("Widget", S("main panel")), static=True)], [], [], [], static=True)
    out.append(("static initialiser storing into another class's statics", Program([
        Func("main", [], VOID, [Echo(SFld("Registry", "registered")), Echo(SCall("Registry", "describe")), Echo(Fld(SFld("Defaults", "panel"), "label")), Echo(SFld("Registry", "count"))])],
        [widget, registry, defaults])))
    # 13. a bounded generic class named with a class type argument in field types, member signatures and extends clauses of other classes
    ani = Class("Animal", "", [], [Method("name", [], P("str"), [Ret(S("animal"))], virtual=True)], [Ctor([], [], default=True)], [])
    felid = Class("Felid", "Animal", [], [], [Ctor([], [Super()])], [])
    cat = Class("Cat", "Felid", [], [Method("name", [], P("str"), [Ret(S("cat"))], override=True)], [Ctor([], [Super()])], [])
    cage2 = dict(Class("Cage", "", [Field(P("T"), "occupant")], [Method("get", [], P("T"), [Ret(Var("occupant"))])],
                       [Ctor([Param(P("T"), "t")], [Expr(FAsg(This(), "occupant", Var("t")))])], [], tparams=["T"]), tbounds={"T": "Animal"})
    shelter = Class("Shelter", "", [Field(C("Cage", [C("Cat")]), "cage")], [Method("resident", [], C("Cage", [C("Cat")]), [Ret(Var("cage"))]),
                                                                             Method("swap", [Param(C("Cage", [C("Cat")]), "c")], VOID, [Expr(FAsg(This(), "cage", Var("c")))])],
                    [Ctor([], [Expr(FAsg(This(), "cage", New("Cage", New("Cat"), targs=[C("Cat")])))])], [])
    catcage = Class("CatCage", "Cage", [], [], [Ctor([], [Super(New("Cat"))])], [], base_targs=[C("Cat")])
    out.append(("bounded generic named in other classes' members", Program([
        Func("main", [], VOID, [Decl(C("Shelter"), "sh", New("Shelter")), Echo(MCall(MCall(MCall(Var("sh"), "resident"), "get"), "name")),
                                Decl(C("CatCage"), "cc", New("CatCage")), Expr(MCall(Var("sh"), "swap", Var("cc"))), Echo(MCall(Fld(Fld(Var("sh"), "cage"), "occupant"), "name"))])],
        [ani, felid, cat, cage2, shelter, catcage])))
    # 14. @quantum functions returning bit / bit[] / void, used as values (array initialiser, index, argument, condition) by functions
    #     declared before and after them
    from bsyntax import A, Arr, Bit, Idx
    pairf = Func("pair", [], A("bit"), [Decl(A("bit"), "r", Arr("bit", [Bit(0), Bit(1)])), Ret(Var("r"))], quantum=True)
    onef = Func("one", [], P("bit"), [Ret(Bit(1))], quantum=True)
    nonef = Func("none", [], VOID, [Echo(S("none"))], quantum=True)
    out.append(("@quantum functions used before and after their declaration", Program([
        Func("first", [], P("bit"), [Decl(A("bit"), "r", Call("pair")), Ret(Idx(Var("r"), I(1)))]),
        Func("second", [Param(A("bit"), "xs")], P("bit"), [Ret(Idx(Var("xs"), I(0)))]),
        pairf, onef, nonef,
        Func("main", [], VOID, [Echo(Call("first")), Echo(Call("second", Call("pair"))), Echo(Idx(Call("pair"), I(1))), Decl(P("bit"), "b", Call("one")), Echo(Var("b")),
                                Expr(Call("none")), Decl(A("bit"), "again", Call("pair")), Echo(Var("again"))])])))
    return out


GENERIC_EFFECT = "generic instantiations with effectful statics"


def up_to_numbering(lines):
    """'key=number' lines reduced to what does not depend on the undocumented order of independent initialisers"""
    keys = sorted(l.split("=")[0] for l in lines)
    nums = sorted(l.split("=")[1] for l in lines if "=" in l)
    return keys, nums


def effect_family():
    """static initialisers with visible effects (they call a function that echoes): several classes whose initialisers are independent of
    each other, and some that read each other's statics. In which order independent initialisers run is not documented; what the
    property requires is that it does not depend on the order of the declarations: every permutation prints exactly what the first one
    prints, and the same lines as the reference (which initialises in the given order) up to the order of the initialisers' lines."""
    from bsyntax import Program, Func, Class, Field, Param, P, VOID, I, S, Var, Echo, Ret, Call, Bin, SFld
    note = Func("note", [Param(P("str"), "s"), Param(P("int"), "v")], P("int"), [Echo(Var("s")), Ret(Var("v"))])
    out = []
    mk = lambda n, init: Class(n, "", [Field(P("int"), "v", init, static=True)], [], [], [], static=True)
    out.append(("independent static initialisers with effects", Program([note, Func("main", [], VOID, [Echo(S("main")), Echo(Bin("+", Bin("+", SFld("Alpha", "v"), SFld("Beta", "v")), SFld("Gamma", "v")))])],
                [mk("Alpha", Call("note", S("alpha"), I(1))), mk("Beta", Call("note", S("beta"), I(2))), mk("Gamma", Call("note", S("gamma"), I(3)))])))
    out.append(("dependent static initialisers with effects", Program([note, Func("main", [], VOID, [Echo(S("main")), Echo(SFld("Zeta", "v")), Echo(SFld("Mid", "v"))])],
                # (given in dependency order, which the reference needs)
                [mk("Zeta", Call("note", S("zeta"), I(5))), mk("Mid", Call("note", S("mid"), I(20))), mk("Alpha", Call("note", S("alpha"), Bin("+", SFld("Zeta", "v"), I(1)))),
                 mk("Omega", Call("note", S("omega"), Bin("+", SFld("Alpha", "v"), SFld("Mid", "v"))))])))
    # instantiations of ONE generic class whose static initialiser has an effect (it draws the next number of a counter), created as
    # bases of plain classes: which instantiation is initialised first is not documented, but it must not follow the order in which the
    # plain classes are written. The lines are "subK=<number>": against the reference only the set of keys and the multiset of numbers
    # are compared (see run()), against the other permutations the lines themselves.
    from bsyntax import Ctor, Super, SFAsg, Expr
    INT = P("int")
    nxt = Func("next", [], INT, [Expr(SFAsg("Tally", "n", Bin("+", SFld("Tally", "n"), I(1)))), Ret(SFld("Tally", "n"))])
    tally = Class("Tally", "", [Field(INT, "n", None, static=True)], [], [], [], static=True)
    for targs in (("float", "bit"), ("int", "str"), ("long", "char"), ("bool", "float", "int"), ("str", "bit", "long")):
        box = Class("Box", "", [Field(INT, "tag", Call("next"), static=True)], [], [Ctor([], [], default=True)], [], tparams=["T"])
        subs = [Class("Sub%d" % k, "Box", [], [], [Ctor([], [Super()])], [], base_targs=[P(t)]) for k, t in enumerate(targs)]
        out.append((GENERIC_EFFECT + " %s" % (targs,),
                    Program([nxt, Func("main", [], VOID, [Echo(S("main"))] + [Echo(Bin("+", S("sub%d=" % k), SFld("Sub%d" % k, "tag"))) for k in range(len(targs))])],
                            [tally, box] + subs)))
    return out


def run(tier, seed):
    t0 = time.time()
    out = vlib.Outcome(PID)
    nbase = 160 if tier == "quick" else 2000
    rnd = random.Random(seed)
    base = gen_obj.programs(seed, nbase // 2) + gen_core.random_programs(seed + 1, nbase // 2, allow_errors=True)
    progs = [(i, p) for i, p in enumerate(base)]
    oracle = semrun.tlc_oracle(progs)     # the reference looks declarations up by name: one result per program
    jobs = []
    meta = {}
    for bi, p in progs:
        for order in rename.orders(p, rnd, 12 if tier == "quick" else 24):
            jid = len(jobs)
            meta[jid] = (bi, order)
            jobs.append({"id": jid, "src": bsyntax.render(p, order=order), "gc": "none"})
    # @shots(N) on main must be honoured wherever main stands among the functions
    shots_jobs = {}
    for bi, p in progs[:40] + progs[len(progs) // 2: len(progs) // 2 + 40]:
        n = 2 + bi % 5
        import copy
        p2 = copy.deepcopy(p)
        for f in p2["funcs"]:
            if f["name"] == "main":
                f["shots"] = n
        for order in rename.orders(p2, rnd, 6):
            jid = len(jobs)
            shots_jobs[jid] = (bi, order, n)
            jobs.append({"id": jid, "src": bsyntax.render(p2, order=order), "gc": "none", "stage": "front"})
    # statically invalid programs: every order must be rejected alike
    inv_jobs = {}
    import itertools
    for what, p in invalid_family():
        decls = [("c", i) for i in range(len(p["classes"]))] + [("f", i) for i in range(len(p["funcs"]))]
        for order in itertools.permutations(decls):
            jid = len(jobs)
            inv_jobs[jid] = (what, list(order))
            jobs.append({"id": jid, "src": bsyntax.render(p, order=list(order)), "gc": "none", "stage": "front"})
    # structured accepted programs: every permutation of the declarations
    struct = structured_family()
    struct_oracle = semrun.tlc_oracle([(k, p) for k, (_, p) in enumerate(struct)])
    struct_jobs = {}
    for k, (what, p) in enumerate(struct):
        if struct_oracle[k]["status"] != "ok" or not struct_oracle[k]["out"]:
            raise vlib.Infra("structured program '%s' has no usable reference: %s" % (what, struct_oracle[k]))
        decls = [("c", i) for i in range(len(p["classes"]))] + [("f", i) for i in range(len(p["funcs"]))]
        for order in itertools.permutations(decls):
            jid = len(jobs)
            struct_jobs[jid] = (k, what, list(order))
            jobs.append({"id": jid, "src": bsyntax.render(p, order=list(order)), "gc": "none"})
    eff = effect_family()
    eff_oracle = semrun.tlc_oracle([(k, p) for k, (_, p) in enumerate(eff)])
    eff_jobs = {}
    for k, (what, p) in enumerate(eff):
        decls = [("c", i) for i in range(len(p["classes"]))] + [("f", i) for i in range(len(p["funcs"]))]
        for order in itertools.permutations(decls):
            jid = len(jobs)
            eff_jobs[jid] = (k, what, list(order))
            jobs.append({"id": jid, "src": bsyntax.render(p, order=list(order)), "gc": "none"})
    res = runner.run_jobs(jobs)
    bad = {}
    first = {}
    for jid, (k, what, order) in eff_jobs.items():
        meta[jid] = (what, order)
        r = res[jid]
        got = r["shots"][0]["echo"] if r.get("status") == "ok" and r.get("shots") and r["shots"][0]["status"] == "ok" else None
        ref = [l for l in eff_oracle[k]["out"] if not l.startswith(("<<", ">>"))]
        if got is None:
            bad[jid] = "%s: this order ends with %s %s" % (what, r.get("status"), r.get("what", (r.get("shots") or [{}])[0].get("what", "")))
        elif (up_to_numbering(got) != up_to_numbering(ref)) if what.startswith(GENERIC_EFFECT) else (sorted(got) != sorted(ref)):
            bad[jid] = "%s: prints %s, the reference prints the lines %s" % (what, got, ref)
        elif k in first and got != first[k][1]:
            bad[jid] = "%s: prints %s in this order and %s in the order %s" % (what, got, first[k][1], first[k][0])
        first.setdefault(k, (order, got))
    for jid, (k, what, order) in struct_jobs.items():
        meta[jid] = (what, order)
        m = semrun.compare(struct_oracle[k], res[jid])
        if m:
            bad[jid] = "%s: %s" % (what, m)
    for jid, (bi, order) in list(meta.items()):
        if jid in struct_jobs or jid in eff_jobs:
            continue
        m = semrun.compare(oracle[bi], res[jid])
        if m:
            bad[jid] = m
    for jid, (bi, order, n) in shots_jobs.items():
        meta[jid] = (bi, order)
        if res[jid]["status"] != "ok":
            bad[jid] = "program with @shots(%d) on main rejected in this order: %s" % (n, res[jid].get("what", res[jid]["status"]))
        elif res[jid].get("ann_shots") != [1, n]:
            bad[jid] = "@shots(%d) on main reported as %s in this order" % (n, res[jid].get("ann_shots"))
    for jid, (what, order) in inv_jobs.items():
        meta[jid] = (what, order)
        if res[jid]["status"] != "semantic":
            bad[jid] = "invalid program (%s) must be rejected with a Semantic error in every order; this order: %s %s" % (
                what, res[jid]["status"], res[jid].get("what", ""))
    for jid, msg in sorted(bad.items())[:8]:
        bi, order = meta[jid]
        out.violation("%s [order %s]" % (msg, order), {"what": msg, "order": order, "program": jobs[jid]["src"],
                                                     "reference": oracle.get(bi) if isinstance(bi, int) else bi, "interpreter": res[jid]}, "perm%d" % jid)
    cov = {"evaluations": len(jobs), "distinct_nontrivial": len({j["src"] for j in jobs}),
           "base_programs": len(base), "orders_run": len(jobs), "shots_annotation_orders": len(shots_jobs),
           "invalid_program_orders": len(inv_jobs), "structured_program_orders": len(struct_jobs),
           "samples": [{"order": meta[1][1], "program": jobs[1]["src"][:1500]}],
           "rule": "for each base program (classes incl. derived/base chains of depth <= 3, generic classes, functions calling forward "
                   "with 0-3 arguments, results used or discarded) every permutation of its top-level declarations when there are <= 4 of "
                   "them, otherwise the reversed order and a seeded sample of permutations; the reference (BlochSem, which looks functions "
                   "and classes up by name) gives ONE result per program and every order must reproduce it: accepted, same output, same "
                   "runtime error."}
    vlib.write_evidence(PID, tier, seed, "exploration", cov,
                        ["base programs are accepted programs; order-independence of REJECTION is exercised by the C16 probes in both orders"],
                        time.time() - t0, len(bad))
    return out.finish()
