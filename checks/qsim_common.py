"""TLC exploration of MCQSim + replay of its complete successor tables on the real QasmSimulator.
Serves C01, C02, C04 and the simulator halves of C03, C05, C06."""
import json
import os
import shutil
import time

import vlib

SPEC_FILES = ["Ring.tla", "QSim.tla", "MCQSim.tla"]
INVS = "TypeOK UnitNorm Definite BornOnGrid CollapseOK ResetLocal AllocPreserves"


def _cfg(path, maxn, invs):
    with open(path, "w") as f:
        f.write("SPECIFICATION Spec\nCONSTANT MaxN = %d\nINVARIANTS %s\n" % (maxn, invs))


def tlc_phase(maxn):
    """Run (or reuse) the two TLC passes for MaxN=maxn: (1) all design invariants, (2) successor-table
    dump. Both depend only on the specification, so they are cached by the hash of the spec files."""
    key = vlib.sha(vlib.spec_hash(*SPEC_FILES), maxn, INVS)
    d = os.path.join(vlib.BUILD, "tlc", "qsim-" + key)
    meta = os.path.join(d, "meta.json")
    dump = os.path.join(d, "dump.ndjson")
    if os.path.exists(meta) and os.path.exists(dump):
        m = json.load(open(meta))
        m["cached"] = True
        return m, dump
    shutil.rmtree(d, ignore_errors=True)
    os.makedirs(d)
    cfg1 = os.path.join(d, "inv.cfg")
    cfg2 = os.path.join(d, "dump.cfg")
    _cfg(cfg1, maxn, INVS)
    _cfg(cfg2, maxn, "TypeOK DumpInv")
    r1 = vlib.tlc("MCQSim.tla", cfg1, timeout=3000, heap="12g")
    vlib.tlc_ok(r1, "MCQSim invariants (MaxN=%d)" % maxn)
    tmp = dump + ".tmp"
    if os.path.exists(tmp):
        os.remove(tmp)
    r2 = vlib.tlc("MCQSim.tla", cfg2, env={"QSIM_DUMP": tmp}, timeout=3000, heap="12g")
    vlib.tlc_ok(r2, "MCQSim dump (MaxN=%d)" % maxn)
    nlines = sum(1 for _ in open(tmp))
    if nlines != r2.distinct or r2.distinct != r1.distinct:
        raise vlib.Infra("dump has %d lines, TLC found %d/%d distinct states" % (nlines, r2.distinct, r1.distinct))
    os.replace(tmp, dump)
    m = {"maxn": maxn, "distinct": r1.distinct, "generated": r1.generated, "depth": r1.depth,
         "invariants": INVS.split(), "tlc_wall_s": round(r1.wall + r2.wall, 1), "cached": False}
    json.dump(m, open(meta, "w"))
    return m, dump


def replay(dump):
    exe = vlib.link("qsim_replay", ["qsim_replay.cpp"], "plain", repo_srcs_override=["bloch/runtime/qasm_simulator.cpp"])
    tmp = vlib.scratch("qsimrep")
    try:
        out = os.path.join(tmp, "out.json")
        p = vlib.sh([exe, dump, out, "40"], timeout=3000)
        if p.returncode != 0 or not os.path.exists(out):
            # a crash of the implementation under replay is itself a finding, but we cannot attribute
            # it to a property without the result file: report as infrastructure failure with detail
            raise vlib.Infra("qsim_replay exited %d: %s" % (p.returncode, p.stderr.decode(errors='replace')[-1500:]))
        return json.load(open(out))
    finally:
        shutil.rmtree(tmp, ignore_errors=True)


def run(tier):
    maxn = 3
    t0 = time.time()
    meta, dump = tlc_phase(maxn)
    rep = replay(dump)
    rep["wall_s"] = time.time() - t0
    return meta, rep
