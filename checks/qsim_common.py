"""TLC exploration of MCQSim + replay of its complete successor tables on the real QasmSimulator.
Serves C01, C02, C04 and the simulator halves of C03, C05, C06."""
import json
import os
import shutil
import time

import vlib

SPEC_FILES = ["Ring.tla", "QSim.tla", "MCQSim.tla"]
INVS = "TypeOK UnitNorm Definite BornOnGrid CollapseOK ResetLocal AllocPreserves"


def _cfg(path, maxn, invs):
    with open(path, "w") as f:
        f.write("SPECIFICATION Spec\nCONSTANT MaxN = %d\nINVARIANTS %s\n" % (maxn, invs))


def tlc_phase(maxn):
    """Run (or reuse) the two TLC passes for MaxN=maxn: (1) all design invariants, (2) successor-table
    dump. Both depend only on the specification, so they are cached by the hash of the spec files."""
    key = vlib.sha(vlib.spec_hash(*SPEC_FILES), maxn, INVS)
    d = vlib.cache_dir("qsim", key)
    meta = os.path.join(d, "meta.json")
    dump = os.path.join(d, "dump.ndjson")
    if os.path.exists(meta) and os.path.exists(dump):
        m = json.load(open(meta))
        m["cached"] = True
        return m, dump
    shutil.rmtree(d, ignore_errors=True)
    os.makedirs(d)
    cfg1 = os.path.join(d, "inv.cfg")
    cfg2 = os.path.join(d, "dump.cfg")
    _cfg(cfg1, maxn, INVS)
    _cfg(cfg2, maxn, "TypeOK DumpInv")
    r1 = vlib.tlc("MCQSim.tla", cfg1, timeout=3000, heap="12g")
    vlib.tlc_ok(r1, "MCQSim invariants (MaxN=%d)" % maxn)
    tmp = dump + ".tmp"
    if os.path.exists(tmp):
        os.remove(tmp)
    r2 = vlib.tlc("MCQSim.tla", cfg2, env={"QSIM_DUMP": tmp}, timeout=3000, heap="12g")
    vlib.tlc_ok(r2, "MCQSim dump (MaxN=%d)" % maxn)
    nlines = sum(1 for _ in open(tmp))
    if nlines != r2.distinct or r2.distinct != r1.distinct:
        raise vlib.Infra("dump has %d lines, TLC found %d/%d distinct states" % (nlines, r2.distinct, r1.distinct))
    os.replace(tmp, dump)
    m = {"maxn": maxn, "distinct": r1.distinct, "generated": r1.generated, "depth": r1.depth,
         "invariants": INVS.split(), "tlc_wall_s": round(r1.wall + r2.wall, 1), "cached": False}
    json.dump(m, open(meta, "w"))
    return m, dump


def tlc_wide(n):
    """MCQSimWide: basis states and non-stabiliser preparation prefixes of an n-qubit register with every
    one-step probe (TLC evaluates invariants UnitNorm, ProjOK and dumps the probe tables)."""
    files = ["Ring.tla", "QSim.tla", "MCQSimWide.tla"]
    key = vlib.sha(vlib.spec_hash(*files), "wide", n)
    d = vlib.cache_dir("qsimwide", key)
    meta = os.path.join(d, "meta.json")
    dump = os.path.join(d, "dump.ndjson")
    if os.path.exists(meta) and os.path.exists(dump):
        m = json.load(open(meta))
        m["cached"] = True
        return m, dump
    shutil.rmtree(d, ignore_errors=True)
    os.makedirs(d)
    cfg = os.path.join(d, "wide.cfg")
    with open(cfg, "w") as f:
        f.write("SPECIFICATION Spec\nCONSTANT N = %d\nINVARIANTS UnitNorm ProjOK DumpInv\n" % n)
    tmp = dump + ".tmp"
    r = vlib.tlc("MCQSimWide.tla", cfg, env={"QSIM_DUMP": tmp}, deadlock=False, timeout=3000, heap="12g")
    vlib.tlc_ok(r, "MCQSimWide (N=%d)" % n)
    os.replace(tmp, dump)
    m = {"n": n, "distinct": r.distinct, "generated": r.generated, "tlc_wall_s": round(r.wall, 1), "cached": False}
    json.dump(m, open(meta, "w"))
    return m, dump


def replay(dump, log=True):
    exe = vlib.link("qsim_replay", ["qsim_replay.cpp"], "plain", repo_srcs_override=["bloch/runtime/qasm_simulator.cpp"])
    tmp = vlib.scratch("qsimrep")
    try:
        out = os.path.join(tmp, "out.json")
        if not os.path.exists(dump):
            raise vlib.Infra("state-graph dump %s disappeared before the replay" % dump)
        p = vlib.sh([exe, dump, out, "40", "log" if log else "nolog"], timeout=3000)
        if p.returncode == 2:
            # exit status 2 is the replay harness's own usage / input error, not a crash of the implementation
            raise vlib.Infra("qsim_replay: %s" % p.stderr.decode(errors="replace")[-500:])
        if p.returncode != 0 or not os.path.exists(out):
            # the implementation crashed under replay: no result file to attribute, so report it for every
            # property served by this harness
            return {"crashed": True, "rc": p.returncode, "stderr": p.stderr.decode(errors="replace")[-1500:]}
        return json.load(open(out))
    finally:
        shutil.rmtree(tmp, ignore_errors=True)


def run(tier):
    """closed graph (<=3 qubits, log on) + closed graph (<=2 qubits, log off) + wide probes (5 / 6 qubits)."""
    t0 = time.time()
    meta, dump = tlc_phase(3)
    meta2, dump2 = tlc_phase(2)
    wn = 5 if tier == "quick" else 6
    wmeta, wdump = tlc_wide(wn)
    parts = [("closed<=3", replay(dump, True)), ("closed<=2,log off", replay(dump2, False)),
             ("wide n=%d" % wn, replay(wdump, True)), ("wide n=%d,log off" % wn, replay(wdump, False))]
    rep = {"per_action": {}, "viol_by_prop": {}, "violations": [], "samples": [], "nodes": 0, "edges": 0,
           "unreached": 0, "measure_draws": 0, "reset_draws": 0, "refused_checked": 0,
           "nonstandard_reset_poststates": 0, "parts": {}}
    for name, r in parts:
        if r.get("crashed"):
            for pid in ("C01", "C02", "C03", "C04", "C05", "C06", "C12"):
                rep["viol_by_prop"][pid] = rep["viol_by_prop"].get(pid, 0) + 1
                rep["violations"].append({"property": pid, "what": "implementation crashed during graph replay (%s): rc=%s %s"
                                          % (name, r["rc"], r["stderr"][-400:]), "state": "", "action": name})
            continue
        rep["parts"][name] = {"nodes": r["nodes"], "edges": r["edges"]}
        for k, v in r["per_action"].items():
            rep["per_action"][k] = rep["per_action"].get(k, 0) + v
        for k, v in r["viol_by_prop"].items():
            rep["viol_by_prop"][k] = rep["viol_by_prop"].get(k, 0) + v
        for v in r["violations"]:
            v["part"] = name
            v["state"] = v["state"][:400]
            rep["violations"].append(v)
        rep["samples"] += [dict(x, state=x["state"][:200]) for x in r["samples"][:3]]
        for k in ("nodes", "edges", "unreached", "measure_draws", "reset_draws", "refused_checked", "nonstandard_reset_poststates"):
            rep[k] += r[k]
    meta = dict(meta)
    meta["wide"] = wmeta
    meta["distinct"] = meta["distinct"] + wmeta["distinct"]
    meta["generated"] = meta["generated"] + wmeta["generated"]
    rep["wall_s"] = time.time() - t0
    return meta, rep
