"""C01 - built-in gates act as their defining unitaries on exactly the addressed qubits."""
import time

import qrt_common
import qsim_common
import vlib

PID = "C01"
GATES = ["h", "x", "y", "z", "rx", "ry", "rz", "cx"]


def run(tier, seed):
    t0 = time.time()
    out = vlib.Outcome(PID)
    meta, rep = qsim_common.run(tier)
    nviol = rep["viol_by_prop"].get(PID, 0)
    for i, v in enumerate([v for v in rep["violations"] if v["property"] == PID][:5]):
        out.violation(v["what"], {"kind": "qsim-edge", "spec_state": v["state"], "action": v["action"],
                                  "what": v["what"], "how": "bin/vcheck C01 --replay <this file>"}, "edge%d" % i)
    # program level: the gate the evaluator hands to the simulator (name, qubit index, angle) is the one the program wrote,
    # whichever way the qubit is named (local, element, object field inside a method, parameter of a function / static method)
    stats, by_prop, sample = qrt_common.run(tier, seed)
    pviol = by_prop.get(PID, [])
    for v in pviol[:5]:
        out.violation(v["what"], v, "beh%d" % v["behaviour"])
    nviol += len(pviol)
    edges = sum(rep["per_action"].get(g, 0) for g in GATES)
    cov = {"states": meta["distinct"], "transitions": meta["generated"],
           "traces_validated_against_impl": edges,
           "samples": rep["samples"][:4] or [{"note": "no sample recorded"}],
           "per_gate_edges_replayed": {g: rep["per_action"].get(g, 0) for g in GATES},
           "program_behaviours_run": stats["behaviours"], "program_operations_compared": stats["ops_total"],
           "nodes_replayed": rep["nodes"], "unreached_nodes": rep["unreached"],
           "tlc": meta, "exhaustive": True,
           "rule": "every state of MCQSim reachable with <= %d qubits; every enabled gate action "
                   "(h,x,y,z, rx/ry/rz at k*pi/2 and k*pi/2-4pi for k=0..7, cx on every ordered pair) is "
                   "executed on a copy of the implementation object of its source state and compared "
                   "amplitude-by-amplitude with the exact ring state, up to one global phase, tol 1e-9; every rotation edge is "
                   "also applied in parts (R(a)R(b) = R(a+b): one part of 1e-7 rad first / last, R(theta+3e-8)R(-3e-8), a sample "
                   "as 1000 equal parts, a few as 2 000 000 equal parts) and must reach the same exact state" % meta["maxn"]}
    vlib.write_evidence(PID, tier, seed, "model_checking", cov,
                        ["angles restricted to multiples of pi/2 (ring D[omega] is exact there)",
                         "register size <= 3 in this tier", "double arithmetic compared at 1e-9"],
                        time.time() - t0, nviol)
    return out.finish()
