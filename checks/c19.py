"""C19 - imports resolve deterministically, load once, detect cycles, check packages."""
import collections
import json
import os
import re
import shutil
import time

import gen_loader
import runner
import vlib

PID = "C19"
FAMILY = [("cycle", "import cycle"), ("package", "resolved to package"), ("notfound", "not found"),
          ("nomain", "No 'main'"), ("manymain", "Multiple 'main'")]


def run(tier, seed):
    t0 = time.time()
    out = vlib.Outcome(PID)
    cfgs = gen_loader.configs(seed, 1500 if tier == "quick" else 20000)
    for i, c in enumerate(cfgs):
        c["id"] = i
    tmp = vlib.scratch("loader")
    try:
        cf_ = os.path.join(tmp, "cases.ndjson")
        of = os.path.join(tmp, "out.ndjson")
        with open(cf_, "w") as f:
            for c in cfgs:
                f.write(json.dumps(c) + "\n")
        open(of, "w").close()
        r = vlib.tlc("MCLoader.tla", os.path.join(vlib.SPEC, "MCLoader.cfg"), env={"LOADER_CASES": cf_, "LOADER_OUT": of}, timeout=3000, heap="8g")
        vlib.tlc_ok(r, "MCLoader")
        exp = {}
        for l in open(of):
            d = json.loads(l)
            exp[d["id"]] = d
    finally:
        shutil.rmtree(tmp, ignore_errors=True)
    jobs = []
    for c in cfgs:
        files, entry, search, cwd = gen_loader.materialise(c)
        jobs.append({"id": c["id"], "files": files, "entry": entry, "search": search, "cwd": cwd, "stage": "front", "no_stdlib": True})
    # the same trees served by a loader object that has already answered other requests: every file of the tree as an entry
    # first, one of them while a file of the tree was still missing. The final request must be judged on the tree alone.
    import random
    rnd = random.Random(seed)
    nfresh = len(jobs)
    reuse_of = {}
    for c in cfgs:
        if c["id"] % 3:
            continue
        files, entry, search, cwd = gen_loader.materialise(c)
        real = [f for f in files if f.endswith(".bloch")]
        late = rnd.choice(real) if len(real) > 1 and c["id"] % 2 == 0 else None
        jid = nfresh + len(reuse_of)
        reuse_of[jid] = c["id"]
        pre = real[:]
        rnd.shuffle(pre)
        jobs.append({"id": jid, "files": {k: v for k, v in files.items() if k != late}, "late_files": {late: files[late]} if late else {},
                     "preload": [p_ for p_ in pre if p_ != late] + [entry] if late != entry else [p_ for p_ in pre if p_ != late],
                     "entry": entry, "search": search, "cwd": cwd, "stage": "front", "no_stdlib": True})
    # the same trees with the entry path spelled relative to the working directory, plainly and with redundant './' components
    style_of = {}
    nstruct = len(gen_loader.structured())
    for c in cfgs:
        if c["id"] % 3 != 1 and c["id"] >= nstruct:
            continue
        files, entry, search, cwd = gen_loader.materialise(c)
        jid = nfresh + len(reuse_of) + len(style_of)
        style_of[jid] = (c["id"], "relative" if c["id"] % 2 else "dotted")
        jobs.append({"id": jid, "files": files, "entry": entry, "search": search, "cwd": cwd, "stage": "front", "no_stdlib": True, "entry_style": style_of[jid][1]})
    res = runner.run_jobs(jobs)
    bad = []
    hist = collections.Counter()
    for jid, (cid, style) in style_of.items():
        a, b = res[cid], res[jid]
        norm = lambda r_: re.sub(r"\S*/job\d+/|\./|\.\./", "", r_.get("what", "")).strip()
        if (a["status"], a.get("funcs")) != (b["status"], b.get("funcs")) or (a["status"] != "ok" and norm(a).split(":")[0:2] != norm(b).split(":")[0:2]):
            c = cfgs[cid]
            bad.append((c, "entry path spelled %s: %s %s %s; spelled as an absolute path: %s %s %s"
                        % (style, b["status"], b.get("funcs", ""), b.get("what", "").strip()[:150], a["status"], a.get("funcs", ""), a.get("what", "").strip()[:150]), b))
    for jid, cid in reuse_of.items():
        a, b = res[cid], res[jid]
        norm = lambda r_: re.sub(r"\S*/job\d+/", "", r_.get("what", "")).strip()
        if (a["status"], a.get("funcs"), norm(a)) != (b["status"], b.get("funcs"), norm(b)):
            c = cfgs[cid]
            bad.append((c, "a loader that had served earlier requests answers %s %s %s; a fresh loader on the same tree answers %s %s %s"
                        % (b["status"], b.get("funcs", ""), b.get("what", "").strip()[:150], a["status"], a.get("funcs", ""), a.get("what", "").strip()[:150]), b))
    for c in cfgs:
        e, rr = exp[c["id"]], res[c["id"]]
        hist["ok" if e["ok"] else e["err"]] += 1
        if e["ok"]:
            want = []
            for idx in e["order"]:
                want.append("f%d" % idx)
                if c["files"][idx - 1]["main"]:
                    want.append("main")
            if rr["status"] != "ok":
                bad.append((c, "specification: loads %s; implementation: %s %s" % (want, rr["status"], rr.get("what", "").strip()[:200]), rr))
            elif rr.get("funcs") != want:
                bad.append((c, "merged declaration order %s, specification %s" % (rr.get("funcs"), want), rr))
        else:
            key = dict(FAMILY)[e["err"]]
            if rr["status"] != "semantic":
                bad.append((c, "specification: Semantic diagnostic (%s); implementation: %s %s" % (e["err"], rr["status"], rr.get("what", rr.get("funcs", ""))), rr))
            elif key not in rr.get("what", ""):
                bad.append((c, "specification: %s; implementation: %s" % (e["err"], rr.get("what", "").strip()[:200]), rr))
    for c, msg, rr in bad[:8]:
        files, entry, search, cwd = gen_loader.materialise(c)
        out.violation(msg, {"what": msg, "files": files, "entry": entry, "search": search, "cwd": cwd, "expected": exp[c["id"]], "got": rr}, "cfg%d" % c["id"])
    cov = {"states": r.distinct, "transitions": r.generated, "traces_validated_against_impl": len(cfgs) + len(reuse_of), "loader_reuse_runs": len(reuse_of), "entry_spelling_runs": len(style_of),
           "expected_outcomes": dict(hist), "samples": [{"files": gen_loader.materialise(cfgs[20])[0], "expected": exp[20]}],
           "rule": "module trees over three roots (entry's project root, one search path, working directory; the working directory may coincide with "
                   "either): 1-3 modules, each with copies in any subset of the roots (shadowing candidates), package line right / wrong / absent, "
                   "packages '', p, p.sub and bloch.u (search path first), named and wildcard import edges between any two files incl. self-imports "
                   "and imports of the entry, 0-2 mains, plus structured diamonds, cycles of length 1-3, wildcard directories with one wrong package, "
                   "one file reached under two import names in both orders, bloch / bloch.u shadowing. Loader.tla gives the merged order or the error "
                   "family for each (TLC also checks LoadedOnce, DepsFirst, ExactlyOneMain, EntryLast); the tree is written to disk and the real "
                   "ModuleLoader::load is called with that search path and working directory; every third tree is also requested from a loader object "
                   "that has first answered requests for every other file of the tree (half of them while one file was still missing): same answer."}
    vlib.write_evidence(PID, tier, seed, "model_checking", cov,
                        ["configurations are sampled (seeded), plus a fixed structured family", "the implicit bloch.lang.Object root is not configured here"],
                        time.time() - t0, len(bad))
    return out.finish()
