"""C02 - measurement follows the Born rule and collapses to the normalised projection."""
import time

import joint_common
import qrt_common
import qsim_common
import vlib

PID = "C02"


def run(tier, seed):
    t0 = time.time()
    out = vlib.Outcome(PID)
    meta, rep = qsim_common.run(tier)
    nviol = rep["viol_by_prop"].get(PID, 0)
    for i, v in enumerate([v for v in rep["violations"] if v["property"] == PID][:5]):
        out.violation(v["what"], {"kind": "qsim-edge", "spec_state": v["state"], "action": v["action"],
                                  "what": v["what"]}, "edge%d" % i)
    # program level: returned bit / stored value / tracked outcome / collapsed state agree (QRuntime behaviours)
    stats, by_prop, sample = qrt_common.run(tier, seed)
    pv = by_prop.get(PID, [])
    for v in pv[:5]:
        out.violation(v["what"], v, "beh%d" % v["behaviour"])
    nviol += len(pv)
    # the simulator's OWN random stream (no injected draws): joint distribution of measured bits over thousands of real shots
    jstats, jviol = joint_common.run(tier)
    mine = [v for v in jviol if PID in v["property"].split(",")]
    for k, v in enumerate(mine[:4]):
        out.violation(v["what"], v, "joint%d" % k)
    nviol += len(mine)
    cov = {"states": meta["distinct"], "transitions": meta["generated"],
           "traces_validated_against_impl": rep["per_action"].get("measure", 0),
           "measure_calls_on_impl": rep["measure_draws"],
           "programs_run": stats["behaviours"], "program_stats": {k: stats[k] for k in ("halted", "stmt_kinds", "paths")},
           "program_sample": sample,
           "samples": [s for s in rep["samples"]][:3] + [{"draw_grid": "(2j+1)/32 for j=0..15, 1e-9, 1-1e-9"}],
           "nodes_replayed": rep["nodes"], "unreached_nodes": rep["unreached"], "tlc": meta, "exhaustive": True, "real_rng_joint_statistics": jstats,
           "rule": "for every reachable spec state (<=3 qubits, stabiliser closure incl. earlier measurements and "
                   "resets) and every unmeasured qubit: the implementation is run from a copy of that state's object "
                   "once per draw on an 18-point grid injected through the draw hook; the returned outcome must have "
                   "non-zero probability, the post-state must be the spec's normalised projection for that outcome "
                   "(up to phase, 1e-9), the measured flag set, and the frequency of outcome 1 over the 16 midpoints "
                   "must equal the exact P1; every possible outcome must be produced. Spec side: BornOnGrid, CollapseOK, "
                   "Definite invariants hold in every state (TLC)."}
    vlib.write_evidence(PID, tier, seed, "model_checking", cov,
                        ["the exhaustive part takes the draw as an input; the simulator's own random stream is sampled by the joint-statistics part (40 000 real shots per circuit, total variation <= 0.05 against the exact distribution)",
                         "draws within 1e-9 of 0 or 1 are not injected (inside floating-point noise of p1)",
                         "program-level agreement of returned bit / stored value / tracked outcome is checked by the "
                         "runtime trace checks (C03/C17)"],
                        time.time() - t0, nviol)
    return out.finish()
