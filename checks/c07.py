"""C07 - classical evaluation agrees with the documented language semantics (BlochSem.tla run by TLC as the
reference interpreter)."""
import collections
import json
import time

import bsyntax
import gen_core
import gen_scope
import semrun
import vlib

PID = "C07"


def run(tier, seed):
    t0 = time.time()
    out = vlib.Outcome(PID)
    table, ncells = gen_core.operator_table()
    nrand = 1500 if tier == "quick" else 20000
    rnd = gen_core.random_programs(seed, nrand)
    shapes = gen_scope.programs()      # returns from inside every nesting of for / while / block / if
    rnd = shapes + rnd
    progs = [(i, p) for i, p in enumerate(table + rnd)]
    oracle, res, bad = semrun.run_and_compare(progs, also_minimal=True)
    for pid, msg in sorted(bad.items())[:8]:
        src = bsyntax.render(progs[pid][1], minimal=pid in semrun.MINIMAL_BAD)
        out.violation(msg, {"what": msg, "program": src, "reference": oracle[pid], "interpreter": res[pid],
                            "kind": "operator-table" if pid < len(table) else "generated"}, "prog%d" % pid)
    st = collections.Counter(o["status"] for o in oracle.values())
    nontrivial = len({bsyntax.dumps(p) for i, p in progs if oracle[i]["status"] != "undef" and (oracle[i]["out"] or oracle[i]["status"] != "ok")})
    sample_id = len(table) + 3
    cov = {"evaluations": len(progs), "distinct_nontrivial": nontrivial,
           "operator_table_cells": ncells, "operator_table_programs": len(table), "generated_programs": nrand,
           "reference_status_histogram": dict(st), "echo_lines_compared": sum(len(o["out"]) for o in oracle.values() if o["status"] == "ok"),
           "samples": [{"program": bsyntax.render(progs[sample_id][1])[:1500], "reference": oracle[sample_id]}],
           "rule": "(1) exhaustive operator table: every (operator, left value, right value) over representative values of each type "
                   "the documentation admits for the operator (arithmetic with int/long/float promotion, '/', '%', comparisons, equality "
                   "on bool/string/char/bit, logical on boolean/bit, bitwise on bit, string concatenation, unary, casts), as literals and "
                   "through typed variables; (2) seeded random well-typed programs (nested if/while/for/ternary statement/blocks, early "
                   "returns from loops, arrays with value semantics and bounds errors, postfix, int->long widening, forward calls, bounded "
                   "recursion, deliberate division/modulo by zero). Reference = Run(prog) of spec/BlochSem.tla evaluated by TLC; a program is "
                   "non-trivial if the reference prints something or raises a runtime error; 'undef' references (overflow guard, fuel) are dropped."}
    vlib.write_evidence(PID, tier, seed, "exploration", cov,
                        ["floats are exact rationals in the reference and are compared with the printed value at 1e-5 relative",
                         "each program also runs rendered with only the parentheses the precedence table requires inside operator trees; the parse itself is C14's",
                         "string concatenation operands: int, long, bit, boolean, string; && and || operands have no side effects"],
                        time.time() - t0, len(bad))
    return out.finish()
