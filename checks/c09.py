"""C09 - scoping is lexical: a callee never sees or changes its caller's locals."""
import random
import time

import bsyntax
import gen_core
import gen_obj
import gen_scope
import rename
import semrun
import vlib

PID = "C09"


def run(tier, seed):
    t0 = time.time()
    out = vlib.Outcome(PID)
    nbase = 120 if tier == "quick" else 1500
    rnd = random.Random(seed)
    base = gen_scope.programs() + gen_obj.programs(seed, nbase // 2) + gen_core.random_programs(seed + 1, nbase // 2, allow_errors=False)
    progs = []
    meta = {}
    for bi, p in enumerate(base):
        progs.append((len(progs), p))
        meta[len(progs) - 1] = (bi, "original")
        for desc, v in rename.variants(p, rnd, 14):
            meta[len(progs)] = (bi, desc)
            progs.append((len(progs), v))
    oracle = semrun.tlc_oracle(progs)
    # spec-level sanity theorem: renaming (when it does not capture) never changes the reference result
    base_id = {}
    for pid, (bi, desc) in meta.items():
        if desc == "original":
            base_id[bi] = pid
    keep = []
    captured = 0
    for pid, p in progs:
        bi, desc = meta[pid]
        if desc != "original" and oracle[pid] != dict(oracle[base_id[bi]], id=pid):
            captured += 1      # the new name collided with a name the body already used through a field: not an alpha-renaming
            continue
        keep.append((pid, p))
    import runner
    jobs = [{"id": pid, "src": bsyntax.render(p), "gc": "none"} for pid, p in keep]
    res = runner.run_jobs(jobs)
    bad = {}
    rejected = 0
    for pid, p in keep:
        bi, desc = meta[pid]
        if desc != "original" and res[pid]["status"] in ("semantic", "parse"):
            rejected += 1      # e.g. a local may not take the name of a function: not a legal renaming
            continue
        m = semrun.compare(oracle[pid], res[pid])
        if m:
            bad[pid] = m
    for pid, msg in sorted(bad.items())[:8]:
        bi, desc = meta[pid]
        out.violation("%s [%s]" % (msg, desc), {"what": msg, "renaming": desc, "program": bsyntax.render(dict(progs)[pid]),
                                              "original": bsyntax.render(base[bi]), "reference": oracle[pid], "interpreter": res[pid]}, "prog%d" % pid)
    nvar = len(keep) - len(base)
    cov = {"evaluations": len(keep), "distinct_nontrivial": len({bsyntax.dumps(p) for pid, p in keep if oracle[pid]["out"]}),
           "base_programs": len(base), "renamed_variants_run": nvar - rejected, "variants_dropped_capture": captured,
           "variants_rejected_by_front_end": rejected,
           "samples": [{"renaming": meta[keep[1][0]][1], "program": bsyntax.render(keep[1][1])[:1500]}],
           "rule": "base programs (class-using programs whose field names collide with locals/parameters on purpose, and classical programs "
                   "with several functions sharing a small name pool); for each, up to 14 renamings of one local or parameter of one "
                   "function / method / constructor onto a fresh name, onto locals/parameters of other functions and onto field names. "
                   "BlochSem is lexically scoped by construction, so the reference result of a non-capturing renaming equals the original's "
                   "(checked by TLC on every variant: the sanity theorem); the interpreter must print that same result for every variant."}
    vlib.write_evidence(PID, tier, seed, "exploration", cov,
                        ["renamings the front end rejects (name of a function, redeclaration) are not legal renamings and are skipped"],
                        time.time() - t0, len(bad))
    return out.finish()
