"""C02 / C04 over the simulator's own random number stream (no injected draws): the joint distribution of the measured bits of
small circuits, sampled over thousands of real shots, against the exact distribution MCJoint.tla enumerates."""
import collections
import json
import os
import shutil

import runner
import vlib


def bell(a, b):
    return [("h", a, 0), ("cx", a, b)]


def cases():
    A = [("alloc", 0, 0)]
    out = {}
    out["two pairs: reset a, measure c, then the partners"] = A * 4 + bell(0, 1) + bell(2, 3) + [("reset", 0, 0), ("measure", 2, 0), ("measure", 1, 0), ("measure", 3, 0)]
    out["two pairs: measure a, reset c, then the partners"] = A * 4 + bell(0, 1) + bell(2, 3) + [("measure", 0, 0), ("reset", 2, 0), ("measure", 1, 0), ("measure", 3, 0)]
    out["two pairs: reset a, reset c, then the partners"] = A * 4 + bell(0, 1) + bell(2, 3) + [("reset", 0, 0), ("reset", 2, 0), ("measure", 1, 0), ("measure", 3, 0)]
    out["two pairs: both partners measured after two resets of one pair"] = A * 4 + bell(0, 1) + bell(2, 3) + [("reset", 0, 0), ("reset", 1, 0), ("measure", 2, 0), ("measure", 3, 0), ("h", 0, 0), ("measure", 0, 0)]
    out["ghz: reset one, measure the others, re-prepare"] = A * 3 + [("h", 0, 0), ("cx", 0, 1), ("cx", 1, 2), ("reset", 0, 0), ("measure", 1, 0), ("measure", 2, 0), ("h", 0, 0), ("measure", 0, 0)]
    out["three independent coins"] = A * 3 + [("h", 0, 0), ("h", 1, 0), ("h", 2, 0), ("measure", 0, 0), ("measure", 1, 0), ("measure", 2, 0)]
    out["one qubit flipped four times"] = A + [("h", 0, 0), ("measure", 0, 0), ("reset", 0, 0), ("h", 0, 0), ("measure", 0, 0), ("reset", 0, 0), ("h", 0, 0), ("measure", 0, 0),
                                               ("reset", 0, 0), ("h", 0, 0), ("measure", 0, 0)]
    out["pair, measure both, certain agreement"] = A * 2 + bell(0, 1) + [("measure", 1, 0), ("measure", 0, 0)]
    out["entangle, reset, entangle again"] = A * 3 + bell(0, 1) + [("reset", 1, 0), ("cx", 0, 1), ("h", 2, 0), ("measure", 2, 0), ("measure", 0, 0), ("measure", 1, 0)]
    out["coin then dependent pair of later coins"] = A * 4 + [("h", 0, 0), ("measure", 0, 0), ("h", 1, 0), ("reset", 3, 0), ("measure", 1, 0), ("h", 2, 0), ("reset", 0, 0), ("measure", 2, 0)]
    # the same circuits padded so that a run makes as many resets as measurements (streams of draws that are consumed at
    # the same rate stay aligned from shot to shot: a dependence between the k-th reset and the k-th measurement would persist)
    for nm, ops in list(out.items()):
        nm_, nr = sum(1 for g, _, _ in ops if g == "measure"), sum(1 for g, _, _ in ops if g == "reset")
        n = sum(1 for g, _, _ in ops if g == "alloc")
        pad = []
        if nm_ > nr:
            pad = [("reset", i % n, 0) for i in range(nm_ - nr)]
        else:
            for j in range(nr - nm_):          # measurements of fresh |0> qubits: certain outcome, one draw each
                pad += [("alloc", 0, 0), ("measure", n + j, 0)]
        if pad:
            out[nm + " [padded to equal numbers of resets and measurements]"] = ops + pad
    return out


def render(ops):
    lines = ["function main() -> void {"]
    n = 0
    bits = []
    for g, a, b in ops:
        if g == "alloc":
            lines.append("  qubit q%d;" % n)
            n += 1
        elif g == "cx":
            lines.append("  cx(q%d, q%d);" % (a, b))
        elif g == "measure":
            bits.append("m%d" % len(bits))
            lines.append("  bit %s = measure q%d;" % (bits[-1], a))
        elif g == "reset":
            lines.append("  reset q%d;" % a)
        else:
            lines.append("  %s(q%d);" % (g, a))
    lines.append("  echo(\"\" + " + " + ".join(bits) + ");")
    lines.append("}")
    return "\n".join(lines) + "\n"


def exact_distributions(cs):
    tmp = vlib.scratch("joint")
    try:
        cf_ = os.path.join(tmp, "cases.ndjson")
        of = os.path.join(tmp, "out.ndjson")
        names = sorted(cs)
        with open(cf_, "w") as f:
            for i, nm in enumerate(names):
                f.write(json.dumps({"id": i, "ops": [{"g": g, "a": a, "b": b} for g, a, b in cs[nm]]}) + "\n")
        open(of, "w").close()
        r = vlib.tlc("MCJoint.tla", os.path.join(vlib.SPEC, "MCJoint.cfg"), env={"JOINT_CASES": cf_, "JOINT_OUT": of}, timeout=1800, heap="4g")
        vlib.tlc_ok(r, "MCJoint")
        dist = {nm: collections.Counter() for nm in names}
        for l in open(of):
            d = json.loads(l)
            if not d["ok"]:
                raise vlib.Infra("MCJoint: case '%s' leaves the {0, 1/2, 1} probability fragment or operates on a measured qubit" % names[d["id"]])
            dist[names[d["id"]]]["".join(str(b) for b in d["outs"])] += 1
        out = {}
        for nm in names:
            tot = sum(dist[nm].values())
            out[nm] = {k: v / tot for k, v in dist[nm].items()}
        return out, r.distinct
    finally:
        shutil.rmtree(tmp, ignore_errors=True)


def embed(ops, width, where):
    """the same circuit inside a register of `width` qubits whose other qubits stay |0> and are never touched: logical qubit j of the
    circuit lives at index where[j]. Untouched |0> qubits are a tensor factor (QSim.AllocPreserves, the locality of every gate,
    measurement and reset - all checked by TLC on the small models), so the joint distribution of the measured bits is unchanged."""
    out = [("alloc", 0, 0)] * width
    for g, a, b in ops:
        if g == "alloc":
            continue
        out.append((g, where[a], where[b] if g == "cx" else 0))
    return out


def run(tier):
    """returns (stats, violations[{property, what, ...}])"""
    cs = cases()
    exact, states = exact_distributions(cs)
    shots = 40000 if tier == "quick" else 200000
    # wide layouts of three circuits: their qubits sit at the top and at the bottom of a 13- / 14-qubit register
    wide = {}
    for nm, width, where in (("two pairs: reset a, measure c, then the partners", 13, {0: 12, 1: 0, 2: 5, 3: 11}),
                             ("ghz: reset one, measure the others, re-prepare", 14, {0: 13, 1: 12, 2: 1}),
                             ("entangle, reset, entangle again", 13, {0: 0, 1: 12, 2: 10})):
        wn = nm + " [embedded in %d qubits at %s]" % (width, sorted(where.values()))
        wide[wn] = embed(cs[nm], width, where)
        exact[wn] = exact[nm]
    cs = dict(cs)
    cs.update(wide)
    names = sorted(cs)
    jobs = [{"id": i, "src": render(cs[nm]), "shots": shots if nm not in wide else shots // 10, "gc": "none", "timeout_ms": 600000} for i, nm in enumerate(names)]
    res = runner.run_jobs(jobs, procs=len(jobs), per_job_timeout=900)
    viol = []
    tvs = {}
    for i, nm in enumerate(names):
        r = res[i]
        has_reset = any(g == "reset" for g, _, _ in cs[nm])
        # a circuit with resets shows the joint law of reset branches AND measurement outcomes: a deviation concerns both properties
        prop = "C04,C02" if has_reset else "C02"
        shots = jobs[i]["shots"]
        if r["status"] != "ok" or len(r.get("shots", [])) != shots:
            viol.append({"property": prop, "what": "circuit '%s': %d-shot run ended with %s %s" % (nm, shots, r["status"], r.get("what", "")), "program": jobs[i]["src"]})
            continue
        emp = collections.Counter(sh["echo"][0] if sh["status"] == "ok" and sh["echo"] else "<" + sh["status"] + ">" for sh in r["shots"])
        keys = set(emp) | set(exact[nm])
        tv = 0.5 * sum(abs(emp.get(k, 0) / shots - exact[nm].get(k, 0.0)) for k in keys)
        tvs[nm] = round(tv, 4)
        impossible = [k for k in emp if exact[nm].get(k, 0.0) == 0.0]
        if impossible:
            viol.append({"property": prop, "what": "circuit '%s': outcome %s has probability 0 in the specification but occurred %d times in %d real shots"
                                                   % (nm, impossible[0], emp[impossible[0]], shots), "program": jobs[i]["src"], "empirical": dict(emp), "exact": exact[nm]})
        elif tv > 0.05:
            viol.append({"property": prop, "what": "circuit '%s': joint distribution of the measured bits over %d real shots is %.3f away (total variation) from the "
                                                   "exact distribution; e.g. %s" % (nm, shots, tv, sorted(((k, emp.get(k, 0) / shots, exact[nm].get(k, 0.0)) for k in keys),
                                                                                                          key=lambda x: -abs(x[1] - x[2]))[:3]),
                         "program": jobs[i]["src"], "empirical": dict(emp), "exact": exact[nm]})
    stats = {"circuits": len(names), "real_shots_per_circuit": shots, "tlc_states": states, "total_variation_observed": tvs}
    return stats, viol
