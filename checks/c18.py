"""C18 - shots are isolated: an N-shot run equals N independent fresh runs."""
import collections
import re
import time

import bsyntax
import gen_core
import gen_obj
import qrender
import qrt_common
import runner
import semrun
import vlib

PID = "C18"
N = 3


def run(tier, seed):
    t0 = time.time()
    out = vlib.Outcome(PID)
    nobj, ncore, nq = (150, 150, 200) if tier == "quick" else (2000, 2000, 3000)
    bad = []
    # ---- 1. classical / object programs: one parsed + analysed Program executed N times (fresh evaluator per shot, as the
    #         CLI does), then analysed AGAIN and executed once more; every execution must print the reference output
    base = gen_obj.programs(seed, nobj) + gen_core.random_programs(seed + 1, ncore)
    progs = [(i, p) for i, p in enumerate(base)]
    oracle = semrun.tlc_oracle(progs)
    srcs = {i: bsyntax.render(p, ctor_return_this=i % 2 == 0) for i, p in progs}
    res = runner.run_jobs([{"id": i, "src": srcs[i], "gc": "none", "shots": N, "reanalyse": True} for i, _ in progs])
    shots_checked = 0
    for i, _ in progs:
        r = res[i]
        exp = oracle[i]
        if exp["status"] == "undef":
            continue
        if r["status"] not in ("ok", "runtime") or not r.get("shots"):
            bad.append((i, "multi-shot execution ended abnormally: %s %s" % (r["status"], r.get("what", r.get("stderr", ""))[-200:]), srcs[i], r))
            continue
        want = N + 1 if exp["status"] == "ok" else 1
        if len(r["shots"]) != want:
            bad.append((i, "%d executions recorded, expected %d" % (len(r["shots"]), want), srcs[i], r))
            continue
        for k, sh in enumerate(r["shots"]):
            one = {"status": sh["status"], "shots": [sh], "what": sh.get("what", "")}
            m = semrun.compare(exp, one)
            shots_checked += 1
            if m:
                bad.append((i, "execution %d of %d (%s): %s" % (k + 1, want, "after re-analysis" if k == N else "same analysed program", m), srcs[i], r))
                break
    # ---- 2. quantum programs: QRuntime behaviours, same draws in every shot; every shot must show the spec's observations
    behs, _ = qrt_common.generate(seed, nq)
    jobs, infos = [], {}
    for i, b in enumerate(behs):
        src, info = qrender.render(b)
        infos[i] = info
        jobs.append({"id": i, "src": src, "draws": qrender.draws_of(b) * N, "gc": "none", "shots": N, "want": ["events", "final", "qasm"]})
    qres = runner.run_jobs(jobs)
    for i, b in enumerate(behs):
        r = qres[i]
        if r["status"] == "crash" or not r.get("shots"):
            bad.append(("q%d" % i, "multi-shot execution ended abnormally: %s" % r["status"], jobs[i]["src"], r))
            continue
        want = 1 if b["halted"] else N
        if len(r["shots"]) != want:
            bad.append(("q%d" % i, "%d executions recorded, expected %d" % (len(r["shots"]), want), jobs[i]["src"], r))
            continue
        for k, sh in enumerate(r["shots"]):
            one = dict(r, shots=[sh], status=sh["status"])
            d = qrender.compare(b, infos[i], one)
            shots_checked += 1
            if d:
                bad.append(("q%d" % i, "shot %d of %d differs from a fresh run: %s" % (k + 1, N, d[0][1][:400]), jobs[i]["src"], sh))
                break
    # ---- 3. through the real CLI: --shots=N --echo=all prints each shot's echo lines; tracked counts are N times one shot's
    ncli = 25 if tier == "quick" else 200
    cli_checked = 0
    for i, p in progs[:ncli]:
        if oracle[i]["status"] != "ok":
            continue
        r = runner.run_cli(["--shots=%d" % N, "--echo=all", "main.bloch"], {"main.bloch": srcs[i]}, env={"BLOCH_VERIF_GC": "none"})
        cli_checked += 1
        lines = r["stdout"].split("\n")
        k = next((j for j, l in enumerate(lines) if l.startswith("Shots:")), None)
        if r["rc"] != 0 or k is None:
            bad.append((i, "CLI --shots=%d ended with status %d: %s" % (N, r["rc"], r["stderr"][-200:]), srcs[i], r))
            continue
        got = lines[:k]
        exp_lines = []
        err = semrun.match_output(oracle[i]["out"] * N if "<<scope" not in oracle[i]["out"] else oracle[i]["out"] * N, got)
        if err:
            bad.append((i, "CLI --shots=%d --echo=all: output is not %d repetitions of a fresh run: %s" % (N, N, err[:300]), srcs[i], r))
    for i, b in list(enumerate(behs))[:ncli]:
        if b["halted"]:
            continue
        draws = " ".join(repr(d) for d in qrender.draws_of(b)) or "0.5"
        r = runner.run_cli(["--shots=%d" % N, "--echo=all", "main.bloch"], {"main.bloch": jobs[i]["src"], "draws.txt": draws},
                           env={"BLOCH_VERIF_DRAWS": "draws.txt", "BLOCH_VERIF_GC": "none"})
        cli_checked += 1
        lines = r["stdout"].split("\n")
        k = next((j for j, l in enumerate(lines) if l.startswith("Shots:")), None)
        if r["rc"] != 0 or k is None:
            bad.append(("q%d" % i, "CLI --shots=%d ended with status %d: %s" % (N, r["rc"], r["stderr"][-300:]), jobs[i]["src"], r))
            continue
        exp_echo = [str(x) for x in b["echo"]] * N
        if lines[:k] != exp_echo:
            bad.append(("q%d" % i, "CLI multi-shot echo lines %s, expected %d repetitions of %s" % (lines[:k], N, b["echo"]), jobs[i]["src"], r))
            continue
        # tracked table: counts = N x per-shot counts
        exp = collections.Counter()
        for key, outcome in b["trk"]:
            exp[(key, outcome)] += N
        got = collections.Counter()
        cur = None
        for l in lines[k:]:
            m = re.match(r"^(\S.*?)\s*\|\s*(\d+)\s*\|\s*([\d.]+)\s*$", l)
            if m and cur and m.group(1).strip() != "outcome":
                got[(cur, m.group(1).strip())] += int(m.group(2))
            elif l.startswith("qubit") or (l and "|" not in l and "-+-" not in l and not l.startswith(("Shots", "Backend", "Elapsed", "OPENQASM"))):
                cur = l.strip()
        if got != exp:
            bad.append(("q%d" % i, "CLI aggregate table %s, expected %s" % (dict(got), dict(exp)), jobs[i]["src"], r))
    for tag, msg, src, r in bad[:8]:
        out.violation(msg, {"what": msg, "program": src, "result": r}, "p%s" % tag)
    cov = {"evaluations": shots_checked + cli_checked, "distinct_nontrivial": len({s for s in srcs.values()}) + len(behs),
           "programs": len(base) + len(behs), "executions_compared": shots_checked, "cli_multi_shot_runs": cli_checked,
           "samples": [{"program": srcs[3][-600:], "shots": N}],
           "rule": "programs that would reveal a leak between shots - static counters and static object fields, generic specialisations created "
                   "lazily, diamond-inferred 'new Box<>()', arrays sized by a final int, objects owning qubits that are released and re-used, "
                   "measured-but-not-reset qubits at exit, tracked counts - are parsed and analysed ONCE and executed N=3 times with a fresh "
                   "evaluator per shot (exactly what the CLI's shot loop does), then analysed again and executed once more; every execution must "
                   "equal the reference of a single fresh run (BlochSem for output, QRuntime for quantum observations with the same draws). "
                   "A sample is also run through the real CLI with --shots=3 --echo=all: echo lines must be 3 repetitions, tracked counts 3x."}
    vlib.write_evidence(PID, tier, seed, "exploration", cov,
                        ["the abstract syntax tree is compared through behaviour (re-analysis + re-execution), not structurally"],
                        time.time() - t0, len(bad))
    return out.finish()
