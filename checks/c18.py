"""C18 - shots are isolated: an N-shot run equals N independent fresh runs."""
import collections
import re
import time

import bsyntax
import gen_core
import gen_obj
import qrender
import qrt_common
import runner
import semrun
import vlib

PID = "C18"
N = 3


DICE = ("static class Dice {\n  public static function roll() -> int {\n    qubit q;\n    h(q);\n    bit b = measure q;\n    if (b == 1b) {\n      return 1;\n    }\n"
        "    return 0;\n  }\n}\n")
# programs whose classical behaviour depends on ONE coin flip per run (exactly one measurement per run): anything pinned by an
# earlier shot - in the syntax tree, in a process-wide cache, in a static - shows as soon as the shots' coins differ
RUN_DEPENDENT = {
    "static from a measurement": DICE + "static class Lab {\n  public static int face = Dice.roll();\n}\nfunction main() -> void {\n  echo(\"coin=\" + Lab.face);\n  echo(\"face=\" + Lab.face);\n}\n",
    "final static derived from a static": DICE + "static class Lab {\n  public static int face = Dice.roll();\n}\nstatic class Board {\n"
        "  public static final int width = Lab.face + 1;\n  public static final string label = \"w\" + width;\n  public static final int twice = width * 2;\n}\n"
        "function main() -> void {\n  echo(\"coin=\" + Lab.face);\n  echo(\"board \" + Board.width + \" \" + Board.label + \" \" + Board.twice + \" face \" + Lab.face);\n}\n",
    "field array sized by a static": DICE + "static class Layout {\n  public static int extra = Dice.roll();\n}\nclass Register {\n  public int[Layout.extra + 1] cells;\n"
        "  public constructor() -> Register = default;\n  public function show() -> void {\n    echo(cells);\n  }\n}\n"
        "function main() -> void {\n  echo(\"coin=\" + Layout.extra);\n  echo(\"extra=\" + Layout.extra);\n  Register r = new Register();\n  r.show();\n}\n",
    "local array sized by a final": DICE + "function main() -> void {\n  int c = Dice.roll();\n  echo(\"coin=\" + c);\n  echo(c);\n  final int n = 2;\n  int[n] a;\n  a[c] = 7;\n  echo(a);\n}\n",
    "specialisation order": DICE + "class Box<T> {\n  public static int made = 0;\n  public T v;\n  public constructor(T x) -> Box<T> {\n    this.v = x;\n    made = made + 1;\n  }\n"
        "  public function count() -> int {\n    return made;\n  }\n}\nfunction main() -> void {\n  int c = Dice.roll();\n  echo(\"coin=\" + c);\n  if (c == 1) {\n    Box<int> a = new Box<int>(1);\n"
        "    Box<int> a2 = new Box<>(2);\n    echo(a2.count());\n  } else {\n    Box<string> b = new Box<string>(\"s\");\n    echo(b.count());\n  }\n"
        "  Box<string> z = new Box<string>(\"t\");\n  echo(z.count());\n  Box<int> y = new Box<int>(3);\n  echo(y.count());\n}\n",
    "static counter and objects": DICE + "class Node {\n  public static int live = 0;\n  public int id;\n  public Node next;\n  public constructor(int i) -> Node {\n    this.id = i;\n"
        "    live = live + 1;\n  }\n  public destructor() -> void {\n    live = live - 1;\n    echo(\"~Node \" + id + \" live \" + live);\n  }\n}\n"
        "function main() -> void {\n  int c = Dice.roll();\n  echo(\"coin=\" + c);\n  Node a = new Node(c);\n  for (int i = 0; i < c + 1; i = i + 1) {\n    Node t = new Node(10 + i);\n"
        "    t.next = a;\n  }\n  echo(\"live \" + Node.live);\n}\n",
    "default constructor binding and overloads": DICE + "class P {\n  public int x;\n  public long y;\n  public constructor(int x, long y) -> P = default;\n"
        "  public function f(int a) -> string {\n    return \"f(int)\";\n  }\n  public function f(long a) -> string {\n    return \"f(long)\";\n  }\n}\n"
        "function main() -> void {\n  int c = Dice.roll();\n  echo(\"coin=\" + c);\n  P p = new P(c, 5L);\n  echo(p.x + p.y);\n  if (c == 1) {\n    echo(p.f(1));\n  } else {\n    echo(p.f(2L));\n  }\n}\n",
    "tracked local": DICE + "function main() -> void {\n  int c = Dice.roll();\n  echo(\"coin=\" + c);\n  @tracked qubit t;\n  if (c == 1) {\n    x(t);\n  }\n  measure t;\n  echo(c);\n}\n",
    "string built from a static chain": DICE + "static class A1 {\n  public static int a = Dice.roll();\n  public static string s = \"a\" + a;\n}\nstatic class B1 {\n"
        "  public static final string t = A1.s + \"/\" + A1.a;\n}\nfunction main() -> void {\n  echo(\"coin=\" + A1.a);\n  echo(B1.t);\n  echo(A1.s);\n}\n",
}


# The same, for programs the analyser of a given tree may or may not accept (array sizes that are not literals or final locals):
# where a tree rejects them the property says nothing; where it accepts them, every execution must still equal a fresh run.
RUN_DEPENDENT_IF_ACCEPTED = {
    "local array sized by a class constant": DICE + "static class Layout {\n  public static final int WIDTH = Dice.roll() + 1;\n}\n"
        "function main() -> void {\n  echo(\"coin=\" + Layout.WIDTH);\n  int[Layout.WIDTH] cells;\n  echo(cells);\n}\n",
    "local array sized by a static": DICE + "static class Layout {\n  public static int extra = Dice.roll();\n}\n"
        "function main() -> void {\n  echo(\"coin=\" + Layout.extra);\n  int[Layout.extra + 1] cells;\n  echo(cells);\n}\n",
    "local array sized by a local": DICE + "function main() -> void {\n  int c = Dice.roll();\n  echo(\"coin=\" + c);\n  int[c + 1] cells;\n  echo(cells);\n}\n",
    "local array sized by a final local computed at run time": DICE + "function main() -> void {\n  final int c = Dice.roll() + 1;\n  echo(\"coin=\" + c);\n  int[c] cells;\n  echo(cells);\n}\n",
    "field array sized by a class constant": DICE + "static class Layout {\n  public static final int WIDTH = Dice.roll() + 1;\n}\nclass Register {\n  public int[Layout.WIDTH] cells;\n"
        "  public constructor() -> Register = default;\n}\nfunction main() -> void {\n  echo(\"coin=\" + Layout.WIDTH);\n  Register r = new Register();\n  echo(r.cells);\n}\n",
    "array sized inside a function called once per run": DICE + "static class Layout {\n  public static final int WIDTH = Dice.roll() + 1;\n}\n"
        "function make() -> int {\n  int[Layout.WIDTH] cells;\n  echo(cells);\n  return 0;\n}\nfunction main() -> void {\n  echo(\"coin=\" + Layout.WIDTH);\n  int z = make();\n}\n",
}


def run_dependent(out, tier):
    """N-shot run with DIFFERENT coins per shot vs. N fresh single runs with the same coins"""
    n = bad = 0
    patterns = [[0.25, 0.75, 0.75, 0.25], [0.75, 0.25, 0.75, 0.75], [0.25, 0.25, 0.75, 0.25]] if tier == "quick" else \
        [[0.25 if (m >> k) & 1 == 0 else 0.75 for k in range(5)] for m in range(1, 31)]
    jobs = []
    meta = {}
    K = 8      # draws offered per run (more than any template consumes: how many a run takes does not matter)
    ALL = dict(RUN_DEPENDENT)
    ALL.update(RUN_DEPENDENT_IF_ACCEPTED)
    skipped = set()
    for name, src in ALL.items():
        for d in (0.25, 0.75):
            jid = len(jobs)
            meta[jid] = (name, None, "fresh", d)
            jobs.append({"id": jid, "src": src, "draws": [d] * K, "gc": "none"})
        for pi, pat in enumerate(patterns):
            jid = len(jobs)
            meta[jid] = (name, pi, "multi", None)
            jobs.append({"id": jid, "src": src, "draws_by_shot": [[d] * K for d in pat], "shots": len(pat), "gc": "none", "reanalyse": True})
    res = runner.run_jobs(jobs)
    fresh = collections.defaultdict(dict)      # template -> observed coin line -> (echo, tracked) of a fresh run with that coin
    for j, (name, _, kind, d) in meta.items():
        if kind != "fresh":
            continue
        f = res[j]
        if name in RUN_DEPENDENT_IF_ACCEPTED and f["status"] in ("semantic", "parse"):
            skipped.add(name)      # not an accepted program on this tree
            continue
        if f["status"] != "ok" or f["shots"][0]["status"] != "ok" or not f["shots"][0]["echo"] or not f["shots"][0]["echo"][0].startswith("coin="):
            raise vlib.Infra("fresh run of '%s' failed: %s" % (name, str(f)[:300]))
        fresh[name][f["shots"][0]["echo"][0]] = (f["shots"][0]["echo"], f["shots"][0].get("tracked"))
    for name in ALL:
        if name in skipped:
            continue
        if name in RUN_DEPENDENT_IF_ACCEPTED and (len(fresh[name]) != 2 or len({tuple(v[0][1:]) for v in fresh[name].values()}) != 2):
            skipped.add(name)      # accepted, but what this tree makes of it does not depend on the coin: nothing to compare
            continue
        if len(fresh[name]) != 2 or len({tuple(v[0][1:]) for v in fresh[name].values()}) != 2:
            raise vlib.Infra("run-dependent program '%s' does not distinguish the two coins: %s" % (name, fresh[name]))
    for j, (name, pi, kind, _) in meta.items():
        if kind != "multi" or name in skipped:
            continue
        r = res[j]
        pat = patterns[pi]
        if r["status"] != "ok" or len(r.get("shots", [])) < len(pat):
            bad += 1
            out.violation("run-dependent program '%s': multi-shot execution ended with %s %s" % (name, r["status"], r.get("what", "")),
                          {"what": "multi-shot run failed", "program": jobs[j]["src"], "draws": pat, "result": r}, "rd%d" % j)
            continue
        coins = set()
        for k in range(len(pat)):
            n += 1
            a = r["shots"][k]
            coin = a["echo"][0] if a["status"] == "ok" and a["echo"] else None
            coins.add(coin)
            want = fresh[name].get(coin)
            if want is None or (a["echo"], a.get("tracked")) != want:
                bad += 1
                msg = ("run-dependent program '%s': shot %d of %d prints %s %s; a fresh run whose coin shows %s prints %s"
                       % (name, k + 1, len(pat), a.get("echo"), a.get("tracked"), coin, want))
                out.violation(msg, {"what": msg, "program": jobs[j]["src"], "draws": pat, "shot": k + 1, "multi": a, "fresh_runs": {c: list(v) for c, v in fresh[name].items()}}, "rd%d" % j)
                break
        else:
            if len(coins) < 2:
                raise vlib.Infra("run-dependent program '%s': all shots of one multi-shot run saw the same coin" % name)
    return n, bad


GC_TEMPLATE = """static class Stats {{ public static int released = 0; public static Link keep = null; }}
class Leaf {{ public qubit q; public constructor() -> Leaf {{ }}
  public destructor() -> void {{ Stats.released = Stats.released + 1; echo("leaf released"); }} }}
class Link {{ public Link peer; public Leaf leaf; public constructor() -> Link {{ this.peer = null; this.leaf = null; }} }}
function makeGarbageCycle() -> void {{ Link a = new Link(); Link b = new Link(); a.leaf = new Leaf(); a.peer = b; b.peer = a; }}
function main() -> void {{
  {keep}
  makeGarbageCycle();
  for (int i = 0; i < {loops}; i = i + 1) {{ Link scratch = new Link(); {inner} }}
  @tracked qubit t;
  if (Stats.released == 1) {{ x(t); }}
  echo("released=" + Stats.released);
  measure t;
}}
"""


def gc_dependent(out, tier):
    """programs whose output depends on WHEN the allocation-driven collector runs (an unreachable cycle keeps alive an object with a
    destructor and a qubit): under the program-driven pressure rule (no timer) every shot of a multi-shot run must print and
    record what a fresh run prints and records"""
    jobs, meta = [], {}
    for keep in ("", "Stats.keep = new Link();"):
        for loops in (5, 16, 17, 20, 31, 33, 40, 70):
            for inner in ("", "if (i == 18) { makeGarbageCycle(); }"):
                src = GC_TEMPLATE.format(keep=keep, loops=loops, inner=inner)
                jid = len(jobs)
                jobs.append({"id": jid, "src": src, "gc": "pressure"})
                jobs.append({"id": jid + 1, "src": src, "gc": "pressure", "shots": 4, "reanalyse": True})
                meta[jid] = (keep, loops, inner)
    res = runner.run_jobs(jobs)
    n = bad = 0
    seen = set()
    for jid, (keep, loops, inner) in meta.items():
        f, m = res[jid], res[jid + 1]
        if f["status"] != "ok" or f["shots"][0]["status"] != "ok":
            raise vlib.Infra("fresh run of a collector-dependent template failed: %s" % str(f)[:300])
        want = (f["shots"][0]["echo"], f["shots"][0].get("tracked"))
        seen.add(want[0][-1])
        for k, sh in enumerate(m.get("shots", [])):
            n += 1
            # tracked counts of a multi-shot result are per shot here (prog_runner reports each execution separately)
            if m["status"] != "ok" or (sh["echo"], sh.get("tracked")) != want:
                bad += 1
                msg = ("collector-dependent program (static-held object: %s, %d allocations): execution %d of %d prints %s %s; a fresh run prints %s %s"
                       % (bool(keep), loops, k + 1, len(m["shots"]), sh.get("echo", [])[-2:], sh.get("tracked"), want[0][-2:], want[1]))
                out.violation(msg, {"what": msg, "program": jobs[jid]["src"], "multi": m, "fresh": f}, "gcdep%d" % jid)
                break
    if len(seen) < 2:
        raise vlib.Infra("collector-dependent templates do not distinguish collection points: %s" % seen)
    return n, bad


FAILING = {
    "fails 120 calls deep": "function dig(int n, int[] a) -> int { if (n == 0) { return a[7]; } return dig(n - 1, a) + 1; }\n"
                            "function main() -> void { int[] a = {1, 2}; echo(\"start\"); echo(dig(120, a)); }\n",
    "fails or succeeds 60 calls deep depending on a coin": "function dig(int n, int[] a, int k) -> int { if (n == 0) { return a[k]; } return dig(n - 1, a, k) + 1; }\n"
                            "function main() -> void { qubit c; h(c); bit b = measure c; int[] a = {1, 2}; int k = 1; if (b == 1b) { k = 7; } echo(b); echo(dig(60, a, k)); }\n",
    "fails inside a constructor chain and a method": "class P { public int v; public constructor(int d, int[] a) -> P { if (d == 0) { this.v = a[9]; } else { P q = new P(d - 1, a); this.v = q.v + 1; } } }\n"
                            "function main() -> void { int[] a = {1}; P p = new P(40, a); echo(p.v); }\n",
    "null dereference in a destructor-owning object graph": "class N { public N next; public int id; public constructor(int i) -> N { this.id = i; } public destructor() -> void { echo(\"~\" + id); } }\n"
                            "function walk(N n, int d) -> int { if (d == 0) { return n.next.next.id; } return walk(n, d - 1) + 1; }\n"
                            "function main() -> void { N a = new N(1); a.next = new N(2); echo(walk(a, 30)); }\n",
}


def failing_executions(out, tier):
    """one analysed program executed repeatedly by a host that carries on after a failed execution: every execution ends the way a
    fresh run with the same draws ends (same status, same diagnostic, same output before it)"""
    jobs, meta = [], {}
    reps = 12 if tier == "quick" else 40
    for name, src in FAILING.items():
        coins = [0.25 if k % 3 else 0.75 for k in range(reps)]
        for d in (0.25, 0.75):
            meta[len(jobs)] = (name, "fresh", d)
            jobs.append({"id": len(jobs), "src": src, "draws": [d] * 4, "gc": "none"})
        meta[len(jobs)] = (name, "multi", coins)
        jobs.append({"id": len(jobs), "src": src, "draws_by_shot": [[d] * 4 for d in coins], "shots": reps, "keep_going": True, "gc": "none", "reanalyse": False})
    res = runner.run_jobs(jobs)
    fresh = {}
    for j, (name, kind, d) in meta.items():
        if kind == "fresh":
            sh = res[j]["shots"][0] if res[j].get("shots") else {"status": res[j]["status"], "echo": [], "what": res[j].get("what", "")}
            fresh[(name, d)] = (sh["status"], sh.get("what", "").strip(), sh.get("echo", []))
    n = bad = 0
    for j, (name, kind, coins) in meta.items():
        if kind != "multi":
            continue
        r = res[j]
        shots = r.get("shots", [])
        if len(shots) != len(coins):
            bad += 1
            out.violation("program that %s: %d of %d executions were carried out (%s %s)" % (name, len(shots), len(coins), r["status"], r.get("what", "")[:200]),
                          {"what": "executions missing", "program": jobs[j]["src"], "result": r}, "fail%d" % j)
            continue
        for k, (sh, d) in enumerate(zip(shots, coins)):
            n += 1
            got = (sh["status"], sh.get("what", "").strip(), sh.get("echo", []))
            if got != fresh[(name, d)]:
                bad += 1
                msg = "program that %s: execution %d of %d ends with %s; a fresh run with the same draws ends with %s" % (name, k + 1, len(coins), got, fresh[(name, d)])
                out.violation(msg, {"what": msg, "program": jobs[j]["src"], "execution": k + 1, "result": sh}, "fail%d" % j)
                break
    return n, bad


ERROR_PROGRAMS = {
    "local qubit measured twice": "function main() -> void { qubit anc; x(anc); measure anc; echo(1); h(anc); }\n",
    "object-owned qubit used after measurement": "class Cell { public qubit q; public constructor() -> Cell = default; }\nfunction main() -> void { Cell c = new Cell(); measure c.q; x(c.q); }\n",
    "register element": "function main() -> void { qubit pad; qubit[2] r; measure r; h(r[1]); }\n",
    "through a parameter": "function poke(qubit p) -> void { h(p); }\nfunction main() -> void { qubit anc; bit b = measure anc; poke(anc); }\n",
    "index out of bounds": "function main() -> void { int[] a = {1, 2}; int k = 5; echo(a[k]); }\n",
    "null member": "class N { public int v; public constructor() -> N = default; }\nfunction main() -> void { N n = null; echo(n.v); }\n",
}


def cli_error_text(out):
    """a shot that ends in a runtime error ends the multi-shot run with the diagnostic a single fresh run prints (same text, same position)"""
    n = bad = 0
    for name, src in ERROR_PROGRAMS.items():
        fresh = runner.run_cli(["main.bloch"], {"main.bloch": src}, env={"BLOCH_VERIF_GC": "none"})
        want = [l for l in (fresh["stderr"] + fresh["stdout"]).split("\n") if "error at" in l]
        if fresh["rc"] != 1 or len(want) != 1:
            raise vlib.Infra("error program '%s' does not end with one runtime diagnostic in a fresh run: rc=%s %s" % (name, fresh["rc"], fresh["stderr"][-200:]))
        for args in (["--shots=2"], ["--shots=5"], ["--shots=3", "--echo=all"], ["--shots=4", "--echo=none"]):
            n += 1
            r = runner.run_cli(args + ["main.bloch"], {"main.bloch": src}, env={"BLOCH_VERIF_GC": "none"})
            got = [l for l in (r["stderr"] + r["stdout"]).split("\n") if "error at" in l]
            if r["rc"] != 1 or got != want:
                bad += 1
                msg = "%s, %s: the run ends with status %s and %s; a fresh single run ends with status 1 and %s" % (name, " ".join(args), r["rc"], got, want)
                out.violation(msg, {"what": msg, "program": src, "args": args, "stderr": r["stderr"][-600:], "fresh_stderr": fresh["stderr"][-600:]}, "errtext%d" % n)
    return n, bad


def parse_table(lines):
    """(variable, outcome) -> count from the CLI's aggregate table"""
    got = collections.Counter()
    cur = None
    for l in lines:
        m = re.match(r"^(\S.*?)\s*\|\s*(\d+)\s*\|\s*([\d.]+)\s*$", l)
        if m and cur and m.group(1).strip() != "outcome":
            got[(cur, m.group(1).strip())] += int(m.group(2))
        elif l.startswith("qubit") or (l and "|" not in l and "-+-" not in l and not l.startswith(("Shots", "Backend", "Elapsed", "OPENQASM", "No tracked"))):
            cur = l.strip()
    return got


COND_TEMPLATES = {
    # name -> (source, draws consumed inside the branch when it is taken)
    "tracked local in a branch": ("function main() -> void {\n  qubit c; h(c); bit b = measure c;\n  if (b == 1b) { @tracked qubit r; x(r); measure r; }\n  echo(b);\n}\n", 1),
    "tracked local in a function reached conditionally": ("function probe() -> void { @tracked qubit r; x(r); measure r; }\n"
        "function main() -> void {\n  qubit c; h(c); bit b = measure c;\n  if (b == 1b) { probe(); }\n  echo(b);\n}\n", 1),
    "tracked field of an object created conditionally": ("class Q { @tracked public qubit q; public constructor() -> Q = default; }\n"
        "function main() -> void {\n  qubit c; h(c); bit b = measure c;\n  if (b == 1b) { Q o = new Q(); x(o.q); measure o.q; }\n  echo(b);\n}\n", 2),
    "tracked local in a loop body entered conditionally": ("function main() -> void {\n  qubit c; h(c); bit b = measure c;\n  int n = 0; if (b == 1b) { n = 2; }\n"
        "  for (int i = 0; i < n; i = i + 1) { @tracked qubit r; x(r); measure r; }\n  echo(b);\n}\n", 2),
}


def cli_conditional(out, tier):
    """the aggregate of a multi-shot CLI run is the sum of the per-shot tables also when only SOME shots produce tracked records
    (declarations inside branches taken depending on a measurement), in every echo mode and whichever shot comes first"""
    pats = [[0, 1, 1, 1], [1, 0, 0, 1], [0, 0, 1, 0], [0, 0, 0, 0]] if tier == "quick" else [[(m >> k) & 1 for k in range(5)] for m in range(32)]
    n = bad = 0
    for name, (src, extra) in COND_TEMPLATES.items():
        for pat in pats:
            per_shot = [[0.25 if c else 0.75] + [0.5] * (extra if c else 0) for c in pat]
            ref = runner.run_jobs([{"id": 0, "src": src, "draws_by_shot": [d + [0.5] * 4 for d in per_shot], "shots": len(pat), "gc": "none"}])[0]
            if ref["status"] != "ok" or len(ref["shots"]) != len(pat):
                raise vlib.Infra("conditional-tracking template '%s' failed in process: %s" % (name, str(ref)[:300]))
            exp = collections.Counter()
            off = False
            for k_, (c, sh) in enumerate(zip(pat, ref["shots"])):
                if sh["echo"] != [str(c)]:
                    # a fresh run given this draw echoes the coin: an execution of the multi-shot run that does not is the violation itself
                    bad += 1
                    off = True
                    msg = "%s: execution %d of %d was given the draw for coin %d and echoes %s" % (name, k_ + 1, len(pat), c, sh["echo"])
                    if bad <= 4:
                        out.violation(msg, {"what": msg, "program": src, "branch_taken_per_shot": pat, "result": ref}, "condref%d" % n)
                    break
                for key, outs in (sh.get("tracked") or {}).items():
                    for o, k in outs.items():
                        exp[(key, o)] += k
            if off:
                continue
            if any(pat) and not exp:
                raise vlib.Infra("conditional-tracking template '%s' records nothing in process" % name)
            for mode in ([], ["--echo=none"], ["--echo=all"]):
                n += 1
                r = runner.run_cli(["--shots=%d" % len(pat)] + mode + ["main.bloch"],
                                   {"main.bloch": src, "draws.txt": " ".join(repr(d) for sh in per_shot for d in sh)},
                                   env={"BLOCH_VERIF_DRAWS": "draws.txt", "BLOCH_VERIF_GC": "none"})
                lines = r["stdout"].split("\n")
                k0 = next((j for j, l in enumerate(lines) if l.startswith("Shots:")), None)
                got = parse_table(lines[k0:]) if k0 is not None else None
                why = None
                if r["rc"] != 0 or got is None:
                    why = "CLI ended with status %s: %s" % (r["rc"], r["stderr"][-200:])
                elif mode == ["--echo=all"] and [l for l in lines[:k0] if l.strip() in ("0", "1")] != [str(c) for c in pat]:
                    why = "the shots echo %s, the injected coins are %s" % ([l for l in lines[:k0] if l.strip() in ("0", "1")], pat)
                elif got != exp:
                    why = "CLI aggregate table %s, the per-shot tables add up to %s" % (dict(got), dict(exp))
                if why:
                    bad += 1
                    msg = "%s, shots taking the branch %s, %s: %s" % (name, pat, " ".join(mode) or "default echo", why)
                    if bad <= 4:
                        out.violation(msg, {"what": msg, "program": src, "branch_taken_per_shot": pat, "mode": mode, "stdout": r["stdout"][-1500:], "stderr": r["stderr"][-500:]}, "cond%d" % n)
    return n, bad


def run(tier, seed):
    t0 = time.time()
    out = vlib.Outcome(PID)
    nobj, ncore, nq = (150, 150, 200) if tier == "quick" else (2000, 2000, 3000)
    bad = []
    # ---- 1. classical / object programs: one parsed + analysed Program executed N times (fresh evaluator per shot, as the
    #         CLI does), then analysed AGAIN and executed once more; every execution must print the reference output
    base = gen_obj.programs(seed, nobj) + gen_core.random_programs(seed + 1, ncore)
    progs = [(i, p) for i, p in enumerate(base)]
    oracle = semrun.tlc_oracle(progs)
    srcs = {i: bsyntax.render(p, ctor_return_this=i % 2 == 0) for i, p in progs}
    res = runner.run_jobs([{"id": i, "src": srcs[i], "gc": "none", "shots": N, "reanalyse": True} for i, _ in progs])
    shots_checked = 0
    for i, _ in progs:
        r = res[i]
        exp = oracle[i]
        if exp["status"] == "undef":
            continue
        if r["status"] not in ("ok", "runtime") or not r.get("shots"):
            bad.append((i, "multi-shot execution ended abnormally: %s %s" % (r["status"], r.get("what", r.get("stderr", ""))[-200:]), srcs[i], r))
            continue
        want = N + 1 if exp["status"] == "ok" else 1
        if len(r["shots"]) != want:
            bad.append((i, "%d executions recorded, expected %d" % (len(r["shots"]), want), srcs[i], r))
            continue
        for k, sh in enumerate(r["shots"]):
            one = {"status": sh["status"], "shots": [sh], "what": sh.get("what", "")}
            m = semrun.compare(exp, one)
            shots_checked += 1
            if m:
                bad.append((i, "execution %d of %d (%s): %s" % (k + 1, want, "after re-analysis" if k == N else "same analysed program", m), srcs[i], r))
                break
    # ---- 2. quantum programs: QRuntime behaviours, same draws in every shot; every shot must show the spec's observations
    behs, _ = qrt_common.generate(seed, nq)
    jobs, infos = [], {}
    for i, b in enumerate(behs):
        src, info = qrender.render(b)
        infos[i] = info
        # every other behaviour runs its shots with echo output suppressed, as the CLI does for --shots=N without --echo=all
        jobs.append({"id": i, "src": src, "draws": qrender.draws_of(b) * N, "gc": "none", "shots": N, "echo": i % 2 == 0, "want": ["events", "final", "qasm"]})
    qres = runner.run_jobs(jobs)
    for i, b in enumerate(behs):
        r = qres[i]
        if r["status"] == "crash" or not r.get("shots"):
            bad.append(("q%d" % i, "multi-shot execution ended abnormally: %s" % r["status"], jobs[i]["src"], r))
            continue
        want = 1 if b["halted"] else N
        if len(r["shots"]) != want:
            bad.append(("q%d" % i, "%d executions recorded, expected %d" % (len(r["shots"]), want), jobs[i]["src"], r))
            continue
        for k, sh in enumerate(r["shots"]):
            one = dict(r, shots=[sh], status=sh["status"])
            one.pop("stderr", None)      # job-wide: holds the end-of-run reports of all N executions
            d = qrender.compare(b, infos[i], one, echo_on=jobs[i]["echo"])
            shots_checked += 1
            if d:
                bad.append(("q%d" % i, "shot %d of %d differs from a fresh run: %s" % (k + 1, N, d[0][1][:400]), jobs[i]["src"], sh))
                break
    # ---- 3. through the real CLI: --shots=N --echo=all prints each shot's echo lines; tracked counts are N times one shot's
    ncli = 25 if tier == "quick" else 200
    cli_checked = 0
    for i, p in progs[:ncli]:
        if oracle[i]["status"] != "ok":
            continue
        r = runner.run_cli(["--shots=%d" % N, "--echo=all", "main.bloch"], {"main.bloch": srcs[i]}, env={"BLOCH_VERIF_GC": "none"})
        cli_checked += 1
        lines = r["stdout"].split("\n")
        k = next((j for j, l in enumerate(lines) if l.startswith("Shots:")), None)
        if r["rc"] != 0 or k is None:
            bad.append((i, "CLI --shots=%d ended with status %d: %s" % (N, r["rc"], r["stderr"][-200:]), srcs[i], r))
            continue
        got = lines[:k]
        exp_lines = []
        err = semrun.match_output(oracle[i]["out"] * N if "<<scope" not in oracle[i]["out"] else oracle[i]["out"] * N, got)
        if err:
            bad.append((i, "CLI --shots=%d --echo=all: output is not %d repetitions of a fresh run: %s" % (N, N, err[:300]), srcs[i], r))
    for i, b in list(enumerate(behs))[:ncli]:
        if b["halted"]:
            continue
        draws = " ".join(repr(d) for d in qrender.draws_of(b)) or "0.5"
        r = runner.run_cli(["--shots=%d" % N, "--echo=all", "main.bloch"], {"main.bloch": jobs[i]["src"], "draws.txt": draws},
                           env={"BLOCH_VERIF_DRAWS": "draws.txt", "BLOCH_VERIF_GC": "none"})
        cli_checked += 1
        lines = r["stdout"].split("\n")
        k = next((j for j, l in enumerate(lines) if l.startswith("Shots:")), None)
        if r["rc"] != 0 or k is None:
            bad.append(("q%d" % i, "CLI --shots=%d ended with status %d: %s" % (N, r["rc"], r["stderr"][-300:]), jobs[i]["src"], r))
            continue
        exp_echo = [str(x) for x in b["echo"]] * N
        if lines[:k] != exp_echo:
            bad.append(("q%d" % i, "CLI multi-shot echo lines %s, expected %d repetitions of %s" % (lines[:k], N, b["echo"]), jobs[i]["src"], r))
            continue
        # tracked table: counts = N x per-shot counts
        exp = collections.Counter()
        for key, outcome in b["trk"]:
            for spec_name, text in qrender.TYPE_TEXT.items():       # a generic class is named by its instantiation in the table
                if key.startswith(spec_name + "."):
                    key = text + key[len(spec_name):]
            exp[(key, outcome)] += N
        got = parse_table(lines[k:])
        if got != exp:
            bad.append(("q%d" % i, "CLI aggregate table %s, expected %s" % (dict(got), dict(exp)), jobs[i]["src"], r))
    nrd, badrd = run_dependent(out, tier)
    ngd, badgd = gc_dependent(out, tier)
    nrd += ngd
    badrd += badgd
    ncc, badcc = cli_conditional(out, tier)
    cli_checked += ncc
    badrd += badcc
    nfe, badfe = failing_executions(out, tier)
    nrd += nfe
    badrd += badfe
    net, badet = cli_error_text(out)
    cli_checked += net
    badrd += badet
    for tag, msg, src, r in bad[:8]:
        out.violation(msg, {"what": msg, "program": src, "result": r}, "p%s" % tag)
    cov = {"evaluations": shots_checked + cli_checked + nrd, "run_dependent_shots_compared": nrd, "distinct_nontrivial": len({s for s in srcs.values()}) + len(behs),
           "programs": len(base) + len(behs), "executions_compared": shots_checked, "cli_multi_shot_runs": cli_checked,
           "samples": [{"program": srcs[3][-600:], "shots": N}],
           "rule": "programs that would reveal a leak between shots - static counters and static object fields, generic specialisations created "
                   "lazily, diamond-inferred 'new Box<>()', arrays sized by a final int, objects owning qubits that are released and re-used, "
                   "measured-but-not-reset qubits at exit, tracked counts - are parsed and analysed ONCE and executed N=3 times with a fresh "
                   "evaluator per shot (exactly what the CLI's shot loop does), then analysed again and executed once more; every execution must "
                   "equal the reference of a single fresh run (BlochSem for output, QRuntime for quantum observations with the same draws). "
                   "A sample is also run through the real CLI with --shots=3 --echo=all: echo lines must be 3 repetitions, tracked counts 3x. "
                   "Run-dependent programs (one coin flip per run feeding static initialisers, final statics derived from statics, field array sizes, "
                   "specialisation creation order, static counters with destructors, default-constructor binding, tracked fields) are run as one "
                   "multi-shot execution whose shots get DIFFERENT injected coins and shot by shot compared with fresh single runs given the same coin. "
                   "Collector-dependent programs (an unreachable cycle keeping alive an object with a destructor and a qubit, 5..70 further allocations, "
                   "with and without an object held by a static) run under the allocation-driven collection rule: each of 4 executions must equal a fresh run. "
                   "Programs whose tracked declarations sit in branches / functions / loops / objects reached depending on a measurement run through the real CLI "
                   "(default echo, --echo=none, --echo=all) with coins that make some shots skip them: the aggregate table is the sum of the per-shot tables. "
                   "Programs that end in a runtime error deep inside calls / constructors are executed 12 (40) times by a host that carries on: every execution ends like a fresh run."}
    vlib.write_evidence(PID, tier, seed, "exploration", cov,
                        ["the abstract syntax tree is compared through behaviour (re-analysis + re-execution), not structurally"],
                        time.time() - t0, len(bad) + badrd)
    return out.finish()
