"""QRuntime: TLC small-scope exhaustive invariants + TLC-generated behaviours rendered as Bloch programs,
executed on the real interpreter with the behaviour's draws, compared observation by observation.
Serves C03, C05, C06, C17 (single-shot accounting) and the program-level agreement clause of C02."""
import collections
import json
import os
import shutil
import time

import qrender
import runner
import vlib

SPEC_FILES = ["Ring.tla", "QSim.tla", "QRuntime.tla", "MCQRuntime.tla"]


def exhaustive(tier):
    maxlen, maxq = (7, 3) if tier == "quick" else (8, 4)
    key = vlib.sha(vlib.spec_hash(*SPEC_FILES), "ex", maxlen, maxq)
    d = vlib.cache_dir("qrt", key)
    meta = os.path.join(d, "meta.json")
    if os.path.exists(meta):
        m = json.load(open(meta))
        m["cached"] = True
        return m
    os.makedirs(d, exist_ok=True)
    cfg = os.path.join(d, "ex.cfg")
    with open(cfg, "w") as f:
        f.write("SPECIFICATION SmallSpec\nCONSTANTS MaxQ = %d\n MaxLen = %d\nVIEW SmallView\n"
                "INVARIANTS ShapeInv UnitInv FlagsAgree LastAgrees Injective FreeDisjoint FreeAreZero OneNamer FreeUnnamed\n" % (maxq, maxlen))
    r = vlib.tlc("MCQRuntime.tla", cfg, deadlock=False, timeout=3000, heap="12g")
    vlib.tlc_ok(r, "MCQRuntime exhaustive")
    m = {"maxlen": maxlen, "maxq": maxq, "distinct": r.distinct, "generated": r.generated, "depth": r.depth,
         "wall_s": round(r.wall, 1), "cached": False,
         "invariants": "ShapeInv UnitInv FlagsAgree LastAgrees Injective FreeDisjoint FreeAreZero OneNamer FreeUnnamed".split()}
    json.dump(m, open(meta, "w"))
    return m


def generate(seed, num, maxq=5, maxlen=14, spec="GenSpec"):
    """TLC -simulate over GenSpec (or RelSpec, the release-heavy mix): `num` finished behaviours, each checked against AllInv."""
    key = vlib.sha(vlib.spec_hash(*SPEC_FILES), "gen", seed, num, maxq, maxlen, spec)
    d = vlib.cache_dir("qrtgen", key)
    dump = os.path.join(d, "beh.ndjson")
    if os.path.exists(dump):
        return [json.loads(l) for l in open(dump)], True
    shutil.rmtree(d, ignore_errors=True)
    os.makedirs(d)
    cfg = os.path.join(d, "gen.cfg")
    with open(cfg, "w") as f:
        f.write("SPECIFICATION %s\nCONSTANTS MaxQ = %d\n MaxLen = %d\nINVARIANTS AllInv DumpDone\n" % (spec, maxq, maxlen))
    tmp = dump + ".tmp"
    r = vlib.tlc("MCQRuntime.tla", cfg, env={"QRT_DUMP": tmp}, workers=1, deadlock=False, timeout=3000,
                 simulate="num=%d" % num, extra=["-depth", "80", "-seed", str(seed)], java_opts=["-Xss256m"])
    vlib.tlc_ok(r, "MCQRuntime generator")
    os.replace(tmp, dump)
    return [json.loads(l) for l in open(dump)], False


def wide(seed, num):
    """WideSpec over QBasis: QRuntime's actions on a 12-qubit register kept as a bit string (basis-preserving gates), so that
    two-digit simulator indices occur. QRuntimeB / MCQRuntimeB are QRuntime / MCQRuntime with 'EXTENDS QSim' replaced by
    'EXTENDS QBasis'; MCQBasis checks first that QBasis agrees with QSim on basis states."""
    key = vlib.sha(vlib.spec_hash(*(SPEC_FILES + ["QBasis.tla", "MCQBasis.tla"])), "wide", seed, num)
    d = vlib.cache_dir("qrtwide", key)
    dump = os.path.join(d, "beh.ndjson")
    if os.path.exists(dump):
        return [json.loads(l) for l in open(dump)]
    shutil.rmtree(d, ignore_errors=True)
    os.makedirs(d)
    for f in os.listdir(vlib.SPEC):
        if f.endswith(".tla"):
            shutil.copy(os.path.join(vlib.SPEC, f), d)
    rt = open(os.path.join(d, "QRuntime.tla")).read()
    assert rt.count("MODULE QRuntime ") == 1 and rt.count("EXTENDS QSim,") == 1
    open(os.path.join(d, "QRuntimeB.tla"), "w").write(rt.replace("MODULE QRuntime ", "MODULE QRuntimeB ").replace("EXTENDS QSim,", "EXTENDS QBasis,"))
    mc = open(os.path.join(d, "MCQRuntime.tla")).read()
    assert mc.count("MODULE MCQRuntime ") == 1 and mc.count("EXTENDS QRuntime,") == 1
    open(os.path.join(d, "MCQRuntimeB.tla"), "w").write(mc.replace("MODULE MCQRuntime ", "MODULE MCQRuntimeB ").replace("EXTENDS QRuntime,", "EXTENDS QRuntimeB,"))
    cfg = os.path.join(d, "refine.cfg")
    open(cfg, "w").write("SPECIFICATION Spec\n")
    r = vlib.tlc("MCQBasis.tla", cfg, workers=1, timeout=900, cwd=d)
    vlib.tlc_ok(r, "MCQBasis (QBasis agrees with QSim on basis states)")
    cfg = os.path.join(d, "wide.cfg")
    open(cfg, "w").write("SPECIFICATION WideSpec\nCONSTANTS MaxQ = 12\n MaxLen = 34\nINVARIANTS AllInv DumpDone\n")
    tmp = dump + ".tmp"
    r = vlib.tlc("MCQRuntimeB.tla", cfg, env={"QRT_DUMP": tmp}, workers=1, deadlock=False, timeout=3000, cwd=d,
                 simulate="num=%d" % num, extra=["-depth", "80", "-seed", str(seed)], java_opts=["-Xss256m"])
    vlib.tlc_ok(r, "MCQRuntimeB wide generator")
    os.replace(tmp, dump)
    for f in os.listdir(d):
        if f.endswith(".tla"):
            os.remove(os.path.join(d, f))
    return [json.loads(l) for l in open(dump)]


def scripted():
    """PairSpec explored exhaustively by TLC (BFS): every finished behaviour of the scripted release family."""
    key = vlib.sha(vlib.spec_hash(*SPEC_FILES), "pairspec")
    d = vlib.cache_dir("qrtpair", key)
    dump = os.path.join(d, "beh.ndjson")
    if os.path.exists(dump):
        return [json.loads(l) for l in open(dump)]
    shutil.rmtree(d, ignore_errors=True)
    os.makedirs(d)
    cfg = os.path.join(d, "pair.cfg")
    with open(cfg, "w") as f:
        f.write("SPECIFICATION PairSpec\nCONSTANTS MaxQ = 5\n MaxLen = 14\nINVARIANTS AllInv DumpDone\nCHECK_DEADLOCK FALSE\n")
    tmp = dump + ".tmp"
    r = vlib.tlc("MCQRuntime.tla", cfg, env={"QRT_DUMP": tmp}, timeout=3000, java_opts=["-Xss256m"])
    vlib.tlc_ok(r, "MCQRuntime scripted family")
    os.replace(tmp, dump)
    return [json.loads(l) for l in open(dump)]


def run(tier, seed):
    t0 = time.time()
    ex = exhaustive(tier)
    num = 600 if tier == "quick" else 6000
    behs, cached = generate(seed, num)
    rel, _ = generate(seed + 7, num // 3, spec="RelSpec")
    scr = scripted()
    wid = wide(seed + 11, 40 if tier == "quick" else 400)
    behs = behs + rel + scr + wid
    jobs, infos = [], {}
    for i, b in enumerate(behs):
        src, info = qrender.render(b)
        infos[i] = info
        # every third behaviour runs with the QASM log switched off, as the CLI does for all shots but the last
        # ... and every fourth one with echo output switched off, as the CLI does for the shots of a multi-shot run
        jobs.append({"id": i, "src": src, "draws": qrender.draws_of(b), "gc": "none", "log": (i % 3 != 2), "echo": (i % 4 != 1),
                     "want": ["events", "final", "qasm"]})
    res = runner.run_jobs(jobs)
    by_prop = collections.defaultdict(list)
    for i, b in enumerate(behs):
        for props, msg in qrender.compare(b, infos[i], res[i], log_on=jobs[i]["log"], echo_on=jobs[i]["echo"]):
            for prop in props.split(","):
                by_prop[prop].append({"behaviour": i, "what": msg, "program": jobs[i]["src"], "draws": jobs[i]["draws"],
                                      "log": jobs[i]["log"], "echo": jobs[i]["echo"],
                                      "spec": {k: b[k] for k in ("prog", "halted", "echo", "trk", "ops", "n", "free", "last", "warn")}})
    if by_prop.get("INFRA"):
        raise vlib.Infra("generated program rejected by the front end: %s\n%s" % (by_prop["INFRA"][0]["what"], by_prop["INFRA"][0]["program"][-800:]))
    distinct = len({json.dumps(b["prog"], sort_keys=True) + json.dumps(b["draws"]) for b in behs})
    stats = {
        "behaviours": len(behs), "distinct_behaviours": distinct,
        "halted": sum(1 for b in behs if b["halted"]),
        "with_index_reuse": sum(1 for b in behs if any(v for v in [b] if len({i for x in b["vars"] for i in x["idx"]}) < sum(len(x["idx"]) for x in b["vars"]))),
        "with_destroy": sum(1 for b in behs if any(s["s"] == "destroy" for s in b["prog"])),
        "with_blocks": sum(1 for b in behs if any(s["s"] == "close" for s in b["prog"])),
        "with_tracked_records": sum(1 for b in behs if b["trk"]),
        "stmt_kinds": dict(collections.Counter(s["s"] for b in behs for s in b["prog"])),
        "paths": dict(collections.Counter(s.get("path") for b in behs for s in b["prog"] if "path" in s)),
        "ops_total": sum(len(b["ops"]) for b in behs),
        "unmeasured_reports": sum(len(b.get("warn", [])) for b in behs),
        # QRuntime.Warned vs. the interpreter's end-of-run report: beyond the listed properties, so a disagreement is recorded, not raised
        "unmeasured_report_disagreements": len(by_prop.get("NOTE", [])),
        "unmeasured_report_first_disagreement": (by_prop["NOTE"][0]["what"] if by_prop.get("NOTE") else None),
        "generator_cached": cached, "exhaustive": ex, "wall_s": round(time.time() - t0, 1),
    }
    sample = {"program": jobs[min(3, len(jobs) - 1)]["src"].split("function main")[1][:600] if jobs else "",
              "draws": jobs[min(3, len(jobs) - 1)]["draws"] if jobs else []}
    return stats, by_prop, sample
