"""C05 - the emitted OpenQASM 2.0 replays to the same quantum state as the simulation."""
import json
import time

import qasmparse
import qrender
import qrt_common
import qsim_common
import runner
import vlib

PID = "C05"


def cli_pass(behs_jobs, out, limit):
    """The .qasm file written next to the source equals what --emit-qasm prints (real CLI binary, draws injected
    through BLOCH_VERIF_DRAWS), and both equal the in-process listing."""
    n = 0
    bad = 0
    for job, beh in behs_jobs[:limit]:
        if beh["halted"]:
            continue
        draws = " ".join(repr(d) for d in job["draws"]) or "0.5"
        r = runner.run_cli(["--emit-qasm", "main.bloch"], {"main.bloch": job["src"], "draws.txt": draws},
                           env={"BLOCH_VERIF_DRAWS": "draws.txt", "BLOCH_VERIF_GC": "none"})
        n += 1
        stale = None
        if n % 2 == 0 and r["rc"] == 0 and r["files"].get("main.qasm"):
            # run again at the same path over the file an earlier run left behind: a longer listing that starts with the new one,
            # a shorter one that the new one starts with, or unrelated text. The file must be this run's listing afterwards.
            t = r["files"]["main.qasm"]
            stale = [t + "x q[0];\nmeasure q[0] -> c[0];\n", t[:len(t) // 2], "OPENQASM 2.0;\nstale\n", t + "\n"][(n // 2) % 4]
            r = runner.run_cli(["--emit-qasm", "main.bloch"], {"main.bloch": job["src"], "draws.txt": draws, "main.qasm": stale},
                               env={"BLOCH_VERIF_DRAWS": "draws.txt", "BLOCH_VERIF_GC": "none"})
        filetext = r["files"].get("main.qasm")
        # stdout = echo lines followed by the listing
        idx = r["stdout"].find("OPENQASM 2.0;")
        printed = r["stdout"][idx:] if idx >= 0 else None
        exp = qrender.expected_qasm(beh)
        why = None
        if r["rc"] != 0:
            why = "CLI exit status %d: %s" % (r["rc"], r["stderr"][-300:])
        elif filetext is None:
            why = "no .qasm file written next to the source"
        elif printed is None or printed != filetext:
            why = "--emit-qasm output differs from the .qasm file"
        else:
            doc, problems = qasmparse.parse(filetext)
            if problems:
                why = "CLI listing not well-formed: %s" % problems[0]
            elif len(doc["ops"]) != len(beh["ops"]) or any(a["g"] != b["g"] or a["a"] != b["a"] for a, b in zip(doc["ops"], beh["ops"])):
                why = "CLI listing differs from the operations of the run"
        if why:
            bad += 1
            if stale is not None:
                why += " (second run at a path where an earlier run had left a .qasm file)"
            out.violation(why, {"program": job["src"], "draws": job["draws"], "what": why, "file_before_the_run": stale,
                                "stdout": r["stdout"][-1500:], "file": filetext, "expected": exp}, "cli%d" % n)
    return n, bad


def multishot_pass(out, tier):
    """--shots=N with operations that depend on measured bits: the listing printed by --emit-qasm and the .qasm file must be
    one and the same run's (the last shot's) listing. Draws are injected so that the shots take different branches."""
    n = bad = 0
    for k in ((2, 3) if tier == "quick" else (1, 2, 3, 4, 5)):
        body = ["  qubit[%d] c;" % k, "  qubit t;"]
        for i in range(k):
            body += ["  h(c[%d]);" % i, "  bit b%d = measure c[%d];" % (i, i),
                     "  if (b%d == 1b) { x(t); } else { z(t); rz(t, %d.5f); }" % (i, i)]
        body += ["  bit r = measure t;"]
        src = "function main() -> void {\n" + "\n".join(body) + "\n}\n"
        for shots in (2, 3, 7, -3, -4):      # negative: @shots(|n|) on main AND a different --shots flag (the annotation wins)
            flag = None
            if shots < 0:
                shots = -shots
                flag = shots + (2 if shots % 2 else -1)
            per = k + 1
            draws = []
            for sidx in range(shots):
                v = 0.25 if sidx == 0 else (0.75 if sidx == shots - 1 else (0.25 if sidx % 2 else 0.75))
                draws += [v] * per
            ref = runner.run_jobs([{"id": 0, "src": src, "draws": draws, "shots": shots, "want": ["qasm"], "gc": "none"}])[0]
            if ref["status"] != "ok" or len(ref["shots"]) != shots:
                raise vlib.Infra("multi-shot reference run failed: %s" % str(ref)[:300])
            first, last = ref["shots"][0]["qasm"], ref["shots"][-1]["qasm"]
            if first == last:
                raise vlib.Infra("multi-shot template: first and last shot took the same branches")
            cli_src = src if flag is None else "@shots(%d)\n" % shots + src
            r = runner.run_cli(["--shots=%d" % (flag or shots), "--emit-qasm", "main.bloch"], {"main.bloch": cli_src, "draws.txt": " ".join(repr(d) for d in draws + draws)},
                               env={"BLOCH_VERIF_DRAWS": "draws.txt", "BLOCH_VERIF_GC": "none"})
            n += 1
            filetext = r["files"].get("main.qasm")
            idx = r["stdout"].find("OPENQASM 2.0;")
            printed = r["stdout"][idx:] if idx >= 0 else None
            if printed is not None:
                end = printed.find("\n\n")
                # the listing is followed by the tracked-values table in multi-shot mode
                lines = []
                for l in printed.split("\n"):
                    if l.strip() == "" and lines:
                        break
                    lines.append(l)
                printed = "\n".join(lines) + "\n"
            why = None
            if r["rc"] != 0:
                why = "CLI exit status %d: %s" % (r["rc"], r["stderr"][-300:])
            elif filetext is None or printed is None:
                why = "listing missing (file %s, stdout %s)" % (filetext is not None, printed is not None)
            elif printed.strip() != filetext.strip():
                why = "--shots=%d: --emit-qasm output differs from the .qasm file (they come from different shots)" % shots
            elif filetext.strip() != last.strip():
                why = "--shots=%d: the listing is not the last shot's operation sequence" % shots
            if why:
                bad += 1
                out.violation(why, {"what": why, "program": src, "draws": draws, "shots": shots, "stdout": r["stdout"][-1500:], "file": filetext,
                                    "last_shot_listing": last, "first_shot_listing": first}, "multishot%d" % n)
    return n, bad


TEARDOWN_PROGRAMS = [
    # operations performed while objects die: by scope exit, by destroy, at the end of main, in a destructor, and - for owners that
    # are garbage inside a reference cycle - by the cycle collection at the end of the run
    ("scope exit / destroy / end of main",
     "class P { public qubit q; public constructor() -> P = default; }\n"
     "function main() -> void {\n  { P a = new P(); x(a.q); }\n  P b = new P(); x(b.q); destroy b;\n  P c = new P(); h(c.q); x(c.q);\n  qubit w; x(w);\n}\n"),
    ("garbage cycle of owners",
     "class P { public qubit q; public constructor() -> P = default; }\n"
     "class N { public N other; public P p; public constructor() -> N { this.p = new P(); this.other = null; return this; } }\n"
     "function tie() -> void {\n  N a = new N(); N b = new N(); a.other = b; b.other = a; x(a.p.q); x(b.p.q);\n}\n"
     "function main() -> void {\n  tie();\n  qubit w; h(w);\n}\n"),
    ("self cycle and subclass owner",
     "class B { public qubit q; public qubit[2] r; public constructor() -> B = default; }\n"
     "class D extends B { public D me; public constructor() -> D { super(); this.me = null; return this; } }\n"
     "function main() -> void {\n  { D d = new D(); d.me = d; x(d.q); x(d.r[1]); }\n  qubit w; x(w); measure w;\n}\n"),
    ("destructor with operations, inside a cycle and outside",
     "class K { public qubit q; public K peer; public constructor() -> K { this.peer = null; return this; }\n"
     "  public destructor() -> void { reset q; x(q); measure q; } }\n"
     "function main() -> void {\n  { K a = new K(); h(a.q); measure a.q; }\n  { K b = new K(); K c = new K(); b.peer = c; c.peer = b; x(b.q); }\n  qubit w; z(w);\n}\n"),
]


def teardown_pass(out):
    """Hand-written programs whose last operations happen while the run is being wound up. Trace validation of the listing against
    the simulator's own event stream (hook in QasmSimulator): every operation the simulator performed during execute() - including the
    resets of the end-of-run collection - is listed, once, in order; and the CLI's file / --emit-qasm output is that listing."""
    n = bad = 0
    for name, src in TEARDOWN_PROGRAMS:
        for gc in ("none", "all"):
            r = runner.run_jobs([{"id": 0, "src": src, "draws": [0.25] * 40, "gc": gc, "want": ["events", "qasm"]}])[0]
            n += 1
            if r["status"] != "ok" or not r["shots"]:
                raise vlib.Infra("teardown program '%s' did not run: %s" % (name, str(r)[:400]))
            shot = r["shots"][0]
            evops = [e for e in shot.get("events", []) if e["e"] == "op"]
            doc, problems = qasmparse.parse(shot["qasm"])
            why = None
            if problems:
                why = "listing not well-formed: %s" % problems[0]
            elif len(doc["ops"]) != len(evops) or any(a["g"] != b["g"] or a["a"] != b["a"] for a, b in zip(doc["ops"], evops)):
                why = ("listing has %d operations %s, the simulator performed %d %s" %
                       (len(doc["ops"]), [(a["g"], a["a"]) for a in doc["ops"]], len(evops), [(b["g"], b["a"]) for b in evops]))
            if why is None and gc == "none":
                c = runner.run_cli(["--emit-qasm", "main.bloch"], {"main.bloch": src, "draws.txt": " ".join(["0.25"] * 40)},
                                   env={"BLOCH_VERIF_DRAWS": "draws.txt", "BLOCH_VERIF_GC": "none"})
                idx = c["stdout"].find("OPENQASM 2.0;")
                printed = c["stdout"][idx:] if idx >= 0 else None
                if c["rc"] != 0:
                    why = "CLI exit status %d: %s" % (c["rc"], c["stderr"][-300:])
                elif printed is None or printed != c["files"].get("main.qasm"):
                    why = "--emit-qasm output differs from the .qasm file"
                elif printed.strip() != shot["qasm"].strip():
                    why = "CLI listing differs from the library's listing of the same run"
            if why:
                bad += 1
                out.violation("teardown program '%s' (collector schedule %s): %s" % (name, gc, why),
                              {"what": why, "program": src, "gc": gc, "listing": shot["qasm"], "simulator_ops": evops}, "teardown%d" % n)
    return n, bad


def run(tier, seed):
    t0 = time.time()
    out = vlib.Outcome(PID)
    stats, by_prop, sample = qrt_common.run(tier, seed)
    viol = by_prop.get(PID, [])
    for v in viol[:5]:
        out.violation(v["what"], v, "beh%d" % v["behaviour"])
    meta, rep = qsim_common.run(tier)
    nsim = rep["viol_by_prop"].get(PID, 0)
    for i, v in enumerate([v for v in rep["violations"] if v["property"] == PID][:3]):
        out.violation(v["what"], {"kind": "qsim-edge", "spec_state": v["state"], "action": v["action"], "what": v["what"]}, "edge%d" % i)
    # CLI pass over a sample of the same behaviours
    behs, _ = qrt_common.generate(seed, 600 if tier == "quick" else 6000)
    pairs = []
    for i, b in enumerate(behs):
        src, info = qrender.render(b)
        pairs.append(({"src": src, "draws": qrender.draws_of(b)}, b))
    ncli, badcli = cli_pass(pairs, out, 60 if tier == "quick" else 600)
    nms, badms = multishot_pass(out, tier)
    badcli += badms
    ntd, badtd = teardown_pass(out)
    badcli += badtd
    cov = {"states": stats["exhaustive"]["distinct"] + meta["distinct"],
           "transitions": stats["exhaustive"]["generated"] + meta["generated"],
           "traces_validated_against_impl": stats["behaviours"],
           "listings_parsed_and_compared": stats["behaviours"], "operations_compared": stats["ops_total"],
           "cli_runs_file_vs_stdout": ncli, "cli_multishot_runs": nms, "teardown_programs_listing_vs_simulator_events": ntd, "simulator_edges_with_log_line_checked": rep["edges"],
           "samples": [sample, {"expected_listing": qrender.expected_qasm(behs[3]) if len(behs) > 3 else ""}],
           "behaviour_stats": stats,
           "rule": "each TLC-generated QRuntime behaviour (gates via functions, static and instance methods, qubit arrays, object "
                   "fields, resets, destroy, index re-use, rotation angles given as literals and as run-time computed doubles up "
                   "to 2e4 rad) is run on the interpreter; the emitted text is parsed by an independent strictly syntactic reader "
                   "(header, one qreg/creg sized to the allocated qubits, operands in range, cx operands distinct, c[i] paired with "
                   "q[i]) and its operation list must equal, one for one and in order, the operation list of the specification run "
                   "(= the independent interpreter: QSim over the exact ring), whose final state is compared with the simulator's "
                   "final amplitudes; angles within 6e-7. On the simulator graph every operation must append exactly one line with "
                   "the right text after the mutation, and none when refused or when logging is off. A sample is run through the real "
                   "CLI: <file>.qasm must equal the --emit-qasm output."}
    vlib.write_evidence(PID, tier, seed, "model_checking", cov,
                        ["rotation angles are k*pi/2 + 4*pi*m (ring-exact unitaries); arbitrary angles only through the printed-"
                         "text comparison", "multi-shot runs: templates with branch-on-measured-bit, 2/3/7 shots, injected draws"],
                        time.time() - t0, len(viol) + nsim + badcli)
    return out.finish()
