"""C11 - garbage collection is unobservable under every schedule, and race-free.
(b) unobservability: BlochSem has no collector; every schedule of forced collections must give the reference output.
(a) protocol: GcProtocol.tla model-checked; real timer/interpreter event logs (TSan build) validated against it."""
import collections
import json
import os
import random
import shutil
import time

import bsyntax
import gen_gc
import gen_obj
import runner
import semrun
import vlib

PID = "C11"


def schedules(k, rnd, tier):
    """collection schedules for a program with k statement boundaries"""
    out = ["none", "all", "pressure"]
    nsingle = 16 if tier == "quick" else 64
    pts = list(range(1, k + 1))
    single = pts if k <= nsingle else sorted(rnd.sample(pts, nsingle))
    out += ["at:%d" % i for i in single]
    for _ in range(4 if tier == "quick" else 32):
        sub = sorted(rnd.sample(pts, min(len(pts), rnd.randint(2, 6))))
        out.append("at:" + ",".join(str(x) for x in sub))
    return out


def part_b(tier, seed, out):
    rnd = random.Random(seed)
    ngc, nobj = (40, 60) if tier == "quick" else (400, 600)
    base = gen_gc.failing_destructor_programs() + gen_gc.programs(seed, ngc) + gen_obj.programs(seed + 7, nobj)
    progs = [(i, p) for i, p in enumerate(base)]
    oracle = semrun.tlc_oracle(progs)
    srcs = {i: bsyntax.render(p) for i, p in progs}
    r0 = runner.run_jobs([{"id": i, "src": srcs[i], "gc": "none"} for i, _ in progs])
    jobs, meta = [], {}
    for i, _ in progs:
        if r0[i]["status"] not in ("ok", "runtime") or not r0[i]["shots"]:
            continue
        k = max(1, min(r0[i]["shots"][0].get("stmts", 1), 4000))
        for sched in schedules(k, rnd, tier):
            jid = len(jobs)
            meta[jid] = (i, sched)
            jobs.append({"id": jid, "src": srcs[i], "gc": sched, "want": ["events"]})
    res = runner.run_jobs(jobs)
    bad = {}
    collections_run = 0
    cleared = 0
    for jid, (i, sched) in meta.items():
        m = semrun.compare(oracle[i], res[jid])
        if m:
            bad[jid] = m
        if res[jid].get("shots"):
            evs = [e for e in res[jid]["shots"][0].get("events", []) if e["e"] == "collect"]
            collections_run += len(evs)
            cleared += sum(e["cleared"] for e in evs)
    for jid, msg in sorted(bad.items())[:6]:
        i, sched = meta[jid]
        out.violation("schedule %s: %s" % (sched, msg), {"what": msg, "schedule": sched, "program": srcs[i], "reference": oracle[i],
                                                         "interpreter": res[jid]}, "sched%d" % jid)
    return {"programs": len(base), "runs": len(jobs), "collections_executed": collections_run, "objects_cleared_by_collector": cleared,
            "sample": {"schedule": meta[5][1], "program": srcs[meta[5][0]][-700:]}}, len(bad)


DEEP = """class Stats {{ public static int freed = 0; public constructor() -> Stats = default; }}
class Node {{ public Node next; public Node down; public int val;
  public constructor(int v, Node n) -> Node {{ this.val = v; this.next = n; }}
  public destructor() -> void {{ Stats.freed = Stats.freed + 1; }} }}
function build(int n) -> Node {{ Node head = null; for (int i = 1; i <= n; i = i + 1) {{ head = new Node(i, head); {side} }} return head; }}
function main() -> void {{
  Node head = build({n});
  int sum = 0; int count = 0; Node cur = head;
  while (cur != null) {{ sum = sum + cur.val; count = count + 1; cur = cur.next; }}
  echo(count); echo(sum); echo(Stats.freed);
  cur = null; head = null;
  echo(Stats.freed);
}}
"""


def deep_family(tier, out):
    """structures far deeper than any the reference's fuel admits (a list of n nodes hanging from one local), alive while
    collections run: the output is known in closed form (count n, sum n(n+1)/2, no destructor before the list is dropped,
    n after) and must not depend on the schedule."""
    jobs, meta = [], {}
    for n in ((120, 450, 900) if tier == "quick" else (120, 390, 450, 900, 1400)):
        for side in ("", "Node tmp = new Node(0, null); tmp = null;"):
            src = DEEP.format(n=n, side=side)
            extra = n if side else 0
            want = [str(n), str(n * (n + 1) // 2), str(extra), str(n + extra)]
            for sched in ("none", "pressure", "at:%d" % (3 * n), "at:%d,%d" % (2 * n, 4 * n), "at:%d" % (5 * n + 8)):
                jid = len(jobs)
                meta[jid] = (n, side, sched, want, src)
                jobs.append({"id": jid, "src": src, "gc": sched, "want": ["events"], "timeout_ms": 120000})
    res = runner.run_jobs(jobs)
    bad = 0
    ncoll = 0
    for jid, (n, side, sched, want, src) in meta.items():
        r = res[jid]
        got = r["shots"][0]["echo"] if r.get("status") == "ok" and r.get("shots") and r["shots"][0]["status"] == "ok" else None
        if r.get("shots"):
            ncoll += sum(1 for e in r["shots"][0].get("events", []) if e["e"] == "collect")
        if got != want:
            bad += 1
            if bad <= 3:
                what = "list of %d live nodes, schedule %s: expected output %s, interpreter %s" % (
                    n, sched, want, got if got is not None else (r.get("status"), (r.get("shots") or [{}])[0].get("what", r.get("what"))))
                out.violation(what, {"what": what, "schedule": sched, "program": src, "interpreter": r}, "deep%d" % jid)
    return {"runs": len(jobs), "collections_executed": ncoll}, bad


HELD = """class Probe {{ public qubit q; public int id; public constructor(int i) -> Probe {{ this.id = i; }}
  public destructor() -> void {{ echo("probe " + id + " released"); }} }}
class Link {{ public Link peer; public Probe held; public constructor() -> Link {{ this.peer = null; this.held = null; }} }}
class Pad {{ public int v; public constructor(int x) -> Pad {{ this.v = x; }} }}
function ring(int i) -> Link {{ Link a = new Link(); Link b = new Link(); a.held = new Probe(i); a.peer = b; b.peer = a; return a; }}
function main() -> void {{
  Link keep = ring(7);
  int s = 0;
  for (int i = 0; i < {allocs}; i = i + 1) {{ Pad t = new Pad(i); s = s + t.v; }}
  {work}
  echo(s);
  keep = null;
  {tail}
}}
"""


def held_by_garbage(tier, out):
    """an object with a qubit field and an observable destructor whose only owner is a cycle of plain objects that becomes garbage
    by plain assignment near the end of main: the reference has no collector (the cycle is never reclaimed), so what must hold is
    that every schedule - each of them ends with the collection every run performs at its end - prints the same output and
    releases the same objects"""
    n = bad = 0
    jobs, meta = [], {}
    for allocs in (0, 5, 16, 17, 18, 40):
        for work in ("", "for (int j = 0; j < 30; j = j + 1) { s = s + 1; }"):
            for tail in ("", "echo(\"after\");", "Pad last = new Pad(1); echo(last.v);"):
                src = HELD.format(allocs=allocs, work=work, tail=tail)
                k0 = len(jobs)
                for sched in ("none", "pressure", "all", "at:3", "at:%d" % (allocs * 2 + 6), "at:%d,%d" % (allocs + 4, allocs * 2 + 9)):
                    meta[len(jobs)] = (k0, sched, src)
                    jobs.append({"id": len(jobs), "src": src, "gc": sched, "timeout_ms": 60000})
    res = runner.run_jobs(jobs)
    for jid, (k0, sched, src) in meta.items():
        n += 1
        a, b = res[k0], res[jid]
        oa = sorted(a["shots"][0]["echo"]) if a.get("shots") else a["status"]
        ob = sorted(b["shots"][0]["echo"]) if b.get("shots") else b["status"]
        # the destructor's line may come before or after the last lines of main (that is the collector's timing); the SET of lines
        # and the exit status may not differ
        if a["status"] != b["status"] or oa != ob:
            bad += 1
            if bad <= 3:
                what = "an object held only by garbage: schedule %s prints %s, schedule none prints %s" % (sched, b["shots"][0]["echo"] if b.get("shots") else ob, a["shots"][0]["echo"] if a.get("shots") else oa)
                out.violation(what, {"what": what, "schedule": sched, "program": src, "interpreter": b, "without_intermediate_collections": a}, "held%d" % jid)
    return {"runs": n}, bad


def part_a(tier, seed, out):
    # 1. the protocol itself (safety, liveness under fairness, every subset of boundaries reachable)
    metas = []
    for cfg in ("GcProtocol.cfg", "GcProtocolNoClasses.cfg"):
        r = vlib.tlc("GcProtocol.tla", os.path.join(vlib.SPEC, cfg), workers=1, timeout=900)
        vlib.tlc_ok(r, cfg)
        metas.append({"cfg": cfg, "distinct": r.distinct, "generated": r.generated})
    # 2. real runs with the real timer (period 1 ms) under ThreadSanitizer; event logs validated against GcTrace.tla
    n = 24 if tier == "quick" else 200
    progs = gen_gc.programs(seed + 3, n)
    # make the runs long enough for several timer periods
    import copy
    jobs = []
    for i, p in enumerate(progs):
        p = copy.deepcopy(p)
        for f in p["funcs"]:
            if f["name"] == "main":
                f["body"] = [bsyntax.For(bsyntax.Decl(bsyntax.P("int"), "rep", bsyntax.I(0)), bsyntax.Bin("<", bsyntax.Var("rep"), bsyntax.I(12)),
                                         bsyntax.Asg("rep", bsyntax.Bin("+", bsyntax.Var("rep"), bsyntax.I(1))),
                                         [bsyntax.Expr(bsyntax.Call("churn", bsyntax.I(40)))])] + f["body"]
        # every fourth program ends with a runtime error: the timer must still be stopped and joined
        if i % 4 == 3:
            for f in p["funcs"]:
                if f["name"] == "main":
                    f["body"].append(bsyntax.Decl(bsyntax.C("Pt"), "nul", bsyntax.Null()))
                    f["body"].append(bsyntax.Echo(bsyntax.Fld(bsyntax.Var("nul"), "v")))
        jobs.append({"id": i, "src": bsyntax.render(p), "gc": "timer:1", "want": ["events_all"], "timeout_ms": 60000})
    # allocation AFTER the timer has been stopped: objects that only the final collection releases (an exempt owner of a
    # tracked qubit inside an unreachable ring) and whose destructor allocates; normal end and error end
    LATE = ("class Rep { public string t; public constructor(string x) -> Rep { this.t = x; } }\n"
            "class Probe { @tracked public qubit q; public string id; public constructor(string i) -> Probe { this.id = i; }\n"
            "  public destructor() -> void { Rep r = new Rep(\"probe \" + this.id); echo(r.t); Rep r2 = new Rep(\"x\"); } }\n"
            "class Ring { public Ring next; public Probe probe; public constructor() -> Ring { this.next = null; this.probe = null; } }\n"
            "function build(string id) -> void { Ring a = new Ring(); Ring b = new Ring(); a.next = b; b.next = a; a.probe = new Probe(id); }\n"
            "function main() -> void { build(\"p0\"); %s echo(\"built\"); %s }\n")
    for k, (mid, tail) in enumerate((("", ""), ("build(\"p1\"); int s = 0; for (int i = 0; i < 30; i = i + 1) { Rep t = new Rep(\"z\"); s = s + 1; }", ""),
                                     ("", "Ring nul = null; echo(nul.next == null);"), ("Probe direct = new Probe(\"d\");", ""))):
        jobs.append({"id": len(jobs), "src": LATE % (mid, tail), "gc": "timer:1", "want": ["events_all"], "timeout_ms": 60000})
    proc_err = []
    res = runner.run_jobs(jobs, variant="tsan", procs=8, env={"TSAN_OPTIONS": "halt_on_error=0:exitcode=0:report_signal_unsafe=0"},
                          per_job_timeout=90, stderr_out=proc_err)
    races = 0
    # ThreadSanitizer writes its reports to the process's stderr (not attributable to one job of the batch)
    def in_interpreter(report):
        """a report counts only if BOTH conflicting accesses happen in the interpreter's own code (src/bloch/...):
        an access made by this harness (its event sink, its result writer) is not the property's business"""
        keep = []
        for block in report.split("WARNING: ThreadSanitizer")[1:]:
            parts = block.split("\n\n")
            stacks = [p_ for p_ in parts if p_.lstrip().startswith(("Read of", "Write of", "Previous read", "Previous write", "Atomic", "Previous atomic"))]
            if len(stacks) >= 2 and all("/src/bloch/" in st for st in stacks[:2]):
                keep.append("WARNING: ThreadSanitizer" + block)
            elif len(stacks) < 2 and "/src/bloch/" in block:
                keep.append("WARNING: ThreadSanitizer" + block)    # other report kinds (lock order, use after free ...)
        return keep
    reports = [k for e in proc_err if "ThreadSanitizer" in e for k in in_interpreter(e)]
    if reports:
        races += 1
        first = reports[0]
        i0 = 0
        out.violation("ThreadSanitizer reports a data race between the timer thread and the interpreter (%d process reports)" % len(reports),
                      {"report": first[i0:i0 + 5000], "programs": [j["src"] for j in jobs[:2]]}, "race")
    tmp = vlib.scratch("gctrace")
    ticks = collects = 0
    try:
        tf = os.path.join(tmp, "trace.ndjson")
        nlog = 0
        with open(tf, "w") as f:
            for i in range(len(jobs)):
                r = res[i]
                if "ThreadSanitizer" in r.get("stderr", "") or r["status"] == "crash" and "ThreadSanitizer" in r.get("stderr", ""):
                    races += 1
                    out.violation("ThreadSanitizer reports a data race between the timer thread and the interpreter",
                                  {"program": jobs[i]["src"], "report": r.get("stderr", "")[-3000:]}, "race%d" % i)
                    continue
                if r["status"] == "crash":
                    out.violation("run under the real timer crashed: %s" % r.get("stderr", "")[-300:], {"program": jobs[i]["src"], "result": r}, "crash%d" % i)
                    races += 1
                    continue
                if not r.get("shots"):
                    continue
                evs = [e for e in r["shots"][0].get("events", []) if e["e"] in ("timer_start", "tick", "request", "collect", "timer_exit", "join")]
                ticks += sum(1 for e in evs if e["e"] == "tick")
                collects += sum(1 for e in evs if e["e"] == "collect")
                for e in evs:
                    f.write(json.dumps({"e": e["e"], "th": e.get("th", 0)}) + "\n")
                f.write('{"e":"end","th":0}\n{"e":"reset","th":0}\n')
                nlog += 1
        r = vlib.tlc("GcTrace.tla", os.path.join(vlib.SPEC, "GcTrace.cfg"), env={"GC_TRACE": tf}, workers=1, timeout=1800,
                     java_opts=["-Dtlc2.tool.queue.IStateQueue=StateDeque"])
        accepted = r.violated == "NotAccepted"
        if r.error or (r.violated and r.violated != "NotAccepted"):
            if r.violated in ("OnlyInterpreterCollects", "StoppedAtEnd"):
                out.violation("event log violates %s" % r.violated, {"trace": open(tf).read()[-4000:]}, "protocol")
                races += 1
            else:
                raise vlib.Infra("GcTrace: %s\n%s" % (r.violated, r.out[-2000:]))
        elif not accepted:
            # rejected: validate each run's log on its own to name the run that is not a behaviour of the protocol
            runs = [x for x in open(tf).read().split('{"e":"reset","th":0}\n') if x.strip()]

            def one(k):
                tfk = os.path.join(tmp, "run%d.ndjson" % k)
                with open(tfk, "w") as fk:
                    fk.write(runs[k] + '{"e":"reset","th":0}\n')
                rk = vlib.tlc("GcTrace.tla", os.path.join(vlib.SPEC, "GcTrace.cfg"), env={"GC_TRACE": tfk}, workers=1, timeout=600,
                              java_opts=["-Dtlc2.tool.queue.IStateQueue=StateDeque"], heap="2g")
                return rk.violated == "NotAccepted"
            import concurrent.futures as cf
            with cf.ThreadPoolExecutor(max_workers=8) as ex:
                oks = list(ex.map(one, range(len(runs))))
            logged = [i for i in range(len(jobs)) if res[i].get("shots") and res[i]["status"] != "crash"]
            rejected = [k for k, ok in enumerate(oks) if not ok]
            for k in rejected[:3]:
                prog = jobs[logged[k]]["src"] if k < len(logged) else ""
                out.violation("the timer/interpreter event log of a run is not a behaviour of GcProtocol (trace rejected)",
                              {"what": "event log rejected by GcTrace.tla", "events": runs[k].split("\n"), "program": prog}, "trace%d" % k)
            if not rejected:
                raise vlib.Infra("concatenated log rejected but every single run accepted")
            races += 1
    finally:
        shutil.rmtree(tmp, ignore_errors=True)
    return {"protocol_models": metas, "tsan_runs": len(jobs), "logs_validated": nlog, "timer_ticks_observed": ticks,
            "collections_observed": collects, "trace_states": r.distinct}, races


def run(tier, seed):
    t0 = time.time()
    out = vlib.Outcome(PID)
    b, nb = part_b(tier, seed, out)
    a, na = part_a(tier, seed, out)
    dp, nd = deep_family(tier, out)
    nb += nd
    b["deep_structures"] = dp
    hp, nh = held_by_garbage(tier, out)
    nb += nh
    b["held_by_garbage"] = hp
    cov = {"states": sum(m["distinct"] for m in a["protocol_models"]) + a["trace_states"],
           "transitions": sum(m["generated"] for m in a["protocol_models"]),
           "traces_validated_against_impl": a["logs_validated"],
           "samples": [b["sample"]], "unobservability": b, "protocol": a,
           "rule": "(b) object-allocating programs (pending arguments, objects under construction, returned temporaries, temporary receivers, "
                   "cyclic garbage, allocation pressure; plus the C08 generator) each run under: no collection, a collection at every statement "
                   "boundary, the program-driven pressure rule, every single boundary (sampled above 16/64), and random subsets; every run must "
                   "print exactly the reference output of BlochSem, which has no collector; lists of 120..1400 live nodes (beyond the reference's fuel; "
                   "output known in closed form) under pressure and single/double collections while the list is alive. (a) GcProtocol.tla (timer x interpreter x stop/join) "
                   "is model-checked (OnlyInterpreterCollects, StoppedAtEnd, TimerTouchesOnlyFlag, termination under fairness, every subset of "
                   "boundaries reachable as collection points); real runs with the real timer thread (1 ms period) under ThreadSanitizer, one in "
                   "four ending in a runtime error, must be race-free and their event logs (thread-tagged tick/request/collect/timer_exit/join) "
                   "must be accepted by GcTrace.tla."}
    vlib.write_evidence(PID, tier, seed, "model_checking", cov,
                        ["TSan observes only the interleavings that occur in the recorded runs", "timer period shortened to 1 ms through the BLOCH_VERIF hook"],
                        time.time() - t0, nb + na)
    return out.finish()
