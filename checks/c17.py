"""C17 - @tracked/@shots reporting counts every scope exit of every shot exactly once."""
import collections
import json
import os
import re
import shutil
import time

import gen_shots
import qrt_common
import runner
import vlib

PID = "C17"


def parse_cli(stdout):
    """-> (echo lines, shots or None, rows {(key, outcome): (count, prob_text)})"""
    lines = stdout.split("\n")
    k = next((j for j, l in enumerate(lines) if l.startswith("Shots:")), None)
    if k is None:
        return [l for l in lines if l != ""], None, {}
    echo = [l for l in lines[:k] if l != ""]
    shots = int(lines[k].split(":")[1])
    rows = {}
    cur = None
    for l in lines[k + 1:]:
        if l.startswith(("Backend", "Elapsed")) or not l.strip() or set(l.strip()) <= set("-+"):
            continue
        m = re.match(r"^(\S+)\s*\|\s*(\d+)\s*\|\s*(\S+)\s*$", l)
        if m and m.group(1) != "outcome":
            rows[(cur, m.group(1))] = (int(m.group(2)), m.group(3))
        elif "|" not in l:
            cur = l.strip()
    return echo, shots, rows


def run(tier, seed):
    t0 = time.time()
    out = vlib.Outcome(PID)
    # ---- (i) per-exit accounting inside one shot: QRuntime behaviours (tracked locals, arrays, object fields, re-use)
    stats, by_prop, sample = qrt_common.run(tier, seed)
    viol = by_prop.get(PID, [])
    for v in viol[:4]:
        out.violation(v["what"], v, "beh%d" % v["behaviour"])
    # ---- (ii) the CLI shot loop against Shots.tla
    templates = gen_shots.templates()
    cases = []
    for ti, (name, src, recs, lines) in enumerate(templates):
        for flag, ann, echo in gen_shots.configs(tier):
            n = ann or flag or 1
            cases.append({"id": len(cases), "t": ti, "flag": flag, "ann": ann, "echo": echo, "lines": lines,
                          "recs": [[list(r) for r in recs] for _ in range(n)]})
    # templates whose records depend on a per-shot coin (injected): totals that are not multiples of the shot count
    ctemplates = gen_shots.conditional_templates()
    for ti, (name, src, by_coin, lines, per_shot) in enumerate(ctemplates):
        for flag, ann, echo in gen_shots.configs(tier):
            n = ann or flag or 1
            # alternate between a pattern whose first shot takes the branch and one whose first shot skips it
            coins = [0 if k % 3 == 1 else 1 for k in range(n)] if (flag + ann) % 2 == 0 else [1 if k % 3 == 1 else 0 for k in range(n)]
            draws = []
            for c_ in coins:
                draws += [0.25 if c_ else 0.75] + [0.5] * (per_shot - 1)
            cases.append({"id": len(cases), "t": len(templates) + ti, "flag": flag, "ann": ann, "echo": echo, "lines": lines,
                          "recs": [[list(r) for r in by_coin[c_]] for c_ in coins], "draws": draws})
    templates = templates + [(name, src, None, lines) for (name, src, by_coin, lines, per_shot) in ctemplates]
    tmp = vlib.scratch("shots")
    try:
        cf_ = os.path.join(tmp, "cases.ndjson")
        of = os.path.join(tmp, "out.ndjson")
        with open(cf_, "w") as f:
            for c in cases:
                f.write(json.dumps({k: c[k] for k in ("id", "flag", "ann", "echo", "lines", "recs")}) + "\n")
        open(of, "w").close()
        r = vlib.tlc("MCShots.tla", os.path.join(vlib.SPEC, "MCShots.cfg"), env={"SHOTS_CASES": cf_, "SHOTS_OUT": of}, timeout=1800)
        vlib.tlc_ok(r, "MCShots")
        expected = {}
        for l in open(of):
            d = json.loads(l)
            expected[d["id"]] = d
    finally:
        shutil.rmtree(tmp, ignore_errors=True)
    known = vlib.known_for(PID)
    bad = []
    import concurrent.futures as cf

    def one(c):
        name, src, recs, lines = templates[c["t"]]
        args = []
        if c["flag"]:
            args.append("--shots=%d" % c["flag"])
        if c["echo"] != "unset":
            args.append("--echo=" + c["echo"])
        files = {"main.bloch": gen_shots.with_annotation(src, c["ann"])}
        env = {"BLOCH_VERIF_GC": "none"}
        if "draws" in c:
            files["draws.txt"] = " ".join(repr(d) for d in c["draws"])
            env["BLOCH_VERIF_DRAWS"] = "draws.txt"
        rr = runner.run_cli(args + ["main.bloch"], files, env=env)
        return c, rr
    with cf.ThreadPoolExecutor(max_workers=16) as ex:
        results = list(ex.map(one, cases))
    for c, rr in results:
        e = expected[c["id"]]
        name = templates[c["t"]][0]
        cfg = "template '%s', --shots=%s, @shots(%s), --echo=%s" % (name, c["flag"] or "-", c["ann"] or "-", c["echo"])
        if rr["rc"] != 0:
            bad.append((c, "%s: CLI status %d: %s" % (cfg, rr["rc"], rr["stderr"][-200:]), rr))
            continue
        echo, shots, rows = parse_cli(rr["stdout"])
        if e["provided"]:
            if shots != e["shots"]:
                bad.append((c, "%s: ran %s shots, expected %d (annotation takes precedence over the flag)" % (cfg, shots, e["shots"]), rr))
                continue
            exp_rows = {(x["key"], x["outcome"]): x for x in e["rows"]}
            if set(rows) != set(exp_rows):
                bad.append((c, "%s: table rows %s, expected %s" % (cfg, sorted(rows), sorted(exp_rows)), rr))
                continue
            for key, (cnt, prob) in rows.items():
                x = exp_rows[key]
                if cnt != x["count"]:
                    bad.append((c, "%s: count of %s is %d, expected %d" % (cfg, key, cnt, x["count"]), rr))
                    break
                if abs(float(prob) * 1000 - x["prob"]) > 1.01:
                    bad.append((c, "%s: probability of %s printed as %s, expected %.3f (count / that variable's total)" % (cfg, key, prob, x["prob"] / 1000.0), rr))
                    break
        elif shots is not None:
            bad.append((c, "%s: an aggregate table was printed although neither --shots nor @shots was given" % cfg, rr))
            continue
        if len(echo) != e["echo_lines"]:
            bad.append((c, "%s: %d echo lines printed, expected %d" % (cfg, len(echo), e["echo_lines"]), rr))
    nviol = 0
    for c, msg, rr in bad:
        k = next((k for k in known if k["sig"].get("template") == templates[c["t"]][0]), None)
        if k:
            out.known(k)
            continue
        nviol += 1
        if nviol <= 8:
            out.violation(msg, {"what": msg, "case": {k: c[k] for k in ("flag", "ann", "echo")}, "program": templates[c["t"]][1],
                                "stdout": rr["stdout"][-1500:], "stderr": rr["stderr"][-500:]}, "case%d" % c["id"])
    cov = {"states": r.distinct + stats["exhaustive"]["distinct"], "transitions": r.generated + stats["exhaustive"]["generated"],
           "traces_validated_against_impl": len(cases) + stats["behaviours"],
           "cli_runs": len(cases), "templates": len(templates), "single_shot_behaviours": stats["behaviours"],
           "behaviours_with_tracked_records": stats["with_tracked_records"],
           "samples": [{"template": templates[4][0], "program": templates[4][1], "records_per_shot": templates[4][2]}],
           "rule": "(i) QRuntime behaviours: every tracked local / qubit[] / object field records exactly one outcome per scope exit or owner "
                   "destruction, '?' unless every element has a last measurement (compared with trackedCounts() and the last-measurement table). "
                   "(ii) Shots.tla: for every template (local, loop-body local x1..3, helper local x1..3, qubit[2] both/whole/one/none, measured-then-"
                   "reset, re-measured, fields dying by scope exit / destroy / end of main, recycled slot, multi-declaration) x every combination of "
                   "--shots in {-,1,2,3,7} x @shots in {-,1,2,3,7} x --echo in {unset,auto,all,none}: TLC checks CountsSum / ProbIsDistribution / "
                   "AnnotationWins on the case and gives the expected shot count, echo line count, counts and probabilities (count / that variable's "
                   "total); the real CLI binary is run and its printed table parsed."}
    vlib.write_evidence(PID, tier, seed, "model_checking", cov,
                        ["template programs are deterministic (x instead of h): every shot yields the same records; outcome statistics are C02's subject",
                         "--echo=none with a single shot is not exercised (the property does not say)"],
                        time.time() - t0, nviol + len(viol))
    return out.finish()
