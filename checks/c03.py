"""C03 - unit 2^n vector and distinct handles in any history."""
import time

import qrt_common
import qsim_common
import runner
import vlib

PID = "C03"

QCLS = "class Q { public qubit q; public constructor() -> Q = default; }\n"
# QRuntime.Injective (checked by TLC): two declarations never denote one simulator qubit while both are reachable.
# Each probe creates a second declaration D2 by some route next to a reachable D1, flips D1 and measures D2: a fresh
# qubit reads 0 (or the program is refused); 1 - or a 'measured' refusal caused by the other handle - means shared.
GSTAT = ("class Cell<T> { public static qubit anc; public T tag; public constructor() -> Cell<T> = default;\n"
         "  public static function flipAnc() -> void { x(anc); }\n  public static function readAnc() -> bit { bit r0 = measure anc; return r0; } }\n"
         "class Node extends Cell<int> { public qubit data; public constructor() -> Node { super(); } }\n")
CHAIN_D = ("class Probe extends Stage<int> { public qubit sense; public constructor() -> Probe { super(); }\n"
           "  public function flipSense() -> void { x(this.sense); }\n  public function readSense() -> bit { bit r0 = measure this.sense; return r0; } }\n")
CHAIN_G = ("class Stage<T> extends Link<T> { public constructor() -> Stage<T> { super(); } }\n"
           "class Link<T> extends Carrier { public constructor() -> Link<T> { super(); } }\n")
CHAIN_P = ("class Carrier { public qubit payload; public constructor() -> Carrier = default;\n"
           "  public function flipPayload() -> void { x(this.payload); }\n  public function readPayload() -> bit { bit r0 = measure this.payload; return r0; } }\n")
MORGUE = ("static class Morgue { public static Probe last; }\n"
          "class Probe { public qubit q; public int alive; public constructor() -> Probe { this.alive = 1; } public destructor() -> void { Morgue.last = this; } }\n"
          "class Fresh { public qubit q; public constructor() -> Fresh { } }\n"
          "function useAndDrop() -> void { Probe p = new Probe(); h(p.q); }\n")
# (fields are named bare: inside a method a bare name is a field of the enclosing class; how 'this.q' or 'obj.q' choose between a
#  base field and a same-named derived field is not documented, so those spellings are not used here)
SHADOW = ("class Base { public qubit q; public qubit[2] r; public constructor() -> Base = default; public function flipBase() -> void { x(q); x(r[1]); }\n"
          "  public function readBase() -> bit { bit r0 = measure q; bit r1 = measure r[1]; if (r0 == 1b && r1 == 1b) { return 1b; } return 0b; } }\n"
          "class Der extends Base { public qubit q; public qubit[2] r; public constructor() -> Der { super(); } public function flipDer() -> void { x(q); x(r[1]); }\n"
          "  public function readDer() -> bit { bit r0 = measure q; bit r1 = measure r[1]; if (r0 == 1b || r1 == 1b) { return 1b; } return 0b; } }\n")
HANDLE_PROBES = [
    ("init_local", "function main() -> void { qubit a; qubit b = a; x(a); bit r = measure b; echo(r); bit s = measure a; }\n", "0"),
    ("init_elem", "function main() -> void { qubit[2] reg; qubit d = reg[1]; x(reg[1]); bit r = measure d; echo(r); measure reg; }\n", "0"),
    ("init_field", QCLS + "function main() -> void { Q o = new Q(); qubit e = o.q; x(o.q); bit r = measure e; echo(r); bit s = measure o.q; }\n", "0"),
    ("init_call", QCLS + "function pick(Q o) -> qubit { return o.q; }\nfunction main() -> void { Q o = new Q(); qubit c = pick(o); x(o.q); "
                  "bit r = measure c; echo(r); bit s = measure o.q; }\n", "0"),
    ("init_param", "function f(qubit p) -> bit { qubit c = p; x(p); bit r = measure c; return r; }\nfunction main() -> void { qubit a; echo(f(a)); "
                   "bit s = measure a; }\n", "0"),
    ("temp_owner_arg", QCLS + "function f(qubit p) -> bit { qubit fresh; x(fresh); bit r = measure p; bit s = measure fresh; return r; }\n"
                       "function main() -> void { echo(f(new Q().q)); }\n", "0"),
    ("temp_owner_arg2", QCLS + "function f(qubit p, int k) -> bit { qubit[2] fresh; x(fresh[0]); x(fresh[1]); bit r = measure p; measure fresh; return r; }\n"
                        "function main() -> void { echo(f(new Q().q, 1)); }\n", "0"),
    ("destroyed_owner_arg", QCLS + "function g(qubit p, Q o) -> bit { destroy o; qubit fresh; x(fresh); bit r = measure p; bit s = measure fresh; return r; }\n"
                            "function main() -> void { Q o = new Q(); echo(g(o.q, o)); }\n", "0"),
    ("scope_recycle", QCLS + "function main() -> void { qubit a; { Q o = new Q(); x(o.q); bit t = measure o.q; } qubit b; x(a); bit r = measure b; echo(r); "
                      "bit s = measure a; }\n", "0"),
    # declarations living in class layouts the class table builds before main runs: a static qubit of a generic class that a plain
    # class derives from, and qubit fields of a plain class reached through two generic levels (either declaration order)
    ("static_generic_base_vs_local", GSTAT + "function main() -> void { qubit a; Node n = new Node(); Node.flipAnc(); bit r = measure a; echo(r); "
                                     "bit s = Node.readAnc(); bit t = measure n.data; }\n", "0"),
    ("static_generic_base_vs_field", GSTAT + "function main() -> void { Node n = new Node(); Node.flipAnc(); bit r = measure n.data; echo(r); "
                                     "bit s = Node.readAnc(); }\n", "0"),
    ("static_generic_base_vs_array", GSTAT + "function main() -> void { qubit[2] reg; Node.flipAnc(); bit r = measure reg[0]; echo(r); bit u = measure reg[1]; "
                                     "bit s = Node.readAnc(); }\n", "0"),
    ("static_generic_base_control", GSTAT + "function main() -> void { qubit a; Node.flipAnc(); bit s = Node.readAnc(); echo(s); bit r = measure a; }\n", "1"),
    ("generic_chain_derived_first", CHAIN_D + CHAIN_G + CHAIN_P + "function main() -> void { Probe p = new Probe(); p.flipPayload(); bit r = p.readSense(); echo(r); "
                                    "bit s = p.readPayload(); }\n", "0"),
    ("generic_chain_base_first", CHAIN_P + CHAIN_G + CHAIN_D + "function main() -> void { Probe p = new Probe(); p.flipPayload(); bit r = p.readSense(); echo(r); "
                                 "bit s = p.readPayload(); }\n", "0"),
    ("generic_chain_vs_local", CHAIN_D + CHAIN_G + CHAIN_P + "function main() -> void { qubit a; Probe p = new Probe(); p.flipPayload(); p.flipSense(); bit r = measure a; echo(r); "
                               "bit s = p.readPayload(); bit t = p.readSense(); }\n", "0"),
    ("generic_chain_control", CHAIN_D + CHAIN_G + CHAIN_P + "function main() -> void { Probe p = new Probe(); p.flipPayload(); bit s = p.readPayload(); echo(s); "
                              "bit r = p.readSense(); }\n", "1"),
    # a destroyed owner that stayed addressable (its destructor published 'this'): whatever it still answers, its released qubit
    # index - recycled by a new declaration - is not reachable through it
    ("dead_owner_field", MORGUE + "function main() -> void { useAndDrop(); Fresh f = new Fresh(); Probe dead = Morgue.last; if (dead.alive == 1) { x(dead.q); } "
                         "bit r = measure f.q; echo(r); }\n", "0"),
    ("dead_owner_local", MORGUE + "function main() -> void { useAndDrop(); qubit f; Probe dead = Morgue.last; if (dead.alive == 1) { x(dead.q); } "
                         "bit r = measure f; echo(r); }\n", "0"),
    ("dead_owner_array", MORGUE.replace("public qubit q;", "public qubit[2] q;", 1).replace("h(p.q);", "h(p.q[1]);") +
                         "function main() -> void { useAndDrop(); qubit[2] f; Probe dead = Morgue.last; if (dead.alive == 1) { x(dead.q[0]); x(dead.q[1]); } "
                         "bit r = measure f[0]; bit s = measure f[1]; echo(r); }\n", "0"),
    # a derived class redeclaring an inherited qubit field: two declarations in one object
    ("shadowed_field", SHADOW + "function main() -> void { Der d = new Der(); d.flipBase(); bit r = d.readDer(); echo(r); bit s = d.readBase(); }\n", "0"),
    ("shadowed_field_reverse", SHADOW + "function main() -> void { Der d = new Der(); d.flipDer(); bit r = d.readBase(); echo(r); bit s = d.readDer(); }\n", "0"),
    ("shadowed_field_register_size", SHADOW + "function main() -> void { qubit pad; Der d = new Der(); qubit after; x(after); d.flipBase(); d.flipDer(); bit r = measure pad; echo(r); "
                                     "bit s = measure after; bit t = d.readBase(); bit u = d.readDer(); }\n", "0"),
    ("shadowed_field_control", SHADOW + "function main() -> void { Der d = new Der(); d.flipBase(); bit s = d.readBase(); echo(s); bit r = d.readDer(); }\n", "1"),
    # the same local declaration executed again while an earlier activation's qubit is still in use (recursion, re-entrant
    # methods): every activation has its own qubit and keeps its state
    ("recursive_local", "function rec(int n) -> int { qubit q; x(q); int inner = 0; if (n > 0) { inner = rec(n - 1); } bit r = measure q; if (r == 1b) { return inner + 1; } return inner; }\n"
                        "function main() -> void { echo(rec(3)); }\n", "4"),
    ("recursive_local_array", "function rec(int n) -> int { qubit[2] q; x(q[1]); int inner = 0; if (n > 0) { inner = rec(n - 1); } bit r = measure q[1]; bit z = measure q[0]; "
                              "if (r == 1b && z == 0b) { return inner + 1; } return inner; }\nfunction main() -> void { echo(rec(2)); }\n", "3"),
    ("mutual_recursion_local", "function ping(int n) -> int { qubit q; x(q); int inner = 0; if (n > 0) { inner = pong(n - 1); } bit r = measure q; if (r == 1b) { return inner + 1; } return inner; }\n"
                               "function pong(int n) -> int { qubit q; int inner = 0; if (n > 0) { inner = ping(n - 1); } bit r = measure q; if (r == 0b) { return inner + 10; } return inner; }\n"
                               "function main() -> void { echo(ping(3)); }\n", "22"),
    ("reentrant_method_local", "class W { public W other; public constructor() -> W = default; public function go(int n) -> int { qubit q; x(q); int inner = 0; "
                               "if (n > 0 && other != null) { inner = other.go(n - 1); } bit r = measure q; if (r == 1b) { return inner + 1; } return inner; } }\n"
                               "function main() -> void { W a = new W(); W b = new W(); a.other = b; b.other = a; echo(a.go(3)); }\n", "4"),
    # an owner of a tracked qubit held only by a garbage cycle, reclaimed by the collector (allocation pressure): its index is
    # released once - the next two declarations get two qubits
    ("gc_owner_in_garbage_cycle", "class Cell { @tracked public qubit q; public constructor() -> Cell = default; }\n"
                                  "class Link { public Link peer; public Cell held; public constructor() -> Link { this.peer = null; this.held = null; } }\n"
                                  "class Pad { public int v; public constructor(int x) -> Pad { this.v = x; } }\n"
                                  "function ring() -> void { Link a = new Link(); Link b = new Link(); a.held = new Cell(); a.peer = b; b.peer = a; }\n"
                                  "function main() -> void { ring(); int s = 0; for (int i = 0; i < 40; i = i + 1) { Pad t = new Pad(i); s = s + t.v; } "
                                  "Cell first = new Cell(); Cell second = new Cell(); x(first.q); bit r = measure second.q; echo(r); bit u = measure first.q; }\n", "0"),
    # declarations made while an owner is being destroyed (in its destructor: a helper object owning a qubit, a local qubit, a local
    # register): the dying object's own qubits are still its own
    ("dtor_helper_object", "class Helper { public qubit h; public constructor() -> Helper = default; }\n"
                           "class Owner { public qubit q; public constructor() -> Owner = default;\n"
                           "  public destructor() -> void { Helper w = new Helper(); x(w.h); bit r = measure this.q; echo(r); bit s = measure w.h; } }\n"
                           "function main() -> void { { Owner o = new Owner(); } }\n", "0"),
    ("dtor_local_qubit", "class Owner { public qubit[2] r; public constructor() -> Owner = default;\n"
                         "  public destructor() -> void { qubit f0; qubit[2] f1; x(f0); x(f1[0]); x(f1[1]); bit a = measure r[0]; bit b = measure r[1]; "
                         "if (a == 1b || b == 1b) { echo(1); } else { echo(0); } measure f0; measure f1; } }\n"
                         "function main() -> void { Owner o = new Owner(); destroy o; }\n", "0"),
    ("dtor_helper_after_recycle", "class Helper { public qubit h; public constructor() -> Helper = default; }\n"
                                  "class Owner { public qubit q; public constructor() -> Owner = default;\n"
                                  "  public destructor() -> void { Helper w = new Helper(); Helper w2 = new Helper(); x(w.h); x(w2.h); bit r = measure q; echo(r); } }\n"
                                  "function main() -> void { { Helper pre = new Helper(); } { Owner o = new Owner(); } }\n", "0"),
    # controls: ONE declaration reached by two names must be shared
    ("param_is_same_qubit", "function f(qubit p) -> void { x(p); }\nfunction main() -> void { qubit a; f(a); bit r = measure a; echo(r); }\n", "1"),
    ("field_via_two_refs", QCLS + "function main() -> void { Q o = new Q(); Q o2 = o; x(o.q); bit r = measure o2.q; echo(r); }\n", "1"),
]


def handle_probes(out):
    known = vlib.known_for(PID)
    jobs = [{"id": i, "src": src, "gc": "pressure" if route.startswith("gc_") else "none"} for i, (route, src, _) in enumerate(HANDLE_PROBES)]
    res = runner.run_jobs(jobs)
    nviol = 0
    for i, (route, src, want) in enumerate(HANDLE_PROBES):
        r = res[i]
        if r["status"] == "semantic":
            continue          # refusing the second declaration is one way to keep handles distinct
        got = None
        what = None
        if r["status"] != "ok":
            what = "front end ended with %s: %s" % (r["status"], r.get("what", "").strip())
        else:
            sh = r["shots"][0]
            if sh["status"] == "ok" and sh["echo"] == [want]:
                continue
            if route.startswith("dead_owner") and sh["status"] == "runtime":
                continue      # refusing to use the dead object's handle keeps the handles distinct as well
            got = sh["echo"] if sh["status"] == "ok" else "%s: %s" % (sh["status"], sh.get("what", "").strip())
            what = "handle route '%s': a fresh declaration must read %s; interpreter: %s" % (route, want, got)
        hit = [f for f in known if route in f["sig"].get("routes", [])]
        if hit:
            out.known(hit[0], "%s (route %s)" % (hit[0]["what"], route))
            continue
        nviol += 1
        out.violation(what, {"what": what, "route": route, "program": src, "result": r}, "handle_" + route)
    return nviol


def run(tier, seed):
    t0 = time.time()
    out = vlib.Outcome(PID)
    stats, by_prop, sample = qrt_common.run(tier, seed)
    viol = by_prop.get(PID, [])
    for i, v in enumerate(viol[:5]):
        out.violation(v["what"], v, "beh%d" % v["behaviour"])
    # simulator-level half: allocation edges + node checks of the exhaustive QSim graph
    meta, rep = qsim_common.run(tier)
    nsim = rep["viol_by_prop"].get(PID, 0)
    for i, v in enumerate([v for v in rep["violations"] if v["property"] == PID][:3]):
        out.violation(v["what"], {"kind": "qsim-edge", "spec_state": v["state"], "action": v["action"], "what": v["what"]}, "edge%d" % i)
    nprobe = handle_probes(out)
    cov = {"states": stats["exhaustive"]["distinct"] + meta["distinct"], "handle_route_probes": len(HANDLE_PROBES),
           "transitions": stats["exhaustive"]["generated"] + meta["generated"],
           "traces_validated_against_impl": stats["behaviours"],
           "samples": [sample], "behaviour_stats": stats,
           "qsim_graph": {"nodes_replayed": rep["nodes"], "alloc_edges": rep["per_action"].get("alloc", 0), "tlc": meta},
           "rule": "QRuntime (handles, owners, LIFO free list, both flag tables) is explored exhaustively by TLC in small scope "
                   "(view-quotient, invariants ShapeInv/UnitInv/Injective/FreeDisjoint/FreeAreZero) and sampled by TLC -simulate; "
                   "each finished behaviour is a Bloch program (locals, qubit[2], objects with qubit fields, blocks, destroy, "
                   "index re-use, refusals) run on the real interpreter with the behaviour's draws; every simulator operation "
                   "(index, gate, outcome), the number of allocations, the final amplitudes (up to phase, 2e-5), both flag "
                   "tables, the free list and the tracked table must equal the spec's."}
    vlib.write_evidence(PID, tier, seed, "model_checking", cov,
                        ["at most one live object per scope level in generated programs (death order of several objects of one "
                         "scope is unspecified in the implementation)",
                         "generated behaviours do not copy qubit handles between declarations; that route is covered by the hand-written "
                         "handle probes (see known_findings.txt)"],
                        time.time() - t0, len(viol) + nsim + nprobe)
    return out.finish()
