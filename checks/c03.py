"""C03 - unit 2^n vector and distinct handles in any history."""
import time

import qrt_common
import qsim_common
import vlib

PID = "C03"


def run(tier, seed):
    t0 = time.time()
    out = vlib.Outcome(PID)
    stats, by_prop, sample = qrt_common.run(tier, seed)
    viol = by_prop.get(PID, [])
    for i, v in enumerate(viol[:5]):
        out.violation(v["what"], v, "beh%d" % v["behaviour"])
    # simulator-level half: allocation edges + node checks of the exhaustive QSim graph
    meta, rep = qsim_common.run(tier)
    nsim = rep["viol_by_prop"].get(PID, 0)
    for i, v in enumerate([v for v in rep["violations"] if v["property"] == PID][:3]):
        out.violation(v["what"], {"kind": "qsim-edge", "spec_state": v["state"], "action": v["action"], "what": v["what"]}, "edge%d" % i)
    cov = {"states": stats["exhaustive"]["distinct"] + meta["distinct"],
           "transitions": stats["exhaustive"]["generated"] + meta["generated"],
           "traces_validated_against_impl": stats["behaviours"],
           "samples": [sample], "behaviour_stats": stats,
           "qsim_graph": {"nodes_replayed": rep["nodes"], "alloc_edges": rep["per_action"].get("alloc", 0), "tlc": meta},
           "rule": "QRuntime (handles, owners, LIFO free list, both flag tables) is explored exhaustively by TLC in small scope "
                   "(view-quotient, invariants ShapeInv/UnitInv/Injective/FreeDisjoint/FreeAreZero) and sampled by TLC -simulate; "
                   "each finished behaviour is a Bloch program (locals, qubit[2], objects with qubit fields, blocks, destroy, "
                   "index re-use, refusals) run on the real interpreter with the behaviour's draws; every simulator operation "
                   "(index, gate, outcome), the number of allocations, the final amplitudes (up to phase, 2e-5), both flag "
                   "tables, the free list and the tracked table must equal the spec's."}
    vlib.write_evidence(PID, tier, seed, "model_checking", cov,
                        ["at most one live object per scope level in generated programs (death order of several objects of one "
                         "scope is unspecified in the implementation)",
                         "qubit handles are not copied between variables in generated programs (see known finding on aliasing)"],
                        time.time() - t0, len(viol) + nsim)
    return out.finish()
