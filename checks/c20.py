"""C20 - self-update: only strictly newer releases, right checksum line, throttled notice."""
import json
import os
import shutil
import time

import vlib

PID = "C20"


def tlc_dump(module, cfg_text, tag):
    key = vlib.sha(vlib.spec_hash("Update.tla", module + ".tla"), cfg_text)
    d = vlib.cache_dir("upd-%s" % tag, key)
    dump = os.path.join(d, "dump.ndjson")
    meta = os.path.join(d, "meta.json")
    if os.path.exists(meta):
        return json.load(open(meta)), dump
    shutil.rmtree(d, ignore_errors=True)
    os.makedirs(d)
    cfg = os.path.join(d, "m.cfg")
    open(cfg, "w").write(cfg_text)
    r = vlib.tlc(module + ".tla", cfg, env={"UPD_DUMP": dump + ".tmp"}, deadlock=False, timeout=1800)
    vlib.tlc_ok(r, module)
    os.replace(dump + ".tmp", dump)
    m = {"module": module, "distinct": r.distinct, "generated": r.generated, "wall_s": round(r.wall, 1)}
    json.dump(m, open(meta, "w"))
    return m, dump


def run(tier, seed):
    t0 = time.time()
    out = vlib.Outcome(PID)
    maxlen, steps = (4, 3) if tier == "quick" else (5, 5)
    metas = []
    dumps = []
    for module, cfg, tag in [
        ("MCUpdateVer", "SPECIFICATION VerSpec\nCONSTANTS MaxLen = %d\nINVARIANTS VerLaws VerDump\n" % maxlen, "ver"),
        ("MCUpdateCheck", "SPECIFICATION CheckSpec\nINVARIANTS CheckDump\n", "chk"),
        ("MCUpdateThrottle", "SPECIFICATION ThSpec\nCONSTANTS MaxSteps = %d\nINVARIANTS OncePerWindow ThLaws ThDump\n" % steps, "thr"),
    ]:
        m, d = tlc_dump(module, cfg, tag)
        metas.append(m)
        dumps.append(d)
    exe = vlib.link_standalone("update_harness", ["update_harness.cpp"], defs=["CPPHTTPLIB_OPENSSL_SUPPORT"], libs=["-lssl", "-lcrypto"])
    tmp = vlib.scratch("upd")
    try:
        allf = os.path.join(tmp, "all.ndjson")
        with open(allf, "w") as f:
            for d in dumps:
                shutil.copyfileobj(open(d), f)
        res = os.path.join(tmp, "out.json")
        env = {k: v for k, v in os.environ.items() if k not in ("CI", "BLOCH_NO_UPDATE_CHECK", "BLOCH_OFFLINE")}
        import subprocess
        p = subprocess.run([exe, allf, res, os.path.join(tmp, "cache")], env=env, stdout=subprocess.PIPE, stderr=subprocess.PIPE, timeout=3000)
        if p.returncode == 2:
            raise vlib.Infra("update_harness: %s" % p.stderr.decode(errors="replace")[-500:])     # its own usage / input error
        if p.returncode != 0 or not os.path.exists(res):
            # the updater crashed on an input (uncaught exception -> abort, or a signal): that is a violation of
            # "never crashes on one"; report with what we have
            out.violation("the updater harness died (rc=%d): %s" % (p.returncode, p.stderr.decode(errors="replace")[-500:]),
                          {"rc": p.returncode, "stderr": p.stderr.decode(errors="replace")[-2000:]}, "crash")
            rep = {"parse": 0, "pair": 0, "check": 0, "throttle_states": 0, "throttle_edges": 0, "nviol": 1, "violations": [], "samples": []}
        else:
            rep = json.load(open(res))
        # the throttle automaton once more with the cache directory on ANOTHER file system than the temporary directory (a home on
        # disk with /tmp on tmpfs, or the reverse): where the updater keeps its cache must not matter
        rep["other_filesystem"] = "not available"
        import tempfile
        shm = "/dev/shm"
        if os.path.isdir(shm) and os.access(shm, os.W_OK) and os.stat(shm).st_dev != os.stat(tempfile.gettempdir()).st_dev:
            other = tempfile.mkdtemp(prefix="verif-upd-", dir=shm)
            try:
                res2 = os.path.join(tmp, "out2.json")
                p2 = subprocess.run([exe, dumps[2], res2, os.path.join(other, "cache")], env=env, stdout=subprocess.PIPE, stderr=subprocess.PIPE, timeout=3000)
                if p2.returncode == 2:
                    raise vlib.Infra("update_harness (second cache location): %s" % p2.stderr.decode(errors="replace")[-500:])
                if p2.returncode != 0 or not os.path.exists(res2):
                    out.violation("the updater harness died with the cache on another file system (rc=%d): %s" % (p2.returncode, p2.stderr.decode(errors="replace")[-500:]),
                                  {"rc": p2.returncode}, "crash2")
                    rep["nviol"] += 1
                else:
                    rep2 = json.load(open(res2))
                    rep["other_filesystem"] = {"cache_dir": shm, "throttle_edges": rep2["throttle_edges"], "violations": rep2["nviol"]}
                    rep["nviol"] += rep2["nviol"]
                    for v in rep2["violations"]:
                        v["what"] = "[cache directory on another file system than the temporary directory] " + v["what"]
                        rep["violations"].append(v)
            finally:
                shutil.rmtree(other, ignore_errors=True)
    finally:
        shutil.rmtree(tmp, ignore_errors=True)
    known = vlib.known_for(PID)
    nviol = 0
    for i, v in enumerate(rep["violations"]):
        matched = None
        for k in known:
            sig = k["sig"]
            if sig.get("part") == v["part"] and sig.get("contains", "") in v["what"]:
                matched = k
                break
        if matched:
            out.known(matched)
            continue
        nviol += 1
        if nviol <= 8:
            out.violation(v["what"], v, "%s%d" % (v["part"], i))
    total_viol = rep["nviol"] if not known else nviol
    cov = {"states": sum(m["distinct"] for m in metas), "transitions": sum(m["generated"] for m in metas),
           "traces_validated_against_impl": rep["parse"] + rep["pair"] + rep["check"] + rep["throttle_edges"],
           "version_strings_parsed": rep["parse"], "version_pairs_decided": rep["pair"], "checksum_files": rep["check"],
           "throttle_states": rep["throttle_states"], "throttle_transitions_replayed": rep["throttle_edges"], "throttle_with_cache_on_other_filesystem": rep["other_filesystem"],
           "samples": rep["samples"] or [{"note": "none"}], "tlc": metas, "exhaustive": True,
           "rule": "TLC enumerates (1) every string of length <= %d over {v,0,1,9,.,-,a} plus long/odd extras with its parse result, and "
                   "every ordered pair of a stratified subset with Compare / Decision(--update) / notice; (2) every checksums.txt of <= 3 "
                   "lines over 5 similarly named assets; (3) every state of the 72 h throttle automaton reachable in <= %d invocations over "
                   "dt in {0, 20 min, 71 h 20 min, 72 h - 20 min, 72 h, 72 h + 20 min, 73 h} (instants not aligned to hours) x network {fail, older, same, newer, garbage} x disabled-by-env, with all successors. The harness "
                   "includes update_manager.cpp, stubs clock and network through the BLOCH_VERIF hooks and replays every case: parse and "
                   "compare results, the decision gate of performSelfUpdate, the notice, the checksum line, and for every throttle transition "
                   "the printed notice and the cache file after the call (the cache file is installed from the spec state before the call)." % (maxlen, steps)}
    vlib.write_evidence(PID, tier, seed, "model_checking", cov,
                        ["performSelfUpdate past its decision gate (download, extraction, install) needs the network and is not reached",
                         "abstract tags: running v1.2.3, older v1.2.2, newer v1.3.0, garbage 'latest-build'"],
                        time.time() - t0, total_viol)
    return out.finish()
