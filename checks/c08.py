"""C08 - object model: construction order, dispatch, overloads and generics as documented."""
import collections
import time

import bsyntax
import gen_obj
import semrun
import vlib

PID = "C08"


def run(tier, seed):
    t0 = time.time()
    out = vlib.Outcome(PID)
    n = 600 if tier == "quick" else 8000
    fixed = gen_obj.fixed_programs()
    ps = fixed[0::2] + gen_obj.programs(seed, n) + fixed[1::2]
    progs = [(i, p) for i, p in enumerate(ps)]
    half = len(ps) // 2
    # half of the programs use the documented `return this;` constructor idiom
    o1, r1, bad1 = semrun.run_and_compare(progs[:half], render_opts={"ctor_return_this": False})
    o2, r2, bad2 = semrun.run_and_compare(progs[half:], render_opts={"ctor_return_this": True})
    oracle = dict(o1)
    oracle.update(o2)
    res = dict(r1)
    res.update(r2)
    bad = dict(bad1)
    bad.update(bad2)
    for pid, msg in sorted(bad.items())[:8]:
        out.violation(msg, {"what": msg, "program": bsyntax.render(progs[pid][1], ctor_return_this=pid >= half),
                            "reference": oracle[pid], "interpreter": res[pid]}, "prog%d" % pid)
    feats = collections.Counter()
    for _, p in progs:
        cs = p["classes"]
        feats["depth>=2"] += any(c["base"] and any(d["name"] == c["base"] and d["base"] for d in cs) for c in cs)
        feats["overrides"] += any(m["override"] for c in cs for m in c["methods"])
        feats["super_calls"] += "supercall" in bsyntax.dumps(p)
        feats["overload_sets"] += any(sum(1 for m in c["methods"] if m["name"] == "f") >= 2 for c in cs)
        feats["destructors"] += any(c["dtor"] for c in cs)
        feats["generics"] += any(c.get("tparams") for c in cs)
        feats["statics"] += any(f["static"] for c in cs for f in c["fields"])
        feats["explicit_super_ctor"] += '"k": "super"' in bsyntax.dumps(p).replace('":"', '": "') or '"k":"super"' in bsyntax.dumps(p)
    nontrivial = len({bsyntax.dumps(p) for i, p in progs if oracle[i]["status"] != "undef" and len(oracle[i]["out"]) >= 3})
    cov = {"evaluations": len(progs), "distinct_nontrivial": nontrivial, "features": dict(feats),
           "echo_lines_compared": sum(len(o["out"]) for o in oracle.values()),
           "samples": [{"program": bsyntax.render(progs[2][1])[:2500], "reference": oracle[2]["out"]}],
           "rule": "seeded class-using programs: hierarchies of depth <= 3 (+ a sibling), constructors with explicit/implicit super, echoing "
                   "field initialisers, virtual / override / virtual-override / plain methods, super.m(), this-qualified and unqualified calls, "
                   "overload sets f(int)/f(long)/f(A)/f(B).. called with arguments of every static type that has a unique cheapest overload "
                   "and receivers of every (static, dynamic) class pair, static counters, Box<T>/LBox<T> specialisations with per-specialisation "
                   "statics and diamond inference, destructors that echo; objects die by scope exit, reassignment, destroy, null assignment, "
                   "aliases keep them alive. The reference is BlochSem.tla (base-first construction, most-derived override, static overload "
                   "choice, reference counting, derived-first destructors) executed by TLC; the order in which several objects of one scope "
                   "die is left open (any permutation accepted). Non-trivial = reference prints >= 3 lines."}
    vlib.write_evidence(PID, tier, seed, "exploration", cov,
                        ["generic classes are monomorphised by harness/py/bsyntax.py before the reference runs (each instantiation its own class)",
                         "no reference cycles; object-typed fields are not generated; static initialisers are constants"],
                        time.time() - t0, len(bad))
    return out.finish()
