"""C14 - the parser realises the documented grammar: render-then-parse round-trips."""
import itertools
import json
import os
import shutil
import time

import astmap
import bsyntax
import gen_core
import gen_obj
import gen_scope
import runner
import vlib

PID = "C14"


def grammar_cases():
    key = vlib.sha(vlib.spec_hash("Grammar.tla", "MCGrammar.tla"))
    d = vlib.cache_dir("grammar", key)
    dump = os.path.join(d, "trees.ndjson")
    meta = os.path.join(d, "meta.json")
    if not os.path.exists(meta):
        shutil.rmtree(d, ignore_errors=True)
        os.makedirs(d)
        r = vlib.tlc("MCGrammar.tla", os.path.join(vlib.SPEC, "MCGrammar.cfg"), env={"GRAMMAR_OUT": dump + ".tmp"}, timeout=1800)
        vlib.tlc_ok(r, "MCGrammar (Parse(Render(t)) = t on the specification itself)")
        os.replace(dump + ".tmp", dump)
        json.dump({"distinct": r.distinct, "generated": r.generated}, open(meta, "w"))
    return json.load(open(meta)), [json.loads(l) for l in open(dump)]


def member_product():
    """annotation x visibility x modifiers x member kind; every combination below is syntactically legal"""
    out = []
    for vis in ["", "public", "private", "protected"]:
        for static, final in itertools.product([False, True], repeat=2):
            for tracked in (False, True):
                ty = "qubit" if tracked else "int"
                init = "" if tracked or not final else " = 3"
                src = "class K { %s%s %s%s%s f%s; public constructor() -> K = default; }\nfunction main() -> void { }\n" % (
                    "@tracked " if tracked else "", vis, "static " if static else "", "final " if final else "", ty, init)
                exp = {"k": "field", "vis": vis or "private", "n": "f", "static": static, "final": final, "tracked": tracked}
                out.append((src, exp))
        for static, virtual, override in itertools.product([False, True], repeat=3):
            for quantum in (False, True):
                src = "class K { %s%s %s%s%sfunction m(int a) -> void { } public constructor() -> K = default; }\nfunction main() -> void { }\n" % (
                    "@quantum " if quantum else "", vis, "static " if static else "", "virtual " if virtual else "", "override " if override else "")
                exp = {"k": "method", "vis": vis or "private", "n": "m", "static": static, "virtual": virtual, "override": override, "quantum": quantum}
                out.append((src, exp))
        # annotation after the modifiers as well
        out.append(("class K { %s static @quantum function m() -> void { } public constructor() -> K = default; }\nfunction main() -> void { }\n" % vis,
                    {"k": "method", "vis": vis or "private", "n": "m", "static": True, "virtual": False, "override": False, "quantum": True}))
    return out


def spelling_cases():
    """(pairs of sources that must parse to the same tree, sources that write one type in every position)"""
    pairs = []
    names = ["a", "b", "c", "d", "e"]
    for k in (2, 3, 4, 5):
        for tracked in ("", "@tracked "):
            comma = "%squbit %s;" % (tracked, ", ".join(names[:k]))
            expanded = " ".join("%squbit %s;" % (tracked, n) for n in names[:k])
            for where, wrap in (("function body", "function main() -> void { %s x(a); }\n"),
                                ("nested block", "function main() -> void { int i = 0; { %s } echo(i); }\n"),
                                ("while body", "function main() -> void { int i = 0; while (i < 1) { %s i = i + 1; } }\n"),
                                ("if branch", "function main() -> void { if (true) { echo(1); } else { %s } }\n"),
                                ("method body", "class K { public constructor() -> K = default; public function m() -> void { %s } }\nfunction main() -> void { }\n")):
                pairs.append((wrap % comma, wrap % expanded, "'%s' in a %s" % (comma, where)))
    prims = ["int", "long", "float", "bit", "boolean", "string", "char"]
    tys = ["Box<%s>" % p_ for p_ in prims] + ["Box<Base>", "Box<Box<boolean>>", "Box<Box<long>>", "Pair<string, long>", "Pair<long, Box<int>>", "Pair<boolean, boolean>",
                                             "Box<Pair<int, long>>", "Base", "int[]", "long[]", "Pair<Base, Box<char>>"]
    decls = ("class Base { public constructor() -> Base = default; }\nclass Box<T> { public T v; public constructor() -> Box<T> = default; }\n"
             "class Pair<K, V> { public K k; public V w; public constructor() -> Pair<K, V> = default; }\n")
    cases = []
    for ty in tys:
        init = "" if ty.endswith("[]") else " = null"
        src = (decls + "function f(%s p) -> %s { return p; }\nfunction main() -> void { %s v%s; { %s w%s; } }\nclass Holder { public %s h; public constructor() -> Holder = default; }\n"
               % (ty, ty, ty, init, ty, init, ty))
        cases.append((src, ty))
    return pairs, cases


def run(tier, seed):
    t0 = time.time()
    out = vlib.Outcome(PID)
    bad = []
    # ---- 1. expressions: every enumerated tree, minimal and redundant parentheses
    meta, trees = grammar_cases()
    jobs = []
    B = 25
    for mode in ("min", "red"):
        for i in range(0, len(trees), B):
            body = "".join("  echo(%s);\n" % " ".join(t[mode]) for t in trees[i:i + B])
            jobs.append({"id": len(jobs), "stage": "ast", "src": "function main() -> void {\n%s}\n" % body, "_mode": mode, "_from": i})
    res = runner.run_jobs([{k: v for k, v in j.items() if not k.startswith("_")} for j in jobs])
    expr_checked = 0
    singles = []
    for j in jobs:
        r = res[j["id"]]
        chunk = trees[j["_from"]:j["_from"] + B]
        if r["status"] != "ok":
            singles += [(j["_mode"], t) for t in chunk]      # find the offending tree(s) individually
            continue
        stmts = r["ast"]["funcs"][0]["body"]
        for t, st in zip(chunk, stmts):
            expr_checked += 1
            got = astmap.strip_paren(st["e"])
            want = astmap.gtree(t["tree"])
            d = astmap.first_diff(want, got)
            if d:
                bad.append(("expression '%s' parsed into a different tree: %s" % (" ".join(t[j["_mode"]]), d), {"source": " ".join(t[j["_mode"]]), "expected": want, "got": got}))
    if singles:
        sj = [{"id": i, "stage": "ast", "src": "function main() -> void {\n  echo(%s);\n}\n" % " ".join(t[mode])} for i, (mode, t) in enumerate(singles)]
        sres = runner.run_jobs(sj)
        for i, (mode, t) in enumerate(singles):
            r = sres[i]
            expr_checked += 1
            if r["status"] != "ok":
                bad.append(("expression '%s' follows the documented grammar but is rejected: %s" % (" ".join(t[mode]), r.get("what", r["status"]).strip()),
                            {"source": " ".join(t[mode]), "result": r}))
            else:
                got = astmap.strip_paren(r["ast"]["funcs"][0]["body"][0]["e"])
                d = astmap.first_diff(astmap.gtree(t["tree"]), got)
                if d:
                    bad.append(("expression '%s' parsed into a different tree: %s" % (" ".join(t[mode]), d), {"source": " ".join(t[mode]), "got": got}))
    # ---- 1b. the same trees in the other syntactic positions an expression can stand in (statement dispatch, declaration
    #          type-ahead, clause separators): value of an assignment statement, initialiser, return value, condition, arguments,
    #          index and element value of an element assignment, for-clauses
    CONTEXTS = [
        ("v = %s;", lambda st: [st["e"]] if st["k"] == "assign" and st.get("n") == "v" else ([st["e"]["e"]] if st["k"] == "expr" and st["e"]["k"] == "asg" and st["e"]["n"] == "v" else None)),
        ("int d = %s;", lambda st: [st["init"]] if st["k"] == "decl" else None),
        ("return %s;", lambda st: [st["e"]] if st["k"] == "ret" else None),
        ("if (%s) { }", lambda st: [st["c"]] if st["k"] == "if" else None),
        ("while (%s) { }", lambda st: [st["c"]] if st["k"] == "while" else None),
        ("g(%s, 1, %s);", lambda st: [st["e"]["a"][0], st["e"]["a"][2]] if st["k"] == "expr" and st["e"]["k"] == "call" and len(st["e"]["a"]) == 3 else None),
        ("arr[%s] = %s;", lambda st: [st["e"]["i"], st["e"]["e"]] if st["k"] == "expr" and st["e"]["k"] == "aasg" else None),
        ("for (v = %s; %s; v = %s) { }", lambda st: [st["init"]["e"]["e"] if st["init"]["k"] == "expr" else st["init"]["e"], st["c"], st["upd"]["e"]] if st["k"] == "for" else None),
        # grammar.md: primary = "measure" expression - the operand of an inline measurement is a whole expression
        ("bit m = measure %s;", lambda st: [st["init"]["e"]] if st["k"] == "decl" and st["init"]["k"] == "measure" else None),
        ("echo(x | measure %s);", lambda st: [st["e"]["r"]["e"]] if st["k"] == "echo" and st["e"]["k"] == "bin" and st["e"]["op"] == "|" and st["e"]["l"] == {"k": "id", "n": "x"}
                                  and st["e"]["r"]["k"] == "measure" else None),
        # the initialiser clause is optional
        ("for (; %s; v = %s) { }", lambda st: [st["c"], st["upd"]["e"]] if st["k"] == "for" and st["init"]["k"] == "none" else None),
        ("while (x < 1) { for (; %s; %s) { } }", lambda st: [st["b"]["b"][0]["c"], st["b"]["b"][0]["upd"]] if st["k"] == "while" and st["b"]["b"] and st["b"]["b"][0]["k"] == "for"
                                                  and st["b"]["b"][0]["init"]["k"] == "none" else None),
    ]
    cj = []
    step = 1 if tier != "quick" else 3
    for ci, (tmpl, _) in enumerate(CONTEXTS):
        # every assignment-rooted tree, and every step-th other tree, in minimal rendering
        sel = [t for k, t in enumerate(trees) if t["tree"]["k"] == "asg" or k % step == ci % step]
        if tmpl.startswith("arr["):
            # documented: a constant negative index (a[-1]) is rejected at parse time
            sel = [t for t in sel if not (t["tree"]["k"] == "un" and t["tree"]["op"] == "-" and t["tree"]["e"]["k"] == "lit")]
        for i in range(0, len(sel), B):
            chunk = sel[i:i + B]
            body = "".join("  " + tmpl.replace("%s", " ".join(t["min"])) + "\n" for t in chunk)
            cj.append({"id": len(cj), "stage": "ast", "src": "function main() -> int {\n%s}\n" % body, "_ctx": ci, "_chunk": chunk})
    cres = runner.run_jobs([{k: v for k, v in j.items() if not k.startswith("_")} for j in cj])
    ctx_checked = 0
    for j in cj:
        r = cres[j["id"]]
        tmpl, pick = CONTEXTS[j["_ctx"]]
        todo = j["_chunk"]
        stmts = r["ast"]["funcs"][0]["body"] if r["status"] == "ok" else None
        if stmts is None or len(stmts) != len(todo):
            # find the offending tree(s) individually
            one = [{"id": i, "stage": "ast", "src": "function main() -> int {\n  %s\n}\n" % tmpl.replace("%s", " ".join(t["min"]))} for i, t in enumerate(todo)]
            ores = runner.run_jobs(one)
            pairs = [(t, ores[i]["ast"]["funcs"][0]["body"][0] if ores[i]["status"] == "ok" and len(ores[i]["ast"]["funcs"][0]["body"]) == 1 else None, ores[i]) for i, t in enumerate(todo)]
        else:
            pairs = [(t, st, None) for t, st in zip(todo, stmts)]
        for t, st, raw in pairs:
            ctx_checked += 1
            text = tmpl.replace("%s", " ".join(t["min"]))
            if st is None:
                bad.append(("statement '%s' follows the documented grammar but is rejected: %s" % (text, (raw.get("what") or raw["status"]).strip()), {"source": text, "result": raw}))
                continue
            got = pick(astmap.strip_paren(st))
            want = astmap.gtree(t["tree"])
            if got is None:
                bad.append(("statement '%s' parsed into another kind of statement (%s)" % (text, st.get("k")), {"source": text, "got": st}))
                continue
            for g in got:
                d = astmap.first_diff(want, g)
                if d:
                    bad.append(("expression in '%s' parsed into a different tree: %s" % (text, d), {"source": text, "expected": want, "got": g}))
                    break
    # ---- 1c. literal leaves at the edges of their ranges: a sample of the trees with every literal replaced by a boundary literal
    BOUNDARY = [("2147483647", "int"), ("2147483646", "int"), ("0", "int"), ("1000000000", "int"), ("9223372036854775807L", "long"), ("2147483648L", "long"), ("0L", "long"),
                ("1b", "bit"), ("0b", "bit"), ("1.5f", "float"), ("0.0f", "float"), ("16777217.0f", "float")]

    def lits_of(t, acc):
        if isinstance(t, dict):
            if t.get("k") == "lit":
                acc.add(str(t["v"]))
            for v in t.values():
                lits_of(v, acc)
        elif isinstance(t, list):
            for v in t:
                lits_of(v, acc)
        return acc

    def with_lit(t, text, ty):
        if isinstance(t, dict):
            if t.get("k") == "lit":
                return {"k": "lit", "t": ty, "v": text}
            return {k: with_lit(v, text, ty) for k, v in t.items()}
        if isinstance(t, list):
            return [with_lit(v, text, ty) for v in t]
        return t
    with_l = [t for t in trees if lits_of(t["tree"], set())]
    lsel = with_l[::max(1, len(with_l) // (60 if tier == "quick" else 600))]
    lj = []
    for text, ty in BOUNDARY:
        for tmpl, pick in (("echo(%s);", lambda st: st["e"] if st["k"] == "echo" else None), ("long d = %s;", lambda st: st["init"] if st["k"] == "decl" else None),
                           ("return %s;", lambda st: st["e"] if st["k"] == "ret" else None)):
            for i in range(0, len(lsel), B):
                chunk = lsel[i:i + B]
                rows = []
                for t in chunk:
                    vals = lits_of(t["tree"], set())
                    rows.append(tmpl % " ".join(text if tok in vals else tok for tok in t["min"]))
                lj.append({"id": len(lj), "stage": "ast", "src": "function main() -> long {\n  %s\n}\n" % "\n  ".join(rows), "_rows": rows, "_chunk": chunk, "_lit": (text, ty), "_pick": pick})
    lres = runner.run_jobs([{k: v for k, v in j.items() if not k.startswith("_")} for j in lj])
    lit_checked = 0
    for j in lj:
        r = lres[j["id"]]
        text, ty = j["_lit"]
        if r["status"] != "ok" or len(r["ast"]["funcs"][0]["body"]) != len(j["_rows"]):
            # find the offending row
            one = runner.run_jobs([{"id": i, "stage": "ast", "src": "function main() -> long {\n  %s\n}\n" % row} for i, row in enumerate(j["_rows"])])
            for i, row in enumerate(j["_rows"]):
                if one[i]["status"] != "ok":
                    bad.append(("statement '%s' follows the documented grammar but is rejected: %s" % (row, (one[i].get("what") or one[i]["status"]).strip()), {"source": row, "result": one[i]}))
                    break
            continue
        for t, row, st in zip(j["_chunk"], j["_rows"], r["ast"]["funcs"][0]["body"]):
            lit_checked += 1
            got = j["_pick"](astmap.strip_paren(st))
            want = with_lit(astmap.gtree(t["tree"]), text, ty)
            d = astmap.first_diff(want, got) if got is not None else "another kind of statement"
            if d:
                bad.append(("expression in '%s' parsed into a different tree: %s" % (row, d), {"source": row, "expected": want, "got": got}))
    # ---- 2. statements, functions, class members: generated programs rendered and parsed back
    nprog = 300 if tier == "quick" else 4000
    progs = gen_core.random_programs(seed, nprog) + gen_scope.programs() + gen_obj.programs(seed + 1, nprog)
    pj = [{"id": i, "stage": "ast", "src": bsyntax.render(p, ctor_return_this=i % 2 == 0)} for i, p in enumerate(progs)]
    pres = runner.run_jobs(pj)
    for i, p in enumerate(progs):
        r = pres[i]
        if r["status"] != "ok":
            bad.append(("program follows the documented grammar but is rejected by the parser: %s" % r.get("what", r["status"]).strip(),
                        {"source": pj[i]["src"], "result": r}))
            continue
        want = astmap.bprogram(p, ctor_return_this=i % 2 == 0)
        got = astmap.strip_paren(r["ast"])
        d = astmap.first_diff(want, got)
        if d:
            bad.append(("program parsed into a different tree: %s" % d, {"source": pj[i]["src"], "diff": d}))
    # ---- 3. annotated class members: annotation x visibility x modifiers x kind
    prod = member_product()
    mj = [{"id": i, "stage": "ast", "src": src} for i, (src, exp) in enumerate(prod)]
    mres = runner.run_jobs(mj)
    for i, (src, exp) in enumerate(prod):
        r = mres[i]
        if r["status"] != "ok":
            bad.append(("class member follows the documented grammar but is rejected: %s  [%s]" % (r.get("what", r["status"]).strip(), src.split("\n")[0]),
                        {"source": src, "result": r}))
            continue
        m = r["ast"]["classes"][0]["members"][0]
        diff = {k: (exp[k], m.get(k)) for k in exp if m.get(k) != exp[k]}
        if diff:
            bad.append(("class member parsed with different attributes %s  [%s]" % (diff, src.split("\n")[0]), {"source": src, "member": m}))
    # ---- 3b. local declarations: [final] [@tracked] type name [= init] in every statement position (grammar.md: ["final"] variableDeclaration,
    #          variableDeclaration = annotations? type identifier ...)
    lj, lmeta = [], []
    for final in (False, True):
        for tracked in (False, True):
            for ty, init in (("qubit", ""), ("qubit[2]", ""), ("int", " = 3"), ("float[]", " = {1.5f}"), ("Box<int>", " = null")):
                if tracked and not ty.startswith("qubit"):
                    continue
                decl = "%s%s%s v%s;" % ("final " if final else "", "@tracked " if tracked else "", ty, init)
                for where, wrap, pick in (("function body", "function main() -> void { %s }\n", lambda a: a["funcs"][0]["body"][0]),
                                          ("nested block", "function main() -> void { int i = 0; { %s } }\n", lambda a: a["funcs"][0]["body"][1]["b"][0]),
                                          ("while body", "function main() -> void { while (true) { %s } }\n", lambda a: a["funcs"][0]["body"][0]["b"]["b"][0]),
                                          ("if branch", "function main() -> void { if (true) { } else { %s } }\n", lambda a: a["funcs"][0]["body"][0]["e"]["b"][0]),
                                          ("after another statement", "function main() -> void { echo(1); %s echo(2); }\n", lambda a: a["funcs"][0]["body"][1]),
                                          ("method body", "class K { public constructor() -> K = default; public function m() -> void { %s } }\nfunction main() -> void { }\n",
                                           lambda a: [m for m in a["classes"][0]["members"] if m.get("k") == "method"][0]["body"][0])):
                    lmeta.append((decl, where, pick, final, tracked))
                    lj.append({"id": len(lj), "stage": "ast", "src": wrap % decl})
    lres = runner.run_jobs(lj)
    for i, (decl, where, pick, final, tracked) in enumerate(lmeta):
        r = lres[i]
        if r["status"] != "ok":
            bad.append(("declaration '%s' in a %s follows the documented grammar but is rejected: %s" % (decl, where, r.get("what", r["status"]).strip()), {"source": lj[i]["src"], "result": r}))
            continue
        try:
            st = pick(r["ast"])
        except (KeyError, IndexError, TypeError):
            st = None
        if not st or st.get("k") != "decl" or st.get("n") != "v" or bool(st.get("final")) != final or bool(st.get("tracked")) != tracked:
            bad.append(("declaration '%s' in a %s parsed as %s" % (decl, where, {k: st.get(k) for k in ("k", "n", "final", "tracked")} if st else None), {"source": lj[i]["src"], "got": st}))
    # ---- 3c. array lengths: T[N] keeps its literal length (0 included) in every position a type can stand in; T[] has none
    aj, ameta = [], []
    for elem in ("int", "float", "bit", "qubit", "string", "char", "long"):
        for n_ in (None, 0, 1, 2, 7, 100, 65536):
            ty = "%s[%s]" % (elem, "" if n_ is None else n_)
            src = ("function f(%s p) -> %s { return p; }\nfunction main() -> void { %s v; { %s w; } }\nclass H { public %s h; public constructor() -> H = default; }\n" % (ty, ty, ty, ty, ty))
            ameta.append((ty, -1 if n_ is None else n_))
            aj.append({"id": len(aj), "stage": "ast", "src": src})
    ares = runner.run_jobs(aj)
    for i, (ty, want) in enumerate(ameta):
        r = ares[i]
        if r["status"] != "ok":
            bad.append(("type '%s' follows the documented grammar but is rejected: %s" % (ty, r.get("what", r["status"]).strip()), {"source": aj[i]["src"]}))
            continue
        f = r["ast"]["funcs"]
        seen = {"parameter": f[0]["params"][0]["t"], "return type": f[0]["ret"], "local": f[1]["body"][0]["t"], "nested local": f[1]["body"][1]["b"][0]["t"],
                "field": r["ast"]["classes"][-1]["members"][0].get("t")}
        for where, t in seen.items():
            if not t or t.get("t") != "arr" or t.get("size") != want:
                bad.append(("type '%s' as a %s parsed with length %s" % (ty, where, t.get("size") if t else None), {"source": aj[i]["src"], "got": t}))
                break
    # ---- 4. spellings the documentation declares equivalent, and one type written in different syntactic positions
    eq_pairs, type_cases = spelling_cases()
    ej = []
    for a, b, what in eq_pairs:
        ej.append({"id": len(ej), "stage": "ast", "src": a})
        ej.append({"id": len(ej), "stage": "ast", "src": b})
    eres = runner.run_jobs(ej)
    for k, (a, b, what) in enumerate(eq_pairs):
        ra, rb = eres[2 * k], eres[2 * k + 1]
        if ra["status"] != "ok" or rb["status"] != "ok":
            bad.append(("%s: rejected by the parser (%s / %s)" % (what, ra.get("what", ra["status"]).strip(), rb.get("what", rb["status"]).strip()), {"source": a, "expanded": b}))
            continue
        d = astmap.first_diff(rb["ast"], ra["ast"])
        if d:
            bad.append(("%s: the two spellings give different trees: %s" % (what, d), {"source": a, "expanded": b}))
    tj = [{"id": i, "stage": "ast", "src": src} for i, (src, ty) in enumerate(type_cases)]
    tres = runner.run_jobs(tj)
    for i, (src, ty) in enumerate(type_cases):
        r = tres[i]
        if r["status"] != "ok":
            bad.append(("type '%s' in a declaration statement / parameter / field / return / new position is rejected: %s" % (ty, r.get("what", r["status"]).strip()), {"source": src}))
            continue
        f = r["ast"]["funcs"]
        seen = {"parameter": f[0]["params"][0]["t"], "return": f[0]["ret"], "local": f[1]["body"][0]["t"], "nested local": f[1]["body"][1]["b"][0]["t"],
                "field": r["ast"]["classes"][-1]["members"][0].get("t")}
        ref = seen["parameter"]
        for where, t in seen.items():
            if t != ref:
                bad.append(("type '%s' parsed differently as %s (%s) and as parameter (%s)" % (ty, where, t, ref), {"source": src}))
                break
    for n, (msg, doc) in enumerate(bad[:8]):
        doc["what"] = msg
        out.violation(msg, doc, "case%d" % n)
    cov = {"states": meta["distinct"], "transitions": meta["generated"],
           "traces_validated_against_impl": 2 * len(trees) + len(progs) + len(prod),
           "expression_trees": len(trees), "expression_renderings_parsed": expr_checked, "expressions_in_other_positions_parsed": ctx_checked, "boundary_literal_renderings_parsed": lit_checked, "programs_round_tripped": len(progs),
           "class_member_combinations": len(prod), "equivalent_spellings": len(eq_pairs), "types_in_every_position": len(type_cases), "exhaustive": True,
           "samples": [{"tree": trees[4000]["tree"], "minimal": " ".join(trees[4000]["min"]), "redundant": " ".join(trees[4000]["red"])}],
           "rule": "Grammar.tla encodes docs/grammar.md (13 levels, left-associative binaries, right-associative '=', prefix - ! ~, postfix call / index / "
                   "member / ++ / --); TLC checks Parse(Render(t)) = t on the specification for every enumerated tree: all 16x16 adjacent operator pairs "
                   "in both nestings, all three-operator shapes over one operator per level, the unary/postfix/call/index/member interplay and "
                   "assignments (9 053 trees), rendered with minimal and with redundant parentheses. Each token list is parsed by the real Lexer+Parser "
                   "and the tree it builds (dumped through astdump.hpp, parentheses transparent) must equal t. Statements, functions and class "
                   "members: generated programs (C07/C08 generators) are rendered and the parsed tree compared node by node; the full product of "
                   "annotation x visibility x modifiers on fields and methods must be accepted with exactly those attributes."}
    vlib.write_evidence(PID, tier, seed, "model_checking", cov,
                        ["cast expressions are rendered with a parenthesised operand (their binding strength is not documented)",
                         "constant negative indices a[-1] are documented as rejected and are not generated"],
                        time.time() - t0, len(bad))
    return out.finish()
