"""C12 - running an accepted program never crashes the interpreter."""
import collections
import json
import os
import shutil
import time

import bsyntax
import gen_core
import gen_edge
import gen_gc
import gen_obj
import gen_scope
import runner
import vlib

PID = "C12"


def classify(r):
    """terminal event of one run (None if the program was not accepted)"""
    if r["status"] in ("lexical", "parse", "semantic"):
        return None
    if r["status"] == "crash":
        err = r.get("stderr", "")
        if "Sanitizer" in err or "runtime error:" in err:
            return "sanitizer"
        return "signal"
    if r["status"] == "timeout":
        return "timeout"
    if r["status"] in ("terminate", "other", "generic"):
        return "raw_exception"
    if r["status"] == "runtime":
        what = r.get("what") or (r["shots"][-1].get("what") if r.get("shots") else "")
        return "runtime_diag" if what.startswith("Runtime error") else "raw_exception"
    return "exit0"


def run(tier, seed):
    t0 = time.time()
    out = vlib.Outcome(PID)
    nrand, nobj = (300, 250) if tier == "quick" else (4000, 3000)
    corpus = []
    for what, src in gen_edge.programs():
        corpus.append((what, src, "none"))
    for i, p in enumerate(gen_core.random_programs(seed, nrand) + gen_scope.programs()):
        corpus.append(("classical #%d" % i, bsyntax.render(p), "none"))
    for i, p in enumerate(gen_obj.programs(seed + 1, nobj)):
        corpus.append(("objects #%d" % i, bsyntax.render(p, ctor_return_this=i % 2 == 0), ["none", "all", "pressure"][i % 3]))
    for i, p in enumerate(gen_gc.programs(seed + 2, 60 if tier == "quick" else 600)):
        corpus.append(("gc #%d" % i, bsyntax.render(p), ["all", "pressure", "at:3,9,27"][i % 3]))
    jobs = [{"id": i, "src": src, "gc": gc, "timeout_ms": 20000} for i, (what, src, gc) in enumerate(corpus)]
    proc_err = []
    res = runner.run_jobs(jobs, variant="asan", stderr_out=proc_err, per_job_timeout=30)
    # a raw C++ message in place of a diagnostic for a REJECTED program belongs to C13, but is reported here as well
    events = []
    terminal = {}
    for i, (what, src, gc) in enumerate(corpus):
        ev = classify(res[i])
        raw_front = res[i]["status"] in ("other", "terminate", "generic") and not res[i].get("shots")
        if ev is None:
            continue
        terminal[i] = ev
        events.append({"e": "start", "id": i})
        events.append({"e": ev, "id": i})
    tmp = vlib.scratch("runlife")
    try:
        tf = os.path.join(tmp, "trace.ndjson")
        with open(tf, "w") as f:
            for e in events:
                f.write(json.dumps(e) + "\n")
        r = vlib.tlc("RunLifecycle.tla", os.path.join(vlib.SPEC, "RunLifecycle.cfg"), env={"RUN_TRACE": tf}, workers=1, timeout=1800)
        if r.error or (r.violated and r.violated != "NotAccepted"):
            raise vlib.Infra("RunLifecycle: %s\n%s" % (r.violated, r.out[-1500:]))
        accepted = r.violated == "NotAccepted"
    finally:
        shutil.rmtree(tmp, ignore_errors=True)
    bad = [i for i, ev in terminal.items() if ev not in ("exit0", "runtime_diag")]
    if accepted and bad:
        raise vlib.Infra("trace accepted although non-envelope events exist")
    if not accepted and not bad:
        raise vlib.Infra("trace rejected although every terminal event is in the envelope")
    known = vlib.known_for(PID)
    nviol = 0
    for i in bad:
        what, src, gc = corpus[i]
        detail = res[i].get("stderr", "")[-1500:] or res[i].get("what", "")
        k = next((k for k in known if k["sig"].get("case_prefix") and what.startswith(k["sig"]["case_prefix"]) and terminal[i] == k["sig"].get("event")), None)
        if k:
            out.known(k)
            continue
        nviol += 1
        if nviol <= 8:
            out.violation("%s: terminal event '%s' is not one the run lifecycle allows (%s)" % (what, terminal[i], detail[-200:].strip()),
                          {"case": what, "event": terminal[i], "program": src, "gc": gc, "result": res[i]}, "case%d" % i)
    hist = collections.Counter(terminal.values())
    cov = {"states": r.distinct, "transitions": r.generated, "traces_validated_against_impl": len(terminal),
           "terminal_events": dict(hist), "programs_not_accepted_by_front_end": len(corpus) - len(terminal),
           "samples": [{"case": corpus[5][0], "program": corpus[5][1][-400:], "event": terminal.get(5)}],
           "corpus": {"edge_cases": len(gen_edge.programs()), "classical": nrand, "objects": nobj},
           "rule": "every program of the corpus - the full (operator x extreme int/long operand x operand) tables incl. division/modulo by 0 and "
                   "-1, casts, out-of-range literals, computed and huge indices, null receivers, 7-level hierarchies with overloaded virtual methods "
                   "declared in every order, runtime errors raised with 0-3 frames of live objects (with/without qubit fields and destructors), "
                   "failing and allocating destructors, plus the C07/C08/C11 generators under several collector schedules - is executed in-process "
                   "by an AddressSanitizer+UBSan build (fork-isolated, watchdog); the terminal event of each accepted program is appended to an "
                   "event log that TLC validates against RunLifecycle.tla, which has actions only for exit0 and runtime_diag."}
    vlib.write_evidence(PID, tier, seed, "model_checking", cov,
                        ["signed integer overflow and shift UB are not counted (the property speaks of crashes, memory and diagnostics)",
                         "memory errors the sanitizers cannot see on these inputs are missed"], time.time() - t0, nviol)
    return out.finish()
