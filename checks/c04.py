"""C04 - reset is local: target to |0>, other qubits' statistics unchanged."""
import time

import joint_common
import qrt_common
import qsim_common
import vlib

PID = "C04"


def run(tier, seed):
    t0 = time.time()
    out = vlib.Outcome(PID)
    meta, rep = qsim_common.run(tier)
    nviol = rep["viol_by_prop"].get(PID, 0)
    for i, v in enumerate([v for v in rep["violations"] if v["property"] == PID][:5]):
        out.violation(v["what"], {"kind": "qsim-edge", "spec_state": v["state"], "action": v["action"],
                                  "what": v["what"]}, "edge%d" % i)
    # implicit resets (object destruction, index re-use) at program level: QRuntime behaviours
    stats, by_prop, sample = qrt_common.run(tier, seed)
    pv = by_prop.get(PID, [])
    for v in pv[:5]:
        out.violation(v["what"], v, "beh%d" % v["behaviour"])
    nviol += len(pv)
    # the simulator's OWN random stream (no injected draws): joint distribution of measured bits over thousands of real shots
    jstats, jviol = joint_common.run(tier)
    mine = [v for v in jviol if PID in v["property"].split(",")]
    for k, v in enumerate(mine[:4]):
        out.violation(v["what"], v, "joint%d" % k)
    nviol += len(mine)
    cov = {"states": meta["distinct"], "transitions": meta["generated"],
           "traces_validated_against_impl": rep["per_action"].get("reset", 0),
           "reset_calls_on_impl": rep["reset_draws"],
           "programs_run": stats["behaviours"], "programs_with_destroy": stats["with_destroy"],
           "programs_with_index_reuse": stats["with_index_reuse"],
           "nonstandard_unravelling_poststates": rep["nonstandard_reset_poststates"],
           "samples": rep["samples"][:3] + [{"state": "2|00|1,0,0,0,1,;0,0,0,0,0,;0,0,0,0,0,;1,0,0,0,1,;", "action": "reset(0)",
                                             "note": "Bell pair, unmeasured target: the witness of the defect fixed in 0db43c9"}],
           "nodes_replayed": rep["nodes"], "unreached_nodes": rep["unreached"], "tlc": meta, "exhaustive": True, "real_rng_joint_statistics": jstats,
           "rule": "for every reachable spec state (<=3 qubits) and every qubit q (measured or not, entangled or not): "
                   "reset(q) is run from a copy of that state's implementation object once per injected draw on the "
                   "18-point grid; each post-state must be a unit vector with zero weight on q=1 and the flag cleared; "
                   "the average over the 16 midpoint draws of the reduced density matrix of the other qubits must equal "
                   "the reduced density matrix before the reset (1e-9). Spec side: the ResetLocal invariant (same "
                   "statement, exact ring arithmetic) holds in every state (TLC)."}
    vlib.write_evidence(PID, tier, seed, "model_checking", cov,
                        ["the implementation samples by comparing the draw with a cumulative probability (any threshold "
                         "convention is accepted; only the branch statistics over the grid are compared)",
                         "implicit resets on object destruction / index reuse are covered by the runtime trace check (C03)"],
                        time.time() - t0, nviol)
    return out.finish()
