"""C15 - the lexer is lossless and token positions are exact (trace validation of token lists, LexCursor.tla)."""
import itertools
import json
import os
import random
import shutil
import time

import runner
import vlib

PID = "C15"
ALPHA = ["a", "_", "0", "1", "b", "f", "L", ".", '"', "'", "/", "+", "=", "-", ">", " ", "\t", "\n"]
SEEDS = [
    'string s = "a\nb"; int x = 1;', 'char c = \'\n\'; int y;', '// c1\n// c2 "q\nint z; // t', 'a//b\n"x//y"/ /c',
    'x = "multi\n\nline" + "z"\n;', "'a''b'\t'\t'", 'if(a>=b&&c!=d||!e){f(1.5f,2L,0b,1b);}', 'int\r\n x\r\n=\r\n3;',
    '"\n"\n"\n"', "- > -> -- - ++ + = == => >=", '@tracked qubit[2] q; // end', 'a\x0bb\x0cc', '1.0f.2f', "0b1b0b", "x/y//z\n/w",
]


def gen_strings(tier, seed):
    out = []
    maxlen_all = 3 if tier == "quick" else 4
    for n in range(0, maxlen_all + 1):
        for tup in itertools.product(ALPHA, repeat=n):
            out.append("".join(tup))
    rnd = random.Random(seed)
    nsample = 25000 if tier == "quick" else 250000
    for _ in range(nsample):
        n = rnd.randint(maxlen_all + 1, 9)
        out.append("".join(rnd.choice(ALPHA) for _ in range(n)))
    # digits glued to words that start like an exponent or a literal suffix; and everything over a small alphabet of its own
    for num in ("0", "7", "12", "1.5", "2L", "1b", "3f", "10."):
        for word in ("e", "E", "e+", "e-", "e;", "e+y", "E-w", "else", "echo", "extends", "ex", "e1", "e1f", "E2", "e+1", "e+1f", "e-2f", "f", "L", "b", "fe", "Le", "be", "e e", "e\n+1"):
            for head in ("", "x ", "(", "\n"):
                for tail in ("", " ", ";", "\nz"):
                    out.append(head + num + word + tail)
    alpha2 = ["e", "E", "1", "0", ".", "f", "+", "-", ";", "x", " ", "\n"]
    for n in range(1, 5):
        for tup in itertools.product(alpha2, repeat=n):
            out.append("".join(tup))
    # quotes, slashes and line breaks: comments inside literals, literals inside comments, literals that span lines
    alpha3 = ['"', "/", "a", "\n", "'", " "]
    for n in range(1, (6 if tier == "quick" else 7)):
        for tup in itertools.product(alpha3, repeat=n):
            out.append("".join(tup))
    out += ['"a//b\nc" x', 'u = "http://h/p\n//q" + "r"; // t "u\nv', '"//"\n"//\n"//', "'/' '/'//'\n'/'", '"a\n//b\n" //c\n"d"']
    # identifiers that start with (or merely resemble) a keyword, of every length around it; keywords glued to digits / underscores
    KEYWORDS = ["function", "return", "final", "static", "class", "extends", "import", "package", "measure", "reset", "while", "for", "if", "else", "int", "long", "float",
                "bit", "qubit", "string", "char", "boolean", "void", "true", "false", "null", "new", "this", "super", "public", "private", "protected", "virtual", "override",
                "abstract", "constructor", "destructor", "default", "destroy", "echo", "tracked", "quantum", "shots"]
    for kw in KEYWORDS:
        for tail in ("", "s", "Count", "_1", "9", "able", "ing", "X" * 9, kw):
            for head in ("", "x ", "@"):
                out.append(head + kw + tail + " y")
        out.append(kw[:-1] + " " + kw[:-1] + "x")
        out.append(kw.upper() + " " + kw.capitalize())
    # backslashes inside literals (Bloch strings have no escapes: a backslash is an ordinary character), also right before line
    # breaks and quotes
    alpha4 = ['"', "\\", "\n", "a", "'", " "]
    for n in range(1, (6 if tier == "quick" else 7)):
        for tup in itertools.product(alpha4, repeat=n):
            out.append("".join(tup))
    out += ['s = "a\\\nb" + 1; t', 'u = "x\\" ; v', "c = '\\'; d", 'w = "p\\\n\\\nq"\n  z;']
    # every pair of printable characters (and tab / CR / LF), bare, glued between two identifiers, and glued between an identifier
    # and a number: operators written without spaces next to any first letter, look-alikes of the two-character operators
    printable = [chr(c) for c in range(0x20, 0x7f)] + ["\t", "\r", "\n"]
    for c1 in printable:
        for c2 in printable:
            out.append(c1 + c2)
            out.append("i" + c1 + c2 + "k")
            out.append("a " + c1 + c2 + "1 z")
    # single characters between every pair of identifier-start letters / digits
    for op in "+-&|=!<>*/%^~":
        for c in printable:
            out.append("x" + op + c + "y; w")
            out.append("x" + c + op + "y; w")
    # carriage returns: CRLF and lone CR line breaks inside and outside string / char literals and comments
    alpha5 = ['"', "\r", "\n", "a", " ", "/"]
    for n in range(1, (6 if tier == "quick" else 7)):
        for tup in itertools.product(alpha5, repeat=n):
            out.append("".join(tup))
    out += ['s = "a\r\nb";\r\nint x;', 't = "p\r\n\r\nq" + "r\rs";\r\n// c\r\nu', "c = '\r'; d = '\n';\r\ne", '"\r\n"\r\n"\r"']
    out += SEEDS
    ex = os.path.join(vlib.REPO, "examples")
    if os.path.isdir(ex):
        for fn in sorted(os.listdir(ex)):
            if fn.endswith(".bloch"):
                out.append(open(os.path.join(ex, fn), errors="replace").read())
    return out


def run(tier, seed):
    t0 = time.time()
    out = vlib.Outcome(PID)
    strings = gen_strings(tier, seed)
    jobs = [{"id": i, "stage": "lex", "src": s} for i, s in enumerate(strings)]
    res = runner.run_jobs(jobs, per_job_timeout=2)
    cases, rejected, other = [], 0, []
    for i, s in enumerate(strings):
        r = res[i]
        if r["status"] == "lexical":
            rejected += 1
            continue
        if r["status"] != "ok":
            other.append((i, r["status"]))
            continue
        if len(s.encode()) != len(s):
            continue
        cases.append({"id": i, "s": [ord(c) for c in s],
                      "t": [{"x": [ord(c) for c in tk["v"]], "l": tk["l"], "c": tk["c"]} for tk in r["tokens"]]})
    tmp = vlib.scratch("lexcur")
    try:
        # TLC ints are 32 bit and sequences of records are fine; split the cases over several TLC runs
        nparts = 8
        accepted = set()
        states = trans = 0
        for part in range(nparts):
            sub = cases[part::nparts]
            if not sub:
                continue
            cf_ = os.path.join(tmp, "cases%d.ndjson" % part)
            af = os.path.join(tmp, "acc%d.txt" % part)
            with open(cf_, "w") as f:
                for c in sub:
                    f.write(json.dumps(c) + "\n")
            open(af, "w").close()
            r = vlib.tlc("LexCursor.tla", os.path.join(vlib.SPEC, "LexCursor.cfg"), env={"LEX_CASES": cf_, "LEX_ACCEPTED": af},
                         deadlock=True, timeout=3000, heap="6g", workers=16)
            vlib.tlc_ok(r, "LexCursor part %d" % part)
            states += r.distinct
            trans += r.generated
            accepted |= {int(l) for l in open(af) if l.strip()}
        bad = [c for c in cases if c["id"] not in accepted]
    finally:
        shutil.rmtree(tmp, ignore_errors=True)
    for c in bad[:8]:
        s = strings[c["id"]]
        toks = res[c["id"]]["tokens"]
        out.violation("token list is not a lossless, exactly positioned reading of the source %r: %s" % (s[:60], toks[:6]),
                      {"source": s, "tokens": toks, "how": "LexCursor.tla gets stuck on this case"}, "case%d" % c["id"])
    for i, st in other[:3]:
        out.violation("lexer neither tokenised nor raised a lexical error: %s" % st, {"source": strings[i], "status": st}, "other%d" % i)
    cov = {"states": states, "transitions": trans, "traces_validated_against_impl": len(cases),
           "rejected_by_lexer_not_in_scope": rejected, "strings_total": len(strings),
           "samples": [{"source": strings[c["id"]], "tokens": res[c["id"]]["tokens"][:5]} for c in cases[4000:4002]] or [{"source": ""}],
           "exhaustive": False,
           "rule": "every string of length <= %d over the 18-character alphabet %r (all of them), a seeded sample of longer "
                   "strings, hand-written multi-line seeds and the repository's examples; each accepted string's token list is a "
                   "trace validated by TLC against LexCursor.tla (one initial state per case)" % (3 if tier == "quick" else 4, "".join(ALPHA))}
    vlib.write_evidence(PID, tier, seed, "model_checking", cov,
                        ["strings the lexer rejects with a Lexical error are outside the property and only counted",
                         "ASCII sources only"], time.time() - t0, len(bad) + len(other))
    return out.finish()
