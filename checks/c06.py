"""C06 - a measured qubit cannot be operated on until reset, through any access path."""
import time

import qrt_common
import qsim_common
import vlib

PID = "C06"


def run(tier, seed):
    t0 = time.time()
    out = vlib.Outcome(PID)
    stats, by_prop, sample = qrt_common.run(tier, seed)
    viol = by_prop.get(PID, [])
    for v in viol[:5]:
        out.violation(v["what"], v, "beh%d" % v["behaviour"])
    meta, rep = qsim_common.run(tier)
    nsim = rep["viol_by_prop"].get(PID, 0)
    for i, v in enumerate([v for v in rep["violations"] if v["property"] == PID][:3]):
        out.violation(v["what"], {"kind": "qsim-edge", "spec_state": v["state"], "action": v["action"], "what": v["what"]}, "edge%d" % i)
    cov = {"states": stats["exhaustive"]["distinct"] + meta["distinct"],
           "transitions": stats["exhaustive"]["generated"] + meta["generated"],
           "traces_validated_against_impl": stats["behaviours"],
           "behaviours_ending_in_refusal": stats["halted"], "behaviours_running_to_completion": stats["behaviours"] - stats["halted"],
           "access_paths": stats["paths"], "simulator_refusals_checked": rep["refused_checked"],
           "samples": [sample], "behaviour_stats": stats,
           "rule": "QRuntime keeps the evaluator flag and the simulator flag as separate variables (invariant FlagsAgree, LastAgrees "
                   "checked exhaustively in small scope); in every generated behaviour each gate / cx / measure names its qubit "
                   "through one of: variable, array element, object field, @quantum function parameter, static method parameter, "
                   "bare or this-qualified field inside an instance method (also inherited). The specification says for each statement "
                   "whether it must be refused: the implementation must stop exactly there with a located runtime error about the "
                   "measured qubit, and must never refuse otherwise (reset, re-allocation and destroy/re-use make the qubit usable); "
                   "both flag tables are compared at the end. Simulator graph: every operation on a flagged qubit must throw and leave "
                   "state, flags and log untouched; measure sets exactly one flag; reset clears exactly one."}
    vlib.write_evidence(PID, tier, seed, "model_checking", cov,
                        ["line of the diagnostic is compared only when the offending operation is written directly in main "
                         "(inside helpers the location is the helper's statement)"],
                        time.time() - t0, len(viol) + nsim)
    return out.finish()
