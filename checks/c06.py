"""C06 - a measured qubit cannot be operated on until reset, through any access path."""
import time

import qrt_common
import qsim_common
import vlib

PID = "C06"


# Second names for one qubit ('qubit b = a;', a qubit returned by a function, a parameter): QRuntime does not generate handle copies
# (what they denote is C03's known finding), but whatever they denote, the flag rule is unchanged - a measured qubit is refused with a
# located diagnostic through every name until it is reset, declarations made in between do not un-flag it, and a qubit nobody
# measured is never refused. (program, line of the statement that must be refused or 0 = must run to completion)
SECOND = "function second(qubit[] r) -> qubit { return r[1]; }\nfunction poke(qubit p) -> void { h(p); }\nclass Q { public qubit q; public constructor() -> Q = default; }\n"
STATICQ = "static class Reg { public static qubit anc; public static qubit[2] pair; }\n"
ALIAS_PROBES = [
    ("measured, named twice, gate", SECOND + "function main() -> void {\n qubit a;\n measure a;\n qubit b = a;\n h(a);\n}\n", 8),
    ("measured, named twice, later declaration, gate", SECOND + "function main() -> void {\n qubit a;\n measure a;\n qubit b = a;\n qubit c;\n h(a);\n}\n", 9),
    ("measured, named twice, later declarations, gate through the second name", SECOND + "function main() -> void {\n qubit a;\n measure a;\n qubit b = a;\n qubit c;\n qubit[2] d;\n x(b);\n}\n", 10),
    ("measured register element returned by a function", SECOND + "function main() -> void {\n qubit[2] reg;\n measure reg;\n qubit t = second(reg);\n qubit c;\n x(reg[1]);\n}\n", 9),
    ("measured, named twice, later object, gate through a parameter", SECOND + "function main() -> void {\n qubit a;\n measure a;\n qubit b = a;\n Q o = new Q();\n poke(a);\n}\n", -2),
    ("measured, named twice, measured again", SECOND + "function main() -> void {\n qubit a;\n measure a;\n qubit b = a;\n qubit c;\n measure a;\n}\n", 9),
    ("never measured, named twice, others measured", SECOND + "function main() -> void {\n qubit a;\n qubit b = a;\n qubit c;\n measure c;\n qubit d;\n measure d;\n h(a);\n measure a;\n}\n", 0),
    # qubits that exist before main starts (static fields) next to qubits declared afterwards
    ("static qubit untouched while a local is measured", STATICQ + "function main() -> void {\n qubit a;\n measure a;\n h(Reg.anc);\n measure Reg.anc;\n x(Reg.pair[1]);\n measure Reg.pair;\n}\n", 0),
    ("measured static qubit, local reset in between", STATICQ + "function main() -> void {\n measure Reg.anc;\n qubit a;\n measure a;\n reset a;\n h(Reg.anc);\n}\n", 7),
    ("measured static register element", STATICQ + "function main() -> void {\n qubit a;\n measure Reg.pair;\n h(a);\n x(Reg.pair[0]);\n}\n", 6),
    ("static qubits only", STATICQ + "function main() -> void {\n h(Reg.anc);\n measure Reg.anc;\n reset Reg.anc;\n x(Reg.anc);\n measure Reg.anc;\n}\n", 0),
    ("reset between", SECOND + "function main() -> void {\n qubit a;\n measure a;\n qubit b = a;\n reset a;\n qubit c;\n h(a);\n measure a;\n}\n", 0),
]


def alias_probes(out):
    import runner
    res = runner.run_jobs([{"id": i, "src": src, "gc": "none"} for i, (_, src, _) in enumerate(ALIAS_PROBES)])
    bad = 0
    for i, (name, src, line) in enumerate(ALIAS_PROBES):
        r = res[i]
        sh = r["shots"][0] if r.get("shots") else {"status": r["status"], "what": r.get("what", "")}
        why = None
        if r["status"] in ("semantic", "parse"):
            continue             # a front end that refuses second names altogether keeps the rule trivially
        if line == 0:
            if sh["status"] != "ok":
                why = "no operation touches a measured qubit, but the run ends with %s %s" % (sh["status"], sh.get("what", "").strip())
        elif sh["status"] != "runtime" or "measured" not in sh.get("what", ""):
            why = "an operation on a measured qubit must be refused; the run ends with %s %s" % (sh["status"], sh.get("what", "").strip())
        elif sh.get("line", 0) <= 0 or sh.get("col", 0) <= 0:
            why = "the refusal is not located: %s" % sh.get("what", "").strip()
        elif line > 0 and sh["line"] != line:
            why = "the refusal is located at line %d, the offending statement is on line %d" % (sh["line"], line)
        if why:
            bad += 1
            out.violation("second name for one qubit (%s): %s" % (name, why), {"what": why, "case": name, "program": src, "result": r}, "alias%d" % i)
    return bad


def run(tier, seed):
    t0 = time.time()
    out = vlib.Outcome(PID)
    nalias = alias_probes(out)
    stats, by_prop, sample = qrt_common.run(tier, seed)
    viol = by_prop.get(PID, [])
    for v in viol[:5]:
        out.violation(v["what"], v, "beh%d" % v["behaviour"])
    meta, rep = qsim_common.run(tier)
    nsim = rep["viol_by_prop"].get(PID, 0)
    for i, v in enumerate([v for v in rep["violations"] if v["property"] == PID][:3]):
        out.violation(v["what"], {"kind": "qsim-edge", "spec_state": v["state"], "action": v["action"], "what": v["what"]}, "edge%d" % i)
    cov = {"states": stats["exhaustive"]["distinct"] + meta["distinct"],
           "transitions": stats["exhaustive"]["generated"] + meta["generated"],
           "traces_validated_against_impl": stats["behaviours"],
           "behaviours_ending_in_refusal": stats["halted"], "behaviours_running_to_completion": stats["behaviours"] - stats["halted"],
           "access_paths": stats["paths"], "simulator_refusals_checked": rep["refused_checked"],
           "samples": [sample], "behaviour_stats": stats, "second_name_probes": len(ALIAS_PROBES),
           "rule": "QRuntime keeps the evaluator flag and the simulator flag as separate variables (invariant FlagsAgree, LastAgrees "
                   "checked exhaustively in small scope); in every generated behaviour each gate / cx / measure names its qubit "
                   "through one of: variable, array element, object field, @quantum function parameter, static method parameter, "
                   "bare or this-qualified field inside an instance method (also inherited). The specification says for each statement "
                   "whether it must be refused: the implementation must stop exactly there with a located runtime error about the "
                   "measured qubit, and must never refuse otherwise (reset, re-allocation and destroy/re-use make the qubit usable); "
                   "both flag tables are compared at the end. Simulator graph: every operation on a flagged qubit must throw and leave "
                   "state, flags and log untouched; measure sets exactly one flag; reset clears exactly one."}
    vlib.write_evidence(PID, tier, seed, "model_checking", cov,
                        ["line of the diagnostic is compared only when the offending operation is written directly in main "
                         "(inside helpers the location is the helper's statement)"],
                        time.time() - t0, len(viol) + nsim + nalias)
    return out.finish()
