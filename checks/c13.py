"""C13 - the front end is total: any input yields an AST or one categorised diagnostic."""
import binascii
import collections
import concurrent.futures as cf
import json
import os
import random
import re
import shutil
import time

import bsyntax
import gen_core
import gen_obj
import qrender
import runner
import vlib

PID = "C13"
TOKENS = ["int", "long", "float", "bit", "boolean", "string", "char", "qubit", "void", "function", "return", "if", "else", "for", "while",
          "measure", "reset", "final", "default", "class", "public", "private", "protected", "static", "extends", "abstract", "virtual",
          "override", "super", "this", "import", "package", "new", "constructor", "destructor", "destroy", "echo", "null", "true", "false",
          "quantum", "tracked", "shots", "x", "main", "T", "0", "7", "2147483648", "3L", "1.5f", "1.5", "0b", "2b", "\"s\"", "\"unterminated", "'c'",
          "'", "=", "==", "!=", "!", "+", "++", "-", "--", "->", "*", "/", "%", "<", "<=", ">", ">=", "&", "&&", "|", "||", "^", "~", "?", ":",
          ".", ",", ";", "@", "(", ")", "{", "}", "[", "]", "#", "$", "//", "\\"]
GOOD = "function main() -> void { int sentinel = 1; echo(sentinel + 1); }\n"
BAD = "function main() -> void { int sentinel = 1; sentinel = undeclared_name; }\n"


def seeds(seed, tier):
    n = 12 if tier == "quick" else 60
    out = [bsyntax.render(p) for p in gen_core.random_programs(seed, n)] + [bsyntax.render(p, ctor_return_this=True) for p in gen_obj.programs(seed, n)]
    out.append(qrender.PRELUDE + "function main() -> void {\n  @tracked qubit[2] r;\n  h(r[0]);\n  cx(r[0], r[1]);\n  measure r;\n  Q1 o = new Q1();\n  o.ogate(0, 0.0f);\n}\n")
    out.append("@shots(3)\nfunction main() -> void { @tracked qubit q; h(q); bit b = measure q; b ? echo(1); : echo(0); }\n")
    ex = os.path.join(vlib.REPO, "examples")
    if os.path.isdir(ex):
        for fn in sorted(os.listdir(ex)):
            if fn.endswith(".bloch"):
                out.append(open(os.path.join(ex, fn), errors="replace").read())
    return out


SMALL = [
    "function main() -> void { int[] a = {1, 2}; int i = 0; a[1] = a[i] + 2; echo(a[0]); }\n",
    "class Base { public int k = 1; public constructor() -> Base = default; }\n"
    "class Box<T extends Base> { public T v; public constructor(T x) -> Box<T> { this.v = x; } "
    "public function get() -> Base { Base b = this.v; return b; } public function put(Base b) -> void { T t = this.v; this.v = t; } }\n"
    "function main() -> void { Box<Base> bx = new Box<Base>(new Base()); echo(bx.get().k); }\n",
    "@shots(2)\nfunction main() -> void { @tracked qubit[2] r; h(r[0]); cx(r[0], r[1]); bit b = measure r[1]; b ? echo(1); : echo(0); reset r[0]; }\n",
    "class A { private final int n; public static int c = 0; public constructor(int v) -> A { this.n = v; } "
    "public virtual function f(long x) -> long { return x + this.n; } public destructor() -> void { echo(\"d\"); } }\n"
    "class B extends A { public constructor() -> B { super(2); } public override function f(long x) -> long { return super.f(x) * 2L; } }\n"
    "function main() -> void { A a = new B(); echo(a.f(1)); destroy a; float q = (float)3 / 2; }\n",
    "import bloch.lang.Object;\nfunction helper(string s, char c) -> string { for (int i = 0; i < 2; i = i + 1) { while (false) { } } return s + 1; }\n"
    "function main() -> void { echo(helper(\"a\", 'b')); final long big = 9000000000L; }\n",
]


MAIN = "function main() -> void { echo(1); }\n"
# programs analysed FIRST on a shared analyser: they define names / stop analysis in the middle of some context
POISON = [
    "function f() -> void { }\n" + MAIN,
    "function f() -> int { return 1; }\n" + MAIN,
    "function f(int a, int b) -> string { return \"s\"; }\n" + MAIN,
    "class K { public int z = 1; public constructor() -> K = default; public function m() -> int { return 1; } }\nfunction f() -> K { return new K(); }\n" + MAIN,
    "class K<T> { public T v; public constructor(T x) -> K<T> { this.v = x; } }\nfunction main() -> void { K<int> k = new K<int>(1); echo(k.v); }\n",
    "class K { public int z = 1; public constructor() -> K = default; public static function s() -> int { return this.z; } }\n" + MAIN,
    "class K { public final int a; public constructor() -> K { if (true) { this.a = 1; } } }\n" + MAIN,
    "class K { public final int a; public final int b; public constructor() -> K { this.a = 1; this.b = nosuch; } }\n" + MAIN,
    "function f() -> int { return \"s\"; }\n" + MAIN,
    "class K<T> { public T v; public constructor() -> K<T> { this.v = 1; } }\n" + MAIN,
    "function main() -> void { for (int i = 0; i < 1; i = i + 1) { { int q = nosuch; } } }\n",
    "class K { public int z = 1; public constructor() -> K = default; public destructor() -> void { int q = nosuch; } }\n" + MAIN,
    "function f( -> void { }\n" + MAIN,
    "function f() -> void { string s = \"unterminated; }\n" + MAIN,
    "@shots(3)\nfunction main() -> void { @tracked qubit q; h(q); }\n@quantum\nfunction f() -> bit { qubit q; bit b = measure q; return b; }\n",
    "class K { public int z = 1; public constructor() -> K = default; public function m(int T) -> int { int i = 0; int q = 1; return i + q + T; } }\n"
    "function main() -> void { int i = 0; int q = 0; K T = new K(); echo(T.m(i + q)); }\n",
    "class K { public virtual function f() -> int; public constructor() -> K = default; }\nfunction main() -> void { K k = new K(); }\n",
]
# programs analysed NEXT: their verdict must be the one a fresh analyser gives
SENSITIVE = [
    "function main() -> void { f(); }\n",
    "function main() -> void { int x = f(); echo(x); }\n",
    "function main() -> void { string x = f(1, 2); echo(x); }\n",
    "class C { public constructor() -> C = default; public function f() -> int { return 1; } public function g() -> int { int x = f(); return x; } }\n" + MAIN,
    "class C { public constructor() -> C = default; public function f() -> string { return \"a\"; } public function g() -> string { return f(); } }\n" + MAIN,
    "class C { public constructor() -> C = default; public function f() -> void { } public function g() -> void { f(); } }\n" + MAIN,
    "class C { public constructor() -> C = default; public function f(int a) -> int { return a; } public function g() -> int { return f(2); } }\n" + MAIN,
    "function main() -> void { K k = new K(); }\n",
    "class K { public string z = \"a\"; public constructor() -> K = default; }\nfunction main() -> void { K k = new K(); string s = k.z; echo(s); }\n",
    "class K { public constructor() -> K = default; }\nfunction main() -> void { K k = new K(); echo(k.z); }\n",
    "function g(T x) -> void { }\n" + MAIN,
    "class F { public final int a; public constructor() -> F { this.a = 1; } }\nfunction main() -> void { F x = new F(); echo(x.a); }\n",
    "class I { public int z = 1; public constructor() -> I = default; public function m() -> int { return this.z; } }\nfunction main() -> void { I x = new I(); echo(x.m()); }\n",
    "function v() -> void { return; }\nfunction w() -> int { return 1; }\nfunction main() -> void { v(); echo(w()); }\n",
    "function main() -> void { int i = 0; int q = 1; int T = 2; int z = 3; int a = 4; int b = 5; echo(i + q + T + z + a + b); }\n",
    "@shots(2)\nfunction main() -> void { echo(1); }\n",
    "class K2<T> { public T v; public constructor(T x) -> K2<T> { this.v = x; } }\nfunction main() -> void { K2<string> k = new K2<string>(\"a\"); echo(k.v); }\n",
    "class S { public static int c = 0; public constructor() -> S = default; public static function s() -> int { return c; } public function m() -> int { return this.q(); } "
    "private function q() -> int { return 2; } }\nfunction main() -> void { echo(S.s()); }\n",
    "function main() -> void { int x = m(); }\n",
    "function main() -> void { bit b = f(); echo(b); }\n",
]


def reuse_matrix():
    """(violations, pairs): every SENSITIVE program analysed on a shared analyser right after every POISON program must get the verdict a
    fresh analyser gives it"""
    fresh = runner.run_jobs([{"id": i, "stage": "front", "src": s_} for i, s_ in enumerate(SENSITIVE)], variant="asan")
    jobs = []
    meta = {}
    for pi, p1 in enumerate(POISON):
        for si, p2 in enumerate(SENSITIVE):
            jobs.append({"id": len(jobs), "stage": "front", "src": p1, "reuse_analyser": True, "timeout_ms": 5000})
            meta[len(jobs)] = (pi, si)
            jobs.append({"id": len(jobs), "stage": "front", "src": p2, "reuse_analyser": True, "timeout_ms": 5000})
    res = runner.run_jobs(jobs, variant="asan", procs=1, per_job_timeout=8)
    bad = []
    for jid, (pi, si) in meta.items():
        r, f = res[jid], fresh[si]
        if (r["status"], r.get("what", "")) != (f["status"], f.get("what", "")):
            bad.append({"what": "analyser reuse: after analysing program #1 the SAME analyser judges program #2 as '%s' (%s); a fresh analyser says '%s' (%s)"
                                % (r["status"], r.get("what", "").strip()[:120], f["status"], f.get("what", "").strip()[:120]),
                        "first": POISON[pi], "second": SENSITIVE[si], "reused": r, "fresh": f})
    return bad, len(meta)


def nested(depth):
    a = "function main() -> void { echo(" + "(" * depth + "1" + ")" * depth + "); }\n"
    b = "function main() -> void " + "{ " * depth + "echo(1);" + " }" * depth + "\n"
    c = "function main() -> void { int[] a = {1}; echo(" + "a[" * depth + "0" + "]" * depth + "); }\n"
    d = "function main() -> void { " + "if (true) { " * depth + "echo(1);" + " }" * depth + " }\n"
    e = "function main() -> void { echo(" + "-" * depth + "1); echo(" + "!" * depth + "true); }\n"
    f = "function main() -> void { echo(" + "(" * depth + "1" + ")" * (depth - 1) + "); }\n"
    g = "class A<T> { public constructor() -> A<T> = default; }\nfunction main() -> void { A<" + "A<" * min(depth, 30) + "int" + ">" * min(depth, 30) + "> v = null; }\n"
    h = "function f(int n) -> int { return " + "f(" * depth + "1" + ")" * depth + "; }\nfunction main() -> void { }\n"
    return [a, b, c, d, e, f, g, h]


def flat(width):
    """wide, unnested constructs: one flat chain of `width` operands per binary operator (literals, variables, mixed numeric types,
    strings), argument / element / parameter lists, call and member chains - analysis time must stay proportional to the width"""
    out = []
    head = "function main() -> void { int a = 1; int b = 2; long w = 3L; float f = 1.5f; string s = \"s\"; bit t = 1b; boolean y = true; "
    for op in ("+", "-", "*", "/", "%", "&", "|", "^", "&&", "||", "==", "<"):
        for operands in (["1"], ["a", "b"], ["a", "w", "f"], ["t"], ["y"], ["s", "a"], ["a", "s"]):
            chain = (" %s " % op).join(operands[i % len(operands)] for i in range(width))
            out.append(head + "echo(%s); }\n" % chain)
            out.append(head + "int r = %s; }\n" % chain)
    args = ", ".join(str(i) for i in range(width))
    pars = ", ".join("int p%d" % i for i in range(width))
    out.append("function g(%s) -> int { return p0; }\nfunction main() -> void { echo(g(%s)); }\n" % (pars, args))
    out.append("function main() -> void { int[] xs = {%s}; echo(xs[0]); }\n" % args)
    out.append("class N { public N next; public int v = 1; public constructor() -> N = default; public function me() -> N { return this; } }\n"
               "function main() -> void { N n = new N(); echo(n%s.v); echo(n%s.v); }\n" % (".next" * width, ".me()" * width))
    out.append("function main() -> void { %s echo(v0); }\n" % " ".join("int v%d = %d;" % (i, i) for i in range(width)))
    out.append("function main() -> void { int x = 0; %s echo(x); }\n" % " ".join("x = x + %d;" % i for i in range(width)))
    return out


def cycles():
    """inheritance cycles of length 1-3 (also through generic bases) next to every kind of use of the classes on the cycle: field,
    parameter and return types, arguments of bounded / unbounded generic classes, parameters of '= default' constructors, 'new',
    static members, overrides. Analysis must end (with one Semantic diagnostic), whatever is looked at first."""
    out = []
    rings = [
        "class A extends A { public constructor() -> A = default; }\n",
        "class A extends B { public constructor() -> A = default; }\nclass B extends A { public constructor() -> B = default; }\n",
        "class A extends B { public constructor() -> A = default; }\nclass B extends C { public constructor() -> B = default; }\nclass C extends A { public constructor() -> C = default; }\n",
        "class A extends G<A> { public constructor() -> A = default; }\nclass G<T> extends A { public constructor() -> G<T> = default; }\n",
        "class A extends B { public constructor() -> A = default; public virtual function f() -> int { return 1; } }\n"
        "class B extends A { public constructor() -> B = default; public override function f() -> int { return super.f(); } }\n",
    ]
    helpers = ("class Zed { public constructor() -> Zed = default; }\nclass Box<T extends Zed> { public T v; public constructor() -> Box<T> = default; }\n"
               "class Bag<T> { public T v; public constructor() -> Bag<T> = default; }\nclass Pen<T extends A> { public constructor() -> Pen<T> = default; }\n")
    uses = [
        "",
        "class Holder { public Box<A> b; public constructor(Box<A> b) -> Holder = default; }\n",
        "class Holder { public Bag<A> b; public constructor(Bag<A> b) -> Holder = default; }\n",
        "class Holder { public Pen<A> b; public constructor(Pen<A> b) -> Holder = default; }\n",
        "class Holder { public A a; public constructor(A a) -> Holder = default; public function get() -> A { return a; } }\n",
        "class Holder extends Box<A> { public constructor() -> Holder { super(); } }\n",
        "class Holder extends Bag<A> { public constructor() -> Holder { super(); } }\n",
        "class Holder { public static A s = null; public constructor() -> Holder = default; public static function mk() -> A { return new A(); } }\n",
        "function take(A a, Box<A> b, Bag<Bag<A>> c) -> A { return a; }\n",
    ]
    mains = ["function main() -> void { }\n", "function main() -> void { A a = new A(); Zed z = a; echo(1); }\n", "function main() -> void { Box<A> b = new Box<A>(); Pen<A> p = new Pen<A>(); }\n"]
    # hierarchies that are acyclic by name but not once instantiated (a generic class whose base is its own type parameter, extended
    # with itself as the argument), next to assignability questions that walk the instantiated chain
    selfp = ("class T { public constructor() -> T = default; }\nclass Other { public constructor() -> Other = default; }\n"
             "class A<T> extends T { public constructor() -> A<T> = default; }\nclass B<X> extends A<B<X>> { public constructor() -> B<X> = default; }\n")
    for use in ("function main() -> void { B<Other> b = null; Other o = b; }\n", "function main() -> void { B<Other> b = new B<Other>(); T t = b; echo(1); }\n",
                "function f(B<Other> b) -> Other { return b; }\nfunction main() -> void { }\n", "function g(Other o) -> void { }\nfunction main() -> void { B<int> b = null; g(b); }\n",
                "class H { public Other o; public constructor(B<Other> b) -> H { this.o = b; } }\nfunction main() -> void { }\n",
                "function main() -> void { A<Other> a = null; B<Other> b = null; a = b; Other o = a; }\n"):
        out.append(selfp + use)
        out.append(use.replace("function main", "function main0") + selfp + "function main() -> void { }\n")
    for r in rings:
        for u in uses:
            for m in mains:
                for order in (0, 1, 2):
                    parts = [helpers, r, u]
                    parts = parts[order:] + parts[:order]
                    out.append("".join(parts) + m)
    # lassos: classes that inherit INTO a cycle without being on it (tails of length 1 and 2, hanging off any member of the ring),
    # in every declaration order of the classes - which class the analyser's tables yield first must not matter
    import itertools
    def cls(n, b):
        return "class %s extends %s { public constructor() -> %s = default; }\n" % (n, b, n)
    for ring in ([("A", "A")], [("A", "B"), ("B", "A")], [("A", "B"), ("B", "C"), ("C", "A")]):
        members = [n for n, _ in ring]
        for at in members:
            for tails in ([("T1", at)], [("T1", at), ("T2", "T1")], [("T1", at), ("T2", at)]):
                decls = [cls(n, b) for n, b in ring + tails]
                for perm in itertools.permutations(decls):
                    for m in ("function main() -> void { }\n", "function main() -> void { T1 t = new T1(); echo(1); }\n"):
                        out.append("".join(perm) + m)
    return out


def run(tier, seed):
    t0 = time.time()
    out = vlib.Outcome(PID)
    rnd = random.Random(seed)
    srcs = seeds(seed, tier)
    # token lists of the seeds (through the real lexer)
    lex = runner.run_jobs([{"id": i, "stage": "lex", "src": s} for i, s in enumerate(srcs)])
    inputs = []           # (kind, text or bytes)
    krep = 1 if tier == "quick" else 12
    # small seeds: EVERY token of the alphabet inserted before / substituted for / every position, and every deletion
    slex = runner.run_jobs([{"id": i, "stage": "lex", "src": s} for i, s in enumerate(SMALL)])
    for i, s in enumerate(SMALL):
        toks = [t["v"] for t in slex[i]["tokens"] if t["v"] != ""]
        inputs.append(("seed", s))
        for k in range(len(toks) + 1):
            for tk in TOKENS:
                inputs.append(("insert", " ".join(toks[:k] + [tk] + toks[k:])))
                if k < len(toks):
                    inputs.append(("replace", " ".join(toks[:k] + [tk] + toks[k + 1:])))
            if k < len(toks):
                inputs.append(("delete", " ".join(toks[:k] + toks[k + 1:])))
    for i, s in enumerate(srcs):
        if lex[i]["status"] != "ok":
            continue
        toks = [t["v"] for t in lex[i]["tokens"] if t["v"] != ""]
        inputs.append(("seed", s))
        for k in range(len(toks)):
            inputs.append(("delete", " ".join(toks[:k] + toks[k + 1:])))
            for _ in range(krep):
                inputs.append(("replace", " ".join(toks[:k] + [rnd.choice(TOKENS)] + toks[k + 1:])))
                inputs.append(("insert", " ".join(toks[:k] + [rnd.choice(TOKENS)] + toks[k:])))
        step = 7 if tier == "quick" else 1
        for cut in range(0, len(s), step):
            inputs.append(("truncate", s[:cut]))
    # inputs whose last byte is one a token could continue after: every prefix of the seeds that ends in such a byte
    for s in SMALL + srcs[:6]:
        for cut in range(1, len(s) + 1):
            if s[cut - 1] in "/\"'.=<>!&|+-0123456789_@" or s[cut - 1].isalpha() and cut % 5 == 0:
                inputs.append(("open-ended", s[:cut]))
    for tail in ("/", "//", "x /", "1 /", "a = b /", "\"", "'", "'a", "\"ab", "1.", "1.5", "12L", "1b", "@", "@tr", "x &", "x |", "x <", "x =", "x !", "x -", "- >"):
        inputs.append(("open-ended", "function main() -> void { }\n" + tail))
        inputs.append(("open-ended", tail))
    for d in (1, 2, 8, 32, 64):
        for s in nested(d):
            inputs.append(("nested", s))
    for s in cycles():
        inputs.append(("cyclic hierarchy", s))
    # imports that cannot resolve, with names no file system accepts (one component of 300 / 5000 characters, 1200 components)
    for name in ("a" * 300, "a" * 5000, ".".join(["abc"] * 1200) + ".X", "p." + "b" * 300, ".".join(["d" * 200] * 30), "a" * 300 + ".*", ".".join(["abc"] * 1200) + ".*"):
        inputs.append(("unresolvable import", "import %s;\nfunction main() -> void { echo(1); }\n" % name))
        inputs.append(("unresolvable import", "package q;\nimport %s;\nimport %s;\nfunction main() -> void { }\n" % (name, name)))
    for wd in (2, 9, 40, 96):
        for s in flat(wd):
            inputs.append(("flat", s))
    # constant expressions the analyser folds itself (array sizes, final initialisers) at the edge values
    EDGE = ["0", "1", "2", "-1", "-2", "2147483647", "-2147483647", "(-2147483647 - 1)", "65536", "-65536"]
    for a in EDGE:
        for b in EDGE:
            for op in ("+", "-", "*", "/", "%"):
                e = "%s %s %s" % (a, op, b)
                inputs.append(("constexpr", "function main() -> void { int[%s] a; echo(1); }\n" % e))
                inputs.append(("constexpr", "function main() -> void { final int n = %s; int[n] a; echo(n); }\n" % e))
                inputs.append(("constexpr", "function main() -> void { final int n = %s; final int m = (int)(n %s %s); int[-(m)] a; }\n" % (a, op, b)))
                inputs.append(("constexpr", "class K { public int[%s] f; public constructor() -> K = default; }\nfunction main() -> void { K k = new K(); }\n" % e))
    nrand = 1500 if tier == "quick" else 30000
    for _ in range(nrand):
        n = rnd.randint(0, 256)
        inputs.append(("bytes", bytes(rnd.randrange(256) for _ in range(n))))
    for _ in range(nrand):
        n = rnd.randint(1, 60)
        inputs.append(("tokens", " ".join(rnd.choice(TOKENS) for _ in range(n))))
    # persistent analyser, sentinels interleaved
    jobs = []
    meta = {}
    for kind, data in inputs:
        if len(jobs) % 50 == 0:
            for want, src in (("ok", GOOD), ("semantic", BAD)):
                jid = len(jobs)
                meta[jid] = ("sentinel", want)
                jobs.append({"id": jid, "stage": "front", "src": src, "reuse_analyser": True, "timeout_ms": 5000})
        jid = len(jobs)
        meta[jid] = (kind, None)
        # view_check: the source is first lexed from an exact-size buffer and from the front of larger buffers (the result may not
        # depend on bytes outside the view)
        j = {"id": jid, "stage": "front", "reuse_analyser": True, "timeout_ms": 5000, "view_check": True}
        if isinstance(data, bytes):
            j["src_hex"] = binascii.hexlify(data).decode()
        else:
            j["src"] = data
        jobs.append(j)
    # consecutive chunks per process keep the analyser history meaningful
    res = runner.run_jobs(jobs, variant="asan", per_job_timeout=8, procs=16)   # job k runs in process k % 16
    NPROC = 16
    events = [[] for _ in range(NPROC)]      # one log per process: job k ran in process k % NPROC, in order
    term = collections.Counter()
    bad = []
    for n, j in enumerate(jobs):
        r = res[j["id"]]
        kind, want = meta[j["id"]]
        st = r["status"]
        ev = {"ok": "accepted", "lexical": "lexical", "parse": "parse", "semantic": "semantic"}.get(st)
        if st == "crash":
            ev = "sanitizer" if ("Sanitizer" in r.get("stderr", "") or "runtime error:" in r.get("stderr", "")) else "signal"
        elif ev is None:
            ev = {"timeout": "timeout", "generic": "uncategorised", "runtime": "runtime_in_front_end"}.get(st, "raw_exception")
        log = events[n % NPROC]
        if kind == "sentinel":
            log.append({"e": "sentinel", "want": want, "got": st})
            if st != want:
                bad.append((j, "after the previous inputs the analyser judges a known %s program as '%s' (%s)" % (want, st, r.get("what", "").strip()[:150]), r))
            continue
        term[ev] += 1
        log.append({"e": "begin"})
        log.append({"e": ev})
        if ev not in ("accepted", "lexical", "parse", "semantic"):
            detail = (r.get("what") or r.get("stderr", ""))[-300:].strip()
            bad.append((j, "%s input: front end ended with '%s' instead of an AST or one categorised diagnostic (%s)" % (kind, ev, detail), r))
    tmp = vlib.scratch("frontlife")
    try:
        def validate(k):
            tf = os.path.join(tmp, "trace%d.ndjson" % k)
            with open(tf, "w") as f:
                for e in events[k]:
                    f.write(json.dumps(e) + "\n")
            t = vlib.tlc("RunLifecycle.tla", os.path.join(vlib.SPEC, "RunLifecycle.cfg"), env={"RUN_TRACE": tf}, workers=1, timeout=3000, heap="3g")
            if t.error or (t.violated and t.violated != "NotAccepted"):
                raise vlib.Infra("RunLifecycle: %s\n%s" % (t.violated, t.out[-1500:]))
            return t
        with cf.ThreadPoolExecutor(max_workers=8) as ex:
            trs = list(ex.map(validate, [k for k in range(NPROC) if events[k]]))
        accepted = all(t.violated == "NotAccepted" for t in trs)
    finally:
        shutil.rmtree(tmp, ignore_errors=True)
    if accepted and bad:
        raise vlib.Infra("front-end log accepted by RunLifecycle although %d inputs left the envelope" % len(bad))
    if not accepted and not bad:
        raise vlib.Infra("front-end log rejected by RunLifecycle although every input stayed in the envelope")
    # diagnostics as the user sees them: exactly one 'Stopping...' line and one categorised line, status 1
    ncli = 60 if tier == "quick" else 600
    rejected = [j for j in jobs if meta[j["id"]][0] != "sentinel" and res[j["id"]]["status"] in ("lexical", "parse", "semantic") and "src" in j]
    cli_checked = 0
    for j in rnd.sample(rejected, min(ncli, len(rejected))):
        rr = runner.run_cli(["main.bloch"], {"main.bloch": j["src"]})
        cli_checked += 1
        err = re.sub(r"\x1b\[[0-9;]*m", "", rr["stderr"])
        cat = re.findall(r"^(Lexical|Parse|Semantic) error", err, re.M)
        stop = err.count("Stopping program execution")
        if rr["rc"] != 1 or len(cat) != 1 or stop != 1:
            bad.append((j, "CLI: rejected input must give status 1 with exactly one categorised diagnostic; got status %d, %d diagnostics %s" % (rr["rc"], len(cat), err[-200:]), rr))
    rbad, npairs = reuse_matrix()
    for k, b in enumerate(rbad[:6]):
        out.violation(b["what"], b, "reuse%d" % k)
    for n, (j, msg, r) in enumerate(bad[:8]):
        out.violation(msg, {"what": msg, "input": j.get("src", j.get("src_hex")), "hex": "src_hex" in j, "result": r}, "in%d" % j["id"])
    cov = {"states": sum(t.distinct for t in trs), "transitions": sum(t.generated for t in trs), "process_logs_validated": len(trs), "traces_validated_against_impl": sum(term.values()),
           "inputs_by_kind": dict(collections.Counter(k for k, _ in inputs)), "terminal_events": dict(term),
           "sentinels": sum(1 for v in meta.values() if v[0] == "sentinel"), "reuse_pairs": npairs, "cli_diagnostics_checked": cli_checked,
           "samples": [{"kind": inputs[200][0], "input": str(inputs[200][1])[:300]}],
           "rule": "every single-token deletion, and seeded replacements and insertions (over a 100-token alphabet incl. out-of-range and malformed "
                   "literals) at every token position of valid seed programs (generated classical, class, quantum programs and the repository's "
                   "examples), byte-prefix truncations, nested parentheses / blocks / indices / unary chains / generic arguments / calls to depth 64, "
                   "random byte strings <= 256 bytes and random token strings; all fed to ONE persistent SemanticAnalyser per process (ASan+UBSan "
                   "build, 5 s watchdog) with a known-good and a known-bad sentinel every 50 inputs. The event log (begin, terminal event, sentinel "
                   "verdicts) is validated by TLC against RunLifecycle.tla, which admits only accepted / lexical / parse / semantic."}
    vlib.write_evidence(PID, tier, seed, "model_checking", cov,
                        ["import loading is exercised with single-file inputs here (multi-file trees: C19)"], time.time() - t0, len(bad) + len(rbad))
    return out.finish()
