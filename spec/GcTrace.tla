------------------------------- MODULE GcTrace -------------------------------
(* Trace validation (impl -> spec) of the timer / interpreter events recorded from real runs of class-using
   programs (BLOCH_VERIF event sink, TSan build, timer period shortened). Logged events are bound to GcProtocol
   actions; unlogged steps (Wake, Check, Finish, Throw) are silent. A log is accepted iff every line is consumed.
   Several runs are concatenated, separated by {"e":"reset"}.                                                 *)
EXTENDS GcProtocol, Json, IOUtils
Tr == ndJsonDeserialize(IOEnv.GC_TRACE)
VARIABLE l
tv == <<gv, l>>
IsEv(name) == l <= Len(Tr) /\ Tr[l].e = name /\ l' = l + 1
Silent(A) == A /\ UNCHANGED l
TInit == Init /\ l = 1
\* the timer thread never collects, and every event of the timer thread carries thread tag 1
TStart   == IsEv("timer_start") /\ Tr[l].th = 0 /\ Start
TTick    == IsEv("tick") /\ Tr[l].th = 1 /\ Set
TRequest == IsEv("request") /\ Tr[l].th = 0 /\ Request
TCollect == IsEv("collect") /\ Tr[l].th = 0 /\
            \/ (ipc = "run" /\ gcRequested /\ Boundary)
            \/ (ipc = "final" /\ gcRequested /\ FinalCollect)
TExit    == IsEv("timer_exit") /\ Tr[l].th = 1 /\ Exit
TJoin    == IsEv("join") /\ Tr[l].th = 0 /\ Join
\* end of the run as seen by the harness. After a normal end the final collector call has happened: it logs a
\* 'collect' only if there were objects left, so both cases are admitted.
TEnd     == IsEv("end") /\ ((ipc = "done" /\ UNCHANGED gv) \/ (ipc = "final" /\ FinalCollect))
TReset   == IsEv("reset") /\ ipc = "done" /\ timer \in {"none", "joined"}
            /\ gcRequested' = FALSE /\ stopGc' = FALSE /\ timer' = "none" /\ tpc' = "idle" /\ ipc' = "init" /\ hist' = <<>> /\ collectedBy' = {}
TNext == TStart \/ TTick \/ TRequest \/ TCollect \/ TExit \/ TJoin \/ TEnd \/ TReset
         \/ Silent(Wake) \/ Silent(Check) \/ Silent(Finish) \/ Silent(Throw)
TSpec == TInit /\ [][TNext]_tv
NotAccepted == l <= Len(Tr)        \* INVARIANT: violated  <=>  the whole log is explained by the specification
=============================================================================
