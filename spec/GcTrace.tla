------------------------------- MODULE GcTrace -------------------------------
(* Trace validation (impl -> spec) of the timer / interpreter events recorded from real runs of class-using
   programs (BLOCH_VERIF event sink, TSan build, timer period shortened). Logged events are bound to GcProtocol
   actions; unlogged steps (Wake, Check, Finish, Throw) are silent. A log is accepted iff every line is consumed.
   Several runs are concatenated, separated by {"e":"reset"}.                                                 *)
EXTENDS GcProtocol, Json, IOUtils
Tr == ndJsonDeserialize(IOEnv.GC_TRACE)
VARIABLES l, tk          \* tk: the timer has logged 'tick' for the Set it is about to perform
tv == <<gv, l, tk>>
IsEv(name) == l <= Len(Tr) /\ Tr[l].e = name /\ l' = l + 1
Silent(A) == A /\ UNCHANGED <<l, tk>>
TInit == Init /\ l = 1 /\ tk = FALSE
\* the timer thread never collects, and every event of the timer thread carries thread tag 1
TStart   == IsEv("timer_start") /\ Tr[l].th = 0 /\ Start /\ UNCHANGED tk
\* the hook logs 'tick' BEFORE the timer sets the flag (so that a collection that saw the flag is always logged after
\* the tick): the log line is consumed while the timer is about to set, the Set itself is a later silent step
TTick    == IsEv("tick") /\ Tr[l].th = 1 /\ timer = "running" /\ tpc = "setting" /\ ~tk /\ tk' = TRUE /\ UNCHANGED gv
TSet     == tk /\ Set /\ tk' = FALSE /\ UNCHANGED l
TRequest == IsEv("request") /\ Tr[l].th = 0 /\ Request /\ UNCHANGED tk
TCollect == IsEv("collect") /\ Tr[l].th = 0 /\ UNCHANGED tk /\
            \/ (ipc = "run" /\ gcRequested /\ Boundary)
            \/ (ipc = "final" /\ gcRequested /\ FinalCollect)
TExit    == IsEv("timer_exit") /\ Tr[l].th = 1 /\ Exit /\ UNCHANGED tk
TJoin    == IsEv("join") /\ Tr[l].th = 0 /\ Join /\ UNCHANGED tk
\* end of the run as seen by the harness. After a normal end the final collector call has happened: it logs a
\* 'collect' only if there were objects left, so both cases are admitted.
TEnd     == IsEv("end") /\ UNCHANGED tk /\ ((ipc = "done" /\ UNCHANGED gv) \/ (ipc = "final" /\ FinalCollect))
TReset   == IsEv("reset") /\ ipc = "done" /\ timer \in {"none", "joined"}
            /\ gcRequested' = FALSE /\ stopGc' = FALSE /\ timer' = "none" /\ tpc' = "idle" /\ ipc' = "init" /\ hist' = <<>> /\ collectedBy' = {}
            /\ tk' = FALSE
TNext == TStart \/ TTick \/ TSet \/ TRequest \/ TCollect \/ TExit \/ TJoin \/ TEnd \/ TReset
         \/ Silent(Wake) \/ Silent(Check) \/ Silent(Finish) \/ Silent(Throw)
TSpec == TInit /\ [][TNext]_tv
NotAccepted == l <= Len(Tr)        \* INVARIANT: violated  <=>  the whole log is explained by the specification
=============================================================================
