-------------------------------- MODULE Wide --------------------------------
(***************************************************************************)
(* 64-bit signed integers for the reference semantics: TLC's own integers  *)
(* are 32 bit, so Bloch `long` values beyond that are carried as           *)
(* [neg : BOOLEAN, m : Seq(0..9999)]  - magnitude in base 10^4, little     *)
(* endian, no leading zero limb (zero is [neg |-> FALSE, m |-> <<>>]).     *)
(* Only what the documentation fixes for large values is provided:         *)
(* comparison, equality, +, - and * (while the result fits), negation and  *)
(* decimal printing.                                                       *)
(***************************************************************************)
EXTENDS Integers, Sequences, TLC
Base == 10000
RECURSIVE Limbs(_)
Limbs(n) == IF n = 0 THEN <<>> ELSE <<n % Base>> \o Limbs(n \div Base)       \* n >= 0
WFromInt(n) == IF n < 0 THEN [neg |-> TRUE, m |-> Limbs(-n)] ELSE [neg |-> FALSE, m |-> Limbs(n)]
WZero == [neg |-> FALSE, m |-> <<>>]
RECURSIVE Strip(_)
Strip(m) == IF m # <<>> /\ m[Len(m)] = 0 THEN Strip(SubSeq(m, 1, Len(m) - 1)) ELSE m
Norm(neg, m) == LET s == Strip(m) IN [neg |-> neg /\ s # <<>>, m |-> s]
\* magnitude comparison: -1 / 0 / 1
RECURSIVE CmpFrom(_,_,_)
CmpFrom(a, b, i) == IF i = 0 THEN 0 ELSE IF a[i] < b[i] THEN -1 ELSE IF a[i] > b[i] THEN 1 ELSE CmpFrom(a, b, i - 1)
CmpAbs(a, b) == IF Len(a) < Len(b) THEN -1 ELSE IF Len(a) > Len(b) THEN 1 ELSE CmpFrom(a, b, Len(a))
Limb(m, i) == IF i <= Len(m) THEN m[i] ELSE 0
RECURSIVE AddAbsFrom(_,_,_,_)
AddAbsFrom(a, b, i, carry) ==
   IF i > Len(a) /\ i > Len(b) THEN (IF carry = 0 THEN <<>> ELSE <<carry>>)
   ELSE LET s == Limb(a, i) + Limb(b, i) + carry IN <<s % Base>> \o AddAbsFrom(a, b, i + 1, s \div Base)
AddAbs(a, b) == AddAbsFrom(a, b, 1, 0)
RECURSIVE SubAbsFrom(_,_,_,_)
SubAbsFrom(a, b, i, borrow) ==        \* a >= b
   IF i > Len(a) THEN <<>>
   ELSE LET d == Limb(a, i) - Limb(b, i) - borrow IN
        IF d < 0 THEN <<d + Base>> \o SubAbsFrom(a, b, i + 1, 1) ELSE <<d>> \o SubAbsFrom(a, b, i + 1, 0)
SubAbs(a, b) == Strip(SubAbsFrom(a, b, 1, 0))
WNeg(x) == Norm(~x.neg, x.m)
WAdd(x, y) == IF x.neg = y.neg THEN Norm(x.neg, AddAbs(x.m, y.m))
              ELSE LET c == CmpAbs(x.m, y.m) IN
                   IF c = 0 THEN WZero ELSE IF c > 0 THEN Norm(x.neg, SubAbs(x.m, y.m)) ELSE Norm(y.neg, SubAbs(y.m, x.m))
WSub(x, y) == WAdd(x, WNeg(y))
\* magnitude times one limb-sized digit d (0..9999), then schoolbook multiplication
RECURSIVE MulDigitFrom(_,_,_,_)
MulDigitFrom(a, d, i, carry) ==
   IF i > Len(a) THEN (IF carry = 0 THEN <<>> ELSE <<carry>>)
   ELSE LET p == a[i] * d + carry IN <<p % Base>> \o MulDigitFrom(a, d, i + 1, p \div Base)
RECURSIVE MulAbsFrom(_,_,_)
MulAbsFrom(a, b, j) ==        \* sum over j of (a * b[j]) shifted by j-1 limbs
   IF j > Len(b) THEN <<>>
   ELSE AddAbs([k \in 1..(j - 1) |-> 0] \o MulDigitFrom(a, b[j], 1, 0), MulAbsFrom(a, b, j + 1))
WMul(x, y) == IF x.m = <<>> \/ y.m = <<>> THEN WZero ELSE Norm(x.neg # y.neg, MulAbsFrom(x.m, y.m, 1))
WLess(x, y) == IF x.neg # y.neg THEN x.neg
               ELSE IF x.neg THEN CmpAbs(x.m, y.m) > 0 ELSE CmpAbs(x.m, y.m) < 0
WEq(x, y) == x = y
\* 2^63 - 1 = 9223 3720 3685 4775 807  ->  limbs (little endian, base 10^4)
MaxLong == <<5807, 5477, 3685, 3720, 922>>
MinLongMag == <<5808, 5477, 3685, 3720, 922>>
WFits(x) == IF x.neg THEN CmpAbs(x.m, MinLongMag) <= 0 ELSE CmpAbs(x.m, MaxLong) <= 0
\* 2^31 - 1 = 21 4748 3647
MaxInt == <<3647, 4748, 21>>
MinIntMag == <<3648, 4748, 21>>
WFitsInt(x) == IF x.neg THEN CmpAbs(x.m, MinIntMag) < 0 ELSE CmpAbs(x.m, MaxInt) <= 0      \* -2^31 itself is left out (TLC cannot negate it)
WToInt32(x) == LET v == Limb(x.m, 1) + Base * Limb(x.m, 2) + Base * Base * Limb(x.m, 3) IN IF x.neg THEN -v ELSE v
\* does it fit TLC's own integers comfortably? (then it is carried as a plain int again)
WSmall(x) == Len(x.m) <= 2
WToInt(x) == LET v == Limb(x.m, 1) + Base * Limb(x.m, 2) IN IF x.neg THEN -v ELSE v
Pad4(n) == LET s == ToString(n) IN IF n < 10 THEN "000" \o s ELSE IF n < 100 THEN "00" \o s ELSE IF n < 1000 THEN "0" \o s ELSE s
RECURSIVE ShowLimbs(_,_)
ShowLimbs(m, i) == IF i = 0 THEN "" ELSE (IF i = Len(m) THEN ToString(m[i]) ELSE Pad4(m[i])) \o ShowLimbs(m, i - 1)
WShow(x) == IF x.m = <<>> THEN "0" ELSE (IF x.neg THEN "-" ELSE "") \o ShowLimbs(x.m, Len(x.m))
=============================================================================
