SPECIFICATION FairSpec
CONSTANTS MaxB = 3
 HasClasses = TRUE
INVARIANTS TypeOK OnlyInterpreterCollects StoppedAtEnd NoTimerWithoutClasses RecordHist
PROPERTIES TimerTouchesOnlyFlag EventuallyDone
CHECK_DEADLOCK FALSE
POSTCONDITION AllSubsetsReachable
