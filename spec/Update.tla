------------------------------- MODULE Update -------------------------------
(***************************************************************************)
(* C20: the self-updater.  Three independent parts:                        *)
(*  (1) versions: ParseSemVer over character sequences, numeric comparison *)
(*      of (major, minor, patch) triples, the decision taken by --update   *)
(*      and by the update notice;                                          *)
(*  (2) ChecksumFor: which line of checksums.txt is used for an asset;     *)
(*  (3) the 72-hour throttle automaton of checkForUpdatesIfDue over the    *)
(*      persistent cache file, the clock and the network as inputs.        *)
(***************************************************************************)
EXTENDS Integers, Sequences, FiniteSets, TLC

(* ---------------- (1) versions ---------------- *)
Digits == <<"0","1","2","3","4","5","6","7","8","9">>
IsDigit(c) == \E i \in 1..10 : Digits[i] = c
DigitVal(c) == (CHOOSE i \in 1..10 : Digits[i] = c) - 1
MaxInt == 2147483647

RECURSIVE DigitRun(_)          \* length of the leading run of digits
DigitRun(s) == IF s = <<>> \/ ~IsDigit(s[1]) THEN 0 ELSE 1 + DigitRun(Tail(s))
\* value of a digit sequence, or -1 if it does not fit a machine int ("cannot parse", never "crash")
RECURSIVE ValAcc(_,_)
ValAcc(ds, acc) == IF ds = <<>> THEN acc
                   ELSE IF acc > (MaxInt - DigitVal(ds[1])) \div 10 THEN -1
                   ELSE ValAcc(Tail(ds), acc * 10 + DigitVal(ds[1]))
Val(ds) == ValAcc(ds, 0)

\* components: up to three decimal numbers separated by single dots; whatever follows is a suffix
RECURSIVE Comps(_,_)
Comps(s, k) ==   \* sequence of component values (possibly containing -1), at most k of them
   IF k = 0 THEN <<>>
   ELSE LET n == DigitRun(s) IN
        IF n = 0 THEN <<>>
        ELSE LET v == Val(SubSeq(s, 1, n))
                 rest == SubSeq(s, n + 1, Len(s))
             IN IF rest # <<>> /\ rest[1] = "." THEN <<v>> \o Comps(Tail(rest), k - 1) ELSE <<v>>
StripV(s) == IF s # <<>> /\ s[1] = "v" THEN Tail(s) ELSE s
ParseSemVer(s) ==
   LET c == Comps(StripV(s), 3) IN
   IF c = <<>> \/ \E i \in 1..Len(c) : c[i] = -1 THEN [valid |-> FALSE, t |-> <<0,0,0>>]
   ELSE [valid |-> TRUE, t |-> <<c[1], IF Len(c) >= 2 THEN c[2] ELSE 0, IF Len(c) >= 3 THEN c[3] ELSE 0>>]

Less(a, b) == \/ a[1] < b[1]
              \/ a[1] = b[1] /\ a[2] < b[2]
              \/ a[1] = b[1] /\ a[2] = b[2] /\ a[3] < b[3]
\* -1 / 0 / 1 : current older / same / newer than latest (0 when either cannot be parsed)
Compare(cur, lat) == IF ~cur.valid \/ ~lat.valid THEN 0
                     ELSE IF Less(cur.t, lat.t) THEN -1 ELSE IF Less(lat.t, cur.t) THEN 1 ELSE 0
StrictlyNewer(cur, lat) == cur.valid /\ lat.valid /\ Less(cur.t, lat.t)
\* what `bloch --update` does once it knows the latest tag
Decision(cur, lat) == IF ~cur.valid \/ ~lat.valid THEN "refuse"
                      ELSE IF Less(cur.t, lat.t) THEN "install" ELSE "already"
Label(cur, lat) == IF lat.t[1] > cur.t[1] THEN "major" ELSE IF lat.t[2] > cur.t[2] /\ lat.t[1] = cur.t[1] THEN "minor" ELSE "patch"

\* laws of the order on triples (checked by TLC over a finite box)
Box == {<<a,b,c>> : a \in 0..2, b \in 0..2, c \in 0..2}
OrderLaws == /\ \A x \in Box : ~Less(x, x)
             /\ \A x, y \in Box : ~(Less(x,y) /\ Less(y,x))
             /\ \A x, y \in Box : x # y => (Less(x,y) \/ Less(y,x))
             /\ \A x, y, z \in Box : (Less(x,y) /\ Less(y,z)) => Less(x,z)
             /\ \A x, y \in Box : Less(x,y) <=> (x[1]*100 + x[2]*10 + x[3] < y[1]*100 + y[2]*10 + y[3])

(* ---------------- (2) checksums ---------------- *)
\* a line is [hash, name]; the checksum used is the one listed for EXACTLY that asset name
RECURSIVE ChecksumFor(_,_)
ChecksumFor(lines, asset) == IF lines = <<>> THEN "none"
                             ELSE IF lines[1].name = asset THEN lines[1].hash
                             ELSE ChecksumFor(Tail(lines), asset)

(* ---------------- (3) throttle automaton ---------------- *)
\* time in units of 20 minutes (so that instants need not be aligned to whole hours: 72 h = 216 units; the harness maps one
\* unit to 1200 s); tags are abstract: the running version is "same"
UnitsPerHour == 3
Window == 72 * UnitsPerHour
\* "newersp" is a newer version whose tag carries a blank-separated suffix ("v1.3.0 beta": suffixes never matter); the cache file
\* keeps a tag as one LINE, so it survives the round trip through the file like any other
Tags == {"older", "same", "newer", "garbage", "newersp"}
NewerTag(tag) == tag \in {"newer", "newersp"}
Expired(tp, now) == now - tp >= Window

\* result of one invocation: [cache, notice]
NoCache == [exists |-> FALSE, checked |-> 0, notified |-> 0, latest |-> ""]
MaybeNotice(c, tag, now) ==       \* returns [cache, printed]
   IF tag # "" /\ Expired(c.notified, now) /\ NewerTag(tag)
   THEN [cache |-> [c EXCEPT !.notified = now, !.latest = tag], printed |-> TRUE]
   ELSE [cache |-> c, printed |-> FALSE]
Invoke(cache, now, disabled, net) ==   \* net = "fail" or a tag;   returns [cache, printed]
   IF disabled THEN [cache |-> cache, printed |-> FALSE]
   ELSE IF cache.exists /\ ~Expired(cache.checked, now)
   THEN MaybeNotice(cache, cache.latest, now)
   ELSE LET m1 == IF cache.exists /\ cache.latest # "" THEN MaybeNotice(cache, cache.latest, now)
                  ELSE [cache |-> cache, printed |-> FALSE]
        IN IF net = "fail" THEN m1
           ELSE LET c2 == [m1.cache EXCEPT !.exists = TRUE, !.latest = net, !.checked = now]
                    m2 == MaybeNotice(c2, net, now)
                IN [cache |-> m2.cache, printed |-> m1.printed \/ m2.printed]
=============================================================================
