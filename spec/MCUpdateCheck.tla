------------------------------ MODULE MCUpdateCheck ------------------------------
(* Update.tla part (2): every checksums.txt of <= 3 lines over similar asset names *)
EXTENDS Update, Json, IOUtils
App(line, file) == Serialize(line \o "\n", file, [format |-> "TXT", charset |-> "UTF-8",
                             openOptions |-> <<"WRITE","CREATE","APPEND">>]).exitValue = 0
(* ---- checksums ---- *)
Names  == {"X.tar.gz", "X.tar.gz.sig", "old-X.tar.gz", "X.tar.gz.asc", "Y.tar.gz", "x.tar.gz", "X.TAR.GZ", "<blank>", "<onecol>"}   \* incl. names that differ in letter case only; <blank> / <onecol> stand for an empty line and a one-column separator line, which list no asset
Hashes == <<"aaaa", "bbbb", "cccc">>
VARIABLE file
CheckInit == file \in UNION {[1..n -> Names] : n \in 0..3}
CheckSpec == CheckInit /\ [][UNCHANGED file]_file
Lines(f) == [i \in 1..Len(f) |-> [hash |-> Hashes[i], name |-> f[i]]]
CheckDump == LET j == ToJson([k |-> "check", names |-> file, expect |-> ChecksumFor(Lines(file), "X.tar.gz")])
             IN Len(j) > 0 /\ App(j, IOEnv.UPD_DUMP)


=============================================================================
