-------------------------------- MODULE Shots --------------------------------
(***************************************************************************)
(* C17: the CLI shot loop - how many shots run (annotation beats flag),    *)
(* whether echo output appears, how the per-shot tracked records (one per  *)
(* scope exit / owner destruction, see QRuntime) are aggregated, and what  *)
(* the printed table contains.                                             *)
(* A case: [flag, ann : 0 = absent | N,  echo : "unset"|"auto"|"all"|"none",*)
(*          shots : Seq(per-shot record lists <<key, outcome>>),           *)
(*          lines : echo lines per shot]                                    *)
(***************************************************************************)
EXTENDS Integers, Sequences, FiniteSets, TLC

NShots(c)   == IF c.ann > 0 THEN c.ann ELSE IF c.flag > 0 THEN c.flag ELSE 1      \* @shots(N) takes precedence over --shots
Provided(c) == c.ann > 0 \/ c.flag > 0
\* echo output appears once per shot exactly when --echo=all or a single shot is run (auto = unset)
EchoOn(c)   == IF c.echo = "all" THEN TRUE ELSE IF c.echo = "none" THEN FALSE ELSE NShots(c) = 1
EchoLines(c) == IF EchoOn(c) THEN NShots(c) * c.lines ELSE 0

Records(c)  == c.recs     \* Seq over shots of Seq of <<key, outcome>>
RECURSIVE CountIn(_,_,_)
CountIn(rs, key, outcome) == IF rs = <<>> THEN 0 ELSE (IF rs[1][1] = key /\ rs[1][2] = outcome THEN 1 ELSE 0) + CountIn(Tail(rs), key, outcome)
RECURSIVE SumShots(_,_,_)
SumShots(shots, key, outcome) == IF shots = <<>> THEN 0 ELSE CountIn(shots[1], key, outcome) + SumShots(Tail(shots), key, outcome)
Keys(c)     == UNION {{r[1] : r \in {shot[i] : i \in 1..Len(shot)}} : shot \in {c.recs[s] : s \in 1..Len(c.recs)}}
Outcomes(c, key) == UNION {{r[2] : r \in {x \in {shot[i] : i \in 1..Len(shot)} : x[1] = key}} : shot \in {c.recs[s] : s \in 1..Len(c.recs)}}
Count(c, key, o) == SumShots(c.recs, key, o)
RECURSIVE SumSet(_,_,_)
SumSet(c, key, S) == IF S = {} THEN 0 ELSE LET o == CHOOSE o \in S : TRUE IN Count(c, key, o) + SumSet(c, key, S \ {o})
Total(c, key) == SumSet(c, key, Outcomes(c, key))
\* probability of an outcome = its count divided by THAT VARIABLE's total, as thousandths rounded half up (table prints 3 decimals)
ProbMilli(c, key, o) == (2000 * Count(c, key, o) + Total(c, key)) \div (2 * Total(c, key))

\* table rows of one key: binary outcomes first (shorter first, then numerically), "?" last
Table(c) == [key \in Keys(c) |-> [o \in Outcomes(c, key) |-> [count |-> Count(c, key, o), prob |-> ProbMilli(c, key, o)]]]

(* ---- design-level laws, checked over every enumerated case ---- *)
ExitsPerShot(c, key, s) == Cardinality({i \in 1..Len(c.recs[s]) : c.recs[s][i][1] = key})
RECURSIVE SumExitsFrom(_,_,_)
SumExitsFrom(c, key, s) == IF s > Len(c.recs) THEN 0 ELSE ExitsPerShot(c, key, s) + SumExitsFrom(c, key, s + 1)
SumExits(c, key) == SumExitsFrom(c, key, 1)
\* each tracked variable contributes exactly one outcome per scope exit of every shot
CountsSum(c) == \A key \in Keys(c) : Total(c, key) = SumExits(c, key)
ProbIsDistribution(c) == \A key \in Keys(c) :
   /\ \A o \in Outcomes(c, key) : Count(c, key, o) >= 0 /\ Count(c, key, o) <= Total(c, key)
   /\ SumSet(c, key, Outcomes(c, key)) = Total(c, key)
AnnotationWins(c) == c.ann > 0 => NShots(c) = c.ann
=============================================================================
