------------------------------ MODULE MCQSim ------------------------------
(***************************************************************************)
(* Bounded exhaustive model of QSim: every state reachable from the empty  *)
(* register with at most MaxN qubits, under every operation on every       *)
(* qubit / ordered pair, rotation angles k*pi/2 (k in 0..7), and draws on  *)
(* the grid {0,1,3,5,7}/8.  Invariants are the design-level content of     *)
(* C01-C04/C06 (simulator half).  DumpInv serialises, for every distinct   *)
(* state, the complete successor table (TLC's state graph, one line per    *)
(* node) for the C++ replay harness.                                       *)
(***************************************************************************)
EXTENDS QSim, Json, IOUtils, Sequences
CONSTANTS MaxN
VARIABLE st

DrawExp  == 3
DrawNums == {0,1,3,5,7}
MidNums  == {1,3,5,7}     \* midpoints of a uniform 4-cell partition of [0,1)

Acts(s) == {<<"alloc",0,0>>}
           \cup {<<g,q,0>> : g \in Gates1, q \in Qubits(s)}
           \cup {<<g,q,k>> : g \in Rots, q \in Qubits(s), k \in 0..7}
           \cup {<<"cx",c,t>> : c \in Qubits(s), t \in Qubits(s)}
           \cup {<<m,q,r>> : m \in {"measure","reset"}, q \in Qubits(s), r \in DrawNums}

Init == st = InitState
Next == \E a \in Acts(st) : Enabled(st,a,MaxN) /\ st' = Step(st,a,DrawExp)
Spec == Init /\ [][Next]_st

(* ---------------- invariants ---------------- *)
TypeOK   == ShapeOK(st)
UnitNorm == UnitNormS(st)
Definite == MeasuredDefinite(st)

GateTablesUnitary ==
   /\ \A g \in Gates1 : Unitary(Matrix(g,0))
   /\ \A g \in Rots : \A k \in 0..7 : Unitary(Matrix(g,k))
   \* rotations compose additively and a full turn is -1
   /\ \A g \in Rots : Matrix(g,0) = <<One,Zero,Zero,One>>
   /\ \A g \in Rots : Matrix(g,4) = <<Neg(One),Zero,Zero,Neg(One)>>
   \* qelib1 identities that pin sign conventions: rx(pi) = -iX, ry(pi) = -iY, rz(pi) = -iZ
   /\ MRX(2) = <<Zero, Neg(I), Neg(I), Zero>>
   /\ MRY(2) = <<Zero, Neg(One), One, Zero>>
   /\ MRZ(2) = <<Neg(I), Zero, Zero, I>>
   \* ry(pi/2)|0> = (|0>+|1>)/sqrt2,  rx(pi/2)|0> = (|0> - i|1>)/sqrt2
   /\ MRY(1)[1] = InvSqrt2 /\ MRY(1)[3] = InvSqrt2
   /\ MRX(1)[1] = InvSqrt2 /\ MRX(1)[3] = Mul(Neg(I), InvSqrt2)
ASSUME GateTablesUnitary

\* Born rule on the grid: fraction of midpoint draws giving 1 equals P1 (P1 is a multiple of 1/4
\* in the stabiliser closure), and a draw of exactly 0 gives 1 iff P1 > 0.
BornOnGrid == \A q \in Qubits(st) :
   LET ones == Cardinality({r \in MidNums : Outcome(st,q,r,DrawExp) = 1})
   IN REqDyadic(P1(st,q), ones, 2)

\* collapse is the normalised projection; an immediate re-read is certain and agrees
CollapseOK == \A q \in Qubits(st) : \A o \in {0,1} :
   (~RIsZero(IF o = 1 THEN P1(st,q) ELSE P0(st,q))) =>
      LET t == MeasureTo(st,q,o) IN
      /\ Collapsible(st,q,o)
      /\ UnitNormS(t)
      /\ \A i \in Idx(st) : Bit(i,q) # o => t.vec[i] = Zero
      /\ RIsOne(IF o = 1 THEN P1(t,q) ELSE P0(t,q))
      \* projection: kept amplitudes are the old ones times one common positive scalar
      /\ \E j \in 0..8 : \A i \in Idx(st) : Bit(i,q) = o => t.vec[i] = MulSqrt2(st.vec[i], j)

\* reset is local: averaged over the midpoint draws the other qubits' reduced state is unchanged,
\* and the target ends in |0>, flag cleared
ResetLocal == \A q \in Qubits(st) :
   LET Z  == {i \in Idx(st) : Bit(i,q) = 0}
       post == [r \in MidNums |-> ResetTo(st,q,Outcome(st,q,r,DrawExp))]
       Sum4(i,j) == Add(Add(Rho(post[1],q,i,j), Rho(post[3],q,i,j)),
                        Add(Rho(post[5],q,i,j), Rho(post[7],q,i,j)))
   IN /\ \A r \in MidNums : /\ \A i \in Idx(st) : Bit(i,q) = 1 => post[r].vec[i] = Zero
                            /\ ~post[r].meas[q]
                            /\ UnitNormS(post[r])
      /\ \A i \in Z : \A j \in Z : Sum4(i,j) = MulSqrt2(Rho(st,q,i,j), 4)

\* allocation preserves the old amplitudes
AllocPreserves == LET t == Alloc(st) IN
   /\ \A i \in Idx(st) : t.vec[i] = st.vec[i]
   /\ \A i \in Idx(t) \ Idx(st) : t.vec[i] = Zero
   /\ ~t.meas[st.n]

(* ---------------- successor table dump ---------------- *)
VecSeq(s)  == [i \in 1..Dim(s) |-> s.vec[i-1]]
MeasSeq(s) == [q \in 1..s.n |-> IF s.meas[q-1] THEN 1 ELSE 0]
Enc(s)     == [n |-> s.n, v |-> VecSeq(s), m |-> MeasSeq(s)]
Poss(s,q)  == {o \in {0,1} : ~RIsZero(IF o = 1 THEN P1(s,q) ELSE P0(s,q))}
SetToSeq(S) == LET RECURSIVE F(_) F(T) == IF T = {} THEN <<>> ELSE
                     LET x == CHOOSE x \in T : TRUE IN <<x>> \o F(T \ {x}) IN F(S)
Succs(s) ==
   LET det == {a \in Acts(s) : a[1] \notin {"measure","reset"} /\ Enabled(s,a,MaxN)}
       ref == {a \in Acts(s) : ~Enabled(s,a,MaxN) /\ a[1] # "alloc" /\ a[3] \in (0..7)}
       mr  == {<<m,q,o>> : m \in {"measure","reset"}, q \in Qubits(s), o \in {0,1}}
       mrOk == {a \in mr : a[3] \in Poss(s,a[2]) /\ (a[1] = "reset" \/ Active(s,a[2]))}
   IN  SetToSeq({[a |-> a[1], p |-> a[2], k |-> a[3], t |-> Enc(Step(s,a,DrawExp))] : a \in det})
    \o SetToSeq({[a |-> a[1], p |-> a[2], k |-> a[3], refused |-> 1] : a \in ref})
    \o SetToSeq({[a |-> a[1], p |-> a[2], o |-> a[3],
                  t |-> Enc(IF a[1] = "measure" THEN MeasureTo(s,a[2],a[3]) ELSE ResetTo(s,a[2],a[3]))]
                 : a \in mrOk})
    \o SetToSeq({[a |-> "p1", p |-> q, k |-> 0, pr |-> P1(s,q)] : q \in Qubits(s)})

DumpFile == IOEnv.QSIM_DUMP
\* The JSON text is forced (Len) before the synchronized Serialize call so that workers
\* evaluate successor tables in parallel.
DumpInv  == LET j == ToJson([s |-> Enc(st), succ |-> Succs(st)]) IN
            /\ Len(j) > 0
            /\ Serialize(j \o "\n", DumpFile,
                      [format |-> "TXT", charset |-> "UTF-8",
                       openOptions |-> <<"WRITE","CREATE","APPEND">>]).exitValue = 0
=============================================================================
