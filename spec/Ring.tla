------------------------------- MODULE Ring -------------------------------
(***************************************************************************)
(* Exact arithmetic in D[w] = Z[w, 1/sqrt2], w = e^{i pi/4}.               *)
(* An element is <<a,b,c,d,k>> = (a + b w + c w^2 + d w^3) / sqrt2^k in    *)
(* normal form: k is the least exponent >= 0 for which the numerator is    *)
(* integral. All amplitudes of Clifford(+T) circuits live here, so the     *)
(* statevector model is exact: equality of states is equality of tuples.   *)
(***************************************************************************)
EXTENDS Integers, Sequences

Zero == <<0,0,0,0,0>>
One  == <<1,0,0,0,0>>

\* numerator times sqrt2 = w - w^3
TimesSqrt2Num(a,b,c,d) == <<b-d, a+c, b+d, c-a>>

Even(x) == x % 2 = 0

RECURSIVE Norm5(_,_,_,_,_)
Norm5(a,b,c,d,k) ==
   IF a = 0 /\ b = 0 /\ c = 0 /\ d = 0 THEN Zero
   ELSE IF k > 0 /\ Even(a-c) /\ Even(b-d)
        THEN Norm5((b-d) \div 2, (a+c) \div 2, (b+d) \div 2, (c-a) \div 2, k-1)
        ELSE <<a,b,c,d,k>>

Normal(z) == Norm5(z[1],z[2],z[3],z[4],z[5])

\* raise the exponent of z to K >= z[5] (un-normalised numerator)
RECURSIVE Lift(_,_)
Lift(z,K) == IF z[5] >= K THEN z
             ELSE LET t == TimesSqrt2Num(z[1],z[2],z[3],z[4])
                  IN Lift(<<t[1],t[2],t[3],t[4],z[5]+1>>, K)

Max(x,y) == IF x >= y THEN x ELSE y

Add(x,y) == LET K == Max(x[5],y[5])
                p == Lift(x,K)  q == Lift(y,K)
            IN Norm5(p[1]+q[1], p[2]+q[2], p[3]+q[3], p[4]+q[4], K)
Neg(x)   == <<-x[1],-x[2],-x[3],-x[4],x[5]>>
Sub(x,y) == Add(x, Neg(y))

\* (a+bw+cw^2+dw^3)(e+fw+gw^2+hw^3), w^4 = -1
Mul(x,y) == LET a == x[1] b == x[2] c == x[3] d == x[4]
                e == y[1] f == y[2] g == y[3] h == y[4]
            IN Norm5(a*e - b*h - c*g - d*f,
                     a*f + b*e - c*h - d*g,
                     a*g + b*f + c*e - d*h,
                     a*h + b*g + c*f + d*e,
                     x[5]+y[5])
\* complex conjugate: w -> w^-1 = -w^3
Conj(x)  == <<x[1], -x[4], -x[3], -x[2], x[5]>>

W(j) == LET m == j % 8 IN
        CASE m = 0 -> <<1,0,0,0,0>> [] m = 1 -> <<0,1,0,0,0>>
          [] m = 2 -> <<0,0,1,0,0>> [] m = 3 -> <<0,0,0,1,0>>
          [] m = 4 -> <<-1,0,0,0,0>> [] m = 5 -> <<0,-1,0,0,0>>
          [] m = 6 -> <<0,0,-1,0,0>> [] m = 7 -> <<0,0,0,-1,0>>
I == W(2)
\* divide by sqrt2^j
DivSqrt2(x,j) == IF x = Zero THEN Zero ELSE Norm5(x[1],x[2],x[3],x[4],x[5]+j)
MulSqrt2(x,j) == IF x = Zero THEN Zero ELSE
                 LET l == Lift(<<x[1],x[2],x[3],x[4],0>>, j)   \* numerator * sqrt2^j
                 IN Norm5(l[1],l[2],l[3],l[4],x[5])
Half(x)  == DivSqrt2(x,2)
InvSqrt2 == <<1,0,0,0,1>>

\* cos(k pi/4), sin(k pi/4) as ring elements
Cos8(k) == Half(Add(W(k), W(-k)))
Sin8(k) == Mul(Neg(I), Half(Sub(W(k), W(-k))))     \* (w^k - w^-k)/(2i)

(***************************************************************************)
(* |z|^2 = (x + y sqrt2)/2^k with x = a^2+b^2+c^2+d^2, y = ab+bc+cd-da.    *)
(* A "real" is <<x,y,k>> meaning (x + y sqrt2)/2^k  (not normalised).      *)
(***************************************************************************)
Abs2(z) == <<z[1]*z[1]+z[2]*z[2]+z[3]*z[3]+z[4]*z[4],
             z[1]*z[2]+z[2]*z[3]+z[3]*z[4]-z[4]*z[1], z[5]>>
Pow2(k) == 2^k
RZero == <<0,0,0>>
RAdd(p,q) == LET K == Max(p[3],q[3]) IN
             <<p[1]*Pow2(K-p[3]) + q[1]*Pow2(K-q[3]), p[2]*Pow2(K-p[3]) + q[2]*Pow2(K-q[3]), K>>
RECURSIVE RSum(_,_)
RSum(f, S) == IF S = {} THEN RZero
              ELSE LET i == CHOOSE i \in S : TRUE IN RAdd(f[i], RSum(f, S \ {i}))
\* (x + y sqrt2)/2^k = m/2^e  ?
REqDyadic(p, m, e) == p[2] = 0 /\ p[1] * Pow2(e) = m * Pow2(p[3])
RIsOne(p)  == REqDyadic(p, 1, 0)
RIsZero(p) == p[1] = 0 /\ p[2] = 0
\* sign of x + y sqrt2
Sgn(x,y) == IF x >= 0 /\ y >= 0 THEN (IF x = 0 /\ y = 0 THEN 0 ELSE 1)
            ELSE IF x <= 0 /\ y <= 0 THEN -1
            ELSE IF x > 0 THEN (IF x*x > 2*y*y THEN 1 ELSE IF x*x = 2*y*y THEN 0 ELSE -1)
            ELSE (IF 2*y*y > x*x THEN 1 ELSE IF x*x = 2*y*y THEN 0 ELSE -1)
\* rational num/den (den a power of two: den = 2^e) strictly less than real p ?
RatLess(num, e, p) == \* num/2^e < (x+y sqrt2)/2^k  <=>  0 < x*2^e - num*2^k + y*2^e sqrt2
   Sgn(p[1]*Pow2(e) - num*Pow2(p[3]), p[2]*Pow2(e)) = 1
=============================================================================
