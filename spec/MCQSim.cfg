SPECIFICATION Spec
CONSTANT MaxN = 3
INVARIANTS TypeOK UnitNorm Definite BornOnGrid CollapseOK ResetLocal AllocPreserves
