SPECIFICATION Spec
INVARIANTS TypeOK NotAccepted
CHECK_DEADLOCK FALSE
