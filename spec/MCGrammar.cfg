SPECIFICATION Spec
INVARIANTS SpecRoundTrip Dump
CHECK_DEADLOCK FALSE
