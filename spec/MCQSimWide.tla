---------------------------- MODULE MCQSimWide ----------------------------
(***************************************************************************)
(* "Whatever the register size / qubit index / control-target order":      *)
(* wide registers (N = 5, 6) cannot be explored as a closed graph, so this *)
(* model explores a small set of BUILD states - every computational basis  *)
(* state of an N-qubit register (which fixes the whole linear map of each  *)
(* gate instance) and the prefixes of a few preparation circuits that      *)
(* produce entangled NON-stabiliser states - and for each of them lets TLC *)
(* compute every one-step PROBE: all gates on all qubits / ordered pairs   *)
(* (distance up to N-1), and measure / reset of every qubit for each       *)
(* possible outcome, with the exact outcome probability.                   *)
(* Only build steps are transitions; probes are evaluated in the dump.     *)
(***************************************************************************)
EXTENDS QSim, Json, IOUtils, Sequences
CONSTANTS N
VARIABLES st, prep      \* prep = <<sequence id, steps done>>, <<0,0>> = basis-state phase

L == N - 1
Preps == <<
  << <<"h",0,0>>, <<"t",0,0>>, <<"h",0,0>>, <<"cx",0,1>>, <<"cx",1,L>> >>,
  << <<"h",L,0>>, <<"t",L,0>>, <<"h",L,0>>, <<"cx",L,0>>, <<"ry",1,1>>, <<"cx",0,1>> >>,
  << <<"h",0,0>>, <<"cx",0,L>>, <<"t",L,0>>, <<"h",L,0>>, <<"cx",L,2>> >>,
  << <<"h",0,0>>, <<"h",1,0>>, <<"h",2,0>>, <<"h",3,0>>, <<"h",L,0>>, <<"t",2,0>>, <<"cx",2,L>>, <<"h",2,0>>, <<"cx",L,0>> >>,
  << <<"rx",1,1>>, <<"t",1,0>>, <<"ry",1,3>>, <<"cx",1,L>>, <<"cx",1,0>>, <<"t",0,0>>, <<"h",0,0>> >>
>>
AllZero == \A i \in Idx(st) : (i = 0) = (st.vec[i] # Zero)

Init == st = InitState /\ prep = <<0,0>>
Next == \/ /\ st.n < N /\ prep = <<0,0>> /\ st' = Alloc(st) /\ UNCHANGED prep
        \/ /\ st.n = N /\ prep = <<0,0>>
           /\ \E q \in Qubits(st) : st' = Gate1(st,"x",q,0)
           /\ UNCHANGED prep
        \/ /\ st.n = N /\ prep = <<0,0>> /\ AllZero
           /\ \E p \in 1..Len(Preps) : st' = Step(st, Preps[p][1], 3) /\ prep' = <<p,1>>
        \/ /\ prep[1] > 0 /\ prep[2] < Len(Preps[prep[1]])
           /\ st' = Step(st, Preps[prep[1]][prep[2]+1], 3) /\ prep' = <<prep[1], prep[2]+1>>
Spec == Init /\ [][Next]_<<st,prep>>

UnitNorm == UnitNormS(st)
\* exact sanity of the projection operators: probabilities add up, and the reduced state of the other
\* qubits is the sum of the two (unnormalised) reset branches
ProjOK == \A q \in Qubits(st) :
   /\ RIsOne(RAdd(P0(st,q), P1(st,q)))
   /\ LET r0 == [st EXCEPT !.vec = ProjectReset(st,q,0)]
          r1 == [st EXCEPT !.vec = ProjectReset(st,q,1)]
          Z  == {i \in Idx(st) : Bit(i,q) = 0}
      IN \A i \in Z, j \in Z : Add(Rho(r0,q,i,j), Rho(r1,q,i,j)) = Rho(st,q,i,j)

VecSeq(s)  == [i \in 1..Dim(s) |-> s.vec[i-1]]
MeasSeq(s) == [q \in 1..s.n |-> IF s.meas[q-1] THEN 1 ELSE 0]
Enc(s)     == [n |-> s.n, v |-> VecSeq(s), m |-> MeasSeq(s)]
EncV(s,v)  == [n |-> s.n, v |-> [i \in 1..Dim(s) |-> v[i-1]], m |-> MeasSeq(s)]
SetToSeq(S) == LET RECURSIVE F(_) F(T) == IF T = {} THEN <<>> ELSE
                     LET x == CHOOSE x \in T : TRUE IN <<x>> \o F(T \ {x}) IN F(S)
Poss(s,q)  == {o \in {0,1} : ~RIsZero(IF o = 1 THEN P1(s,q) ELSE P0(s,q))}
Probes(s) == IF s.n < N THEN {<<"alloc",0,0>>} ELSE
             {<<g,q,0>> : g \in Gates1 \cup {"t"}, q \in Qubits(s)}
             \cup {<<g,q,k>> : g \in Rots, q \in Qubits(s), k \in 1..7}
             \cup {a \in {<<"cx",c,t>> : c \in Qubits(s), t \in Qubits(s)} : a[2] # a[3]}
MR(s)   == {<<m,q,o>> : m \in {"measure","reset"}, q \in Qubits(s), o \in {0,1}}
MROk(s) == {a \in MR(s) : s.n = N /\ a[3] \in Poss(s,a[2])}
Succs(s) ==
       SetToSeq({[a |-> a[1], p |-> a[2], k |-> a[3], t |-> Enc(Step(s,a,3))] : a \in Probes(s)})
    \o SetToSeq({[a |-> a[1], p |-> a[2], o |-> a[3], u |-> 1,
                  t |-> IF a[1] = "measure"
                        THEN EncV([s EXCEPT !.meas[a[2]] = TRUE], Project(s,a[2],a[3]))
                        ELSE EncV([s EXCEPT !.meas[a[2]] = FALSE], ProjectReset(s,a[2],a[3]))]
                 : a \in MROk(s)})
    \o SetToSeq({[a |-> "p1", p |-> q, k |-> 0, pr |-> P1(s,q)] : q \in Qubits(s)})

DumpFile == IOEnv.QSIM_DUMP
DumpInv  == LET j == ToJson([s |-> Enc(st), succ |-> Succs(st)]) IN
            /\ Len(j) > 0
            /\ Serialize(j \o "\n", DumpFile,
                      [format |-> "TXT", charset |-> "UTF-8",
                       openOptions |-> <<"WRITE","CREATE","APPEND">>]).exitValue = 0
=============================================================================
