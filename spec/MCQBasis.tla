------------------------------ MODULE MCQBasis ------------------------------
(* QBasis agrees with QSim on every computational-basis state of up to 3 qubits, for every operation QBasis admits:
   the QSim result is again a basis state (one amplitude of modulus 1), namely the one QBasis computes. Checked as ASSUMEs. *)
EXTENDS Integers, FiniteSets, TLC
QS == INSTANCE QSim
QB == INSTANCE QBasis
VARIABLE dummy
N == 1..3
BitsOf(n) == [0..(n-1) -> {0,1}]
AsB(n, b)  == [n |-> n, bits |-> b, meas |-> [q \in 0..(n-1) |-> FALSE]]
AsS(n, b)  == [n |-> n, vec |-> [i \in 0..(2^n - 1) |-> IF i = QB!BasisOf(AsB(n, b)) THEN QS!One ELSE QS!Zero], meas |-> [q \in 0..(n-1) |-> FALSE]]
\* s (QSim) is the basis state t (QBasis) up to a global phase
Same(s, t) == /\ s.n = t.n /\ s.meas = t.meas
              /\ \A i \in 0..(2^(s.n) - 1) : IF i = QB!BasisOf(t) THEN QS!RIsOne(QS!Abs2(s.vec[i])) ELSE s.vec[i] = QS!Zero
WideGates == {<<"x",0>>, <<"y",0>>, <<"z",0>>, <<"rx",2>>, <<"rx",4>>, <<"rx",6>>, <<"rx",0>>, <<"ry",2>>, <<"ry",4>>, <<"ry",6>>, <<"rz",1>>, <<"rz",5>>, <<"rz",2>>, <<"rz",7>>}
ASSUME \A g \in WideGates : QB!BasisGate(g[1], g[2])
ASSUME \A n \in N : \A b \in BitsOf(n) : \A q \in 0..(n-1) : \A g \in WideGates :
          Same(QS!Gate1(AsS(n,b), g[1], q, g[2]), QB!Gate1(AsB(n,b), g[1], q, g[2]))
ASSUME \A n \in N : \A b \in BitsOf(n) : \A c \in 0..(n-1), t \in 0..(n-1) : c # t => Same(QS!CX(AsS(n,b), c, t), QB!CX(AsB(n,b), c, t))
ASSUME \A n \in N : \A b \in BitsOf(n) : \A q \in 0..(n-1) : \A num \in {1,3,5,7} :
          /\ QS!Outcome(AsS(n,b), q, num, 3) = QB!Outcome(AsB(n,b), q, num, 3)
          /\ Same(QS!MeasureTo(AsS(n,b), q, b[q]), QB!MeasureTo(AsB(n,b), q, b[q]))
          /\ Same(QS!ResetTo(AsS(n,b), q, b[q]), QB!ResetTo(AsB(n,b), q, b[q]))
          /\ QS!RIsZero(QS!P1(AsS(n,b), q)) = QB!RIsZero(QB!P1(AsB(n,b), q))
ASSUME \A n \in 0..2 : \A b \in BitsOf(n) : Same(QS!Alloc(AsS(n,b)), QB!Alloc(AsB(n,b)))
ASSUME Same(QS!InitState, QB!InitState)
Spec == dummy = 0 /\ [][UNCHANGED dummy]_dummy
=============================================================================
