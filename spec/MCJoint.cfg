SPECIFICATION Spec
INVARIANT Dump
CHECK_DEADLOCK FALSE
