------------------------------ MODULE BlochSem ------------------------------
(***************************************************************************)
(* Reference dynamic semantics of Bloch, written from docs/language/*.md,  *)
(* docs/casting.md and docs/bloch_class_system.md: a big-step, store-      *)
(* passing interpreter over the shared JSON abstract syntax                *)
(* (harness/py/bsyntax.py renders the same trees to source text).          *)
(*                                                                         *)
(* Run(prog) = [out : Seq(STRING), status : "ok" | "err:<kind>" | "undef"] *)
(*                                                                         *)
(* What makes the listed properties true BY CONSTRUCTION here:             *)
(*  - C09 lexical scoping: a call pushes a fresh frame; name lookup reads  *)
(*    only the top frame, then the fields of `this`, then statics - there  *)
(*    is no path to a caller's frame.                                      *)
(*  - C10 declaration order: functions and classes are looked up by NAME   *)
(*    in the whole program (FindFn / FindClass), never by position.        *)
(*  - C11 no collector: objects die exactly when their reference count     *)
(*    drops to zero; nothing else ever clears a reachable object.          *)
(*  - C18 shots: Run is a function of the program text alone.              *)
(* "undef" marks programs that leave the fragment the documentation fixes  *)
(* (integer overflow, fuel exhausted): such cases are dropped, never used  *)
(* as an oracle.                                                           *)
(***************************************************************************)
EXTENDS Integers, Sequences, FiniteSets, TLC, Wide

(* ------------------------------------------------------------------ values *)
VInt(n)   == [t |-> "int", v |-> n]
VLong(n)  == [t |-> "long", v |-> n]
\* a long beyond TLC's 32-bit integers is carried as a Wide value in field w (and has no field v)
VWide(x)  == IF WSmall(x) THEN [t |-> "long", v |-> WToInt(x)] ELSE [t |-> "long", w |-> x]
IsWide(v) == "w" \in DOMAIN v
ToWide(v) == IF IsWide(v) THEN v.w ELSE WFromInt(v.v)
VBit(n)   == [t |-> "bit", v |-> n]
VBool(b)  == [t |-> "bool", v |-> b]
VStr(x)   == [t |-> "str", v |-> x]
VChar(x)  == [t |-> "char", v |-> x]
VVoid     == [t |-> "void"]
VObj(r, c) == [t |-> "obj", r |-> r, c |-> c]          \* r = 0 is null
VArr(et, vs) == [t |-> "arr", et |-> et, v |-> vs]

Abs(x) == IF x < 0 THEN -x ELSE x
RECURSIVE Gcd(_,_)
Gcd(a, b) == IF b = 0 THEN a ELSE Gcd(b, a % b)
\* exact rational float, normalised: d > 0, gcd(n,d) = 1
VFloat(n, d) == LET g == Gcd(Abs(n), Abs(d))
                    s == IF d < 0 THEN -1 ELSE 1
                IN IF n = 0 THEN [t |-> "float", n |-> 0, d |-> 1]
                   ELSE [t |-> "float", n |-> s * (n \div g), d |-> s * (d \div g)]
\* truncation toward zero
Trunc(n, d) == IF n >= 0 THEN n \div d ELSE -((-n) \div d)
\* C remainder: sign follows the dividend
CMod(a, b) == LET m == Abs(a) % Abs(b) IN IF a < 0 THEN -m ELSE m

Big == 30000          \* operands beyond this leave the fragment (guards TLC's 32-bit integers too)
IsNum(v) == v.t \in {"int", "long", "float"}
NumN(v) == IF v.t = "float" THEN v.n ELSE IF IsWide(v) THEN Big + 1 ELSE v.v
NumD(v) == IF v.t = "float" THEN v.d ELSE 1
TooBig(v) == Abs(NumN(v)) > Big \/ NumD(v) > Big

(* ------------------------------------------------------------------ state *)
\* S = [fr   : stack of frames [sc : Seq(scope), this : Nat, cls : STRING],
\*      heap : Seq([cls, fs : Seq([n,v]), rc, alive]),
\*      stat : Seq([c, n, v])  static fields,
\*      out  : Seq(STRING), sig : "ok"|"ret"|"err"|"undef", rv, err, fuel, prog]
Fail(S, kind)  == [S EXCEPT !.sig = "err", !.err = kind]
Undef(S)       == [S EXCEPT !.sig = "undef"]
Ok(S)          == S.sig = "ok"
R(v, S)        == [v |-> v, s |-> S]
Tick(S)        == IF S.fuel <= 0 THEN Undef(S) ELSE [S EXCEPT !.fuel = S.fuel - 1]

Top(S)   == S.fr[Len(S.fr)]
RECURSIVE FindInScope(_,_)
FindInScope(sc, name) ==      \* index of binding or 0
   IF sc = <<>> THEN 0 ELSE IF sc[Len(sc)].n = name THEN Len(sc) ELSE FindInScope(SubSeq(sc, 1, Len(sc) - 1), name)
RECURSIVE FindScope(_,_)
FindScope(scs, name) ==       \* index of innermost scope holding name, or 0
   IF scs = <<>> THEN 0
   ELSE IF FindInScope(scs[Len(scs)], name) > 0 THEN Len(scs)
   ELSE FindScope(SubSeq(scs, 1, Len(scs) - 1), name)

HasLocal(S, name) == FindScope(Top(S).sc, name) > 0
GetLocal(S, name) == LET scs == Top(S).sc  i == FindScope(scs, name)  j == FindInScope(scs[i], name)
                     IN scs[i][j].v
SetLocal(S, name, v) ==
   LET f == Len(S.fr)  scs == Top(S).sc  i == FindScope(scs, name)  j == FindInScope(scs[i], name)
   IN [S EXCEPT !.fr[f].sc[i][j].v = v]
Declare(S, name, v, ty) ==
   LET f == Len(S.fr)  k == Len(Top(S).sc)
   IN [S EXCEPT !.fr[f].sc[k] = Append(@, [n |-> name, v |-> v, ty |-> ty])]
PushScope(S) == LET f == Len(S.fr) IN [S EXCEPT !.fr[f].sc = Append(@, <<>>)]

(* ------------------------------------------------------------------ program lookup (by NAME) *)
RECURSIVE FindByName(_,_)
FindByName(seq, name) == IF seq = <<>> THEN 0 ELSE IF seq[1].name = name THEN 1
                         ELSE LET r == FindByName(Tail(seq), name) IN IF r = 0 THEN 0 ELSE r + 1
HasFn(S, name)  == FindByName(S.prog.funcs, name) > 0
Fn(S, name)     == S.prog.funcs[FindByName(S.prog.funcs, name)]
HasClass(S, c)  == FindByName(S.prog.classes, c) > 0
Class(S, c)     == S.prog.classes[FindByName(S.prog.classes, c)]
BaseOf(S, c)    == Class(S, c).base                       \* "" for a root class
RECURSIVE IsSubclass(_,_,_)
IsSubclass(S, c, b) == IF c = b THEN TRUE ELSE IF c = "" \/ ~HasClass(S, c) THEN FALSE ELSE IsSubclass(S, BaseOf(S, c), b)
RECURSIVE Distance(_,_,_)
Distance(S, c, b) == IF c = b THEN 0 ELSE 1 + Distance(S, BaseOf(S, c), b)

(* ------------------------------------------------------------------ printing *)
RECURSIVE JoinStr(_)
ShowF(v) == "<F:" \o ToString(v.n) \o "/" \o ToString(v.d) \o ">"
Show(v) == CASE v.t = "int" -> ToString(v.v) [] v.t = "long" -> (IF IsWide(v) THEN WShow(v.w) ELSE ToString(v.v)) [] v.t = "bit" -> ToString(v.v)
             [] v.t = "bool" -> (IF v.v THEN "true" ELSE "false")
             [] v.t = "str" -> v.v [] v.t = "char" -> "'" \o v.v \o "'"
             [] v.t = "float" -> ShowF(v)
             [] v.t = "arr" -> "{" \o JoinStr(v.v) \o "}"
             [] v.t = "obj" -> (IF v.r = 0 THEN "null" ELSE "<obj>")
             [] OTHER -> ""
JoinStr(vs) == IF vs = <<>> THEN "" ELSE IF Len(vs) = 1 THEN Show(vs[1]) ELSE Show(vs[1]) \o ", " \o JoinStr(Tail(vs))

(* ------------------------------------------------------------------ operators *)
Promote(l, r) == IF l.t = "float" \/ r.t = "float" THEN "float" ELSE IF l.t = "long" \/ r.t = "long" THEN "long" ELSE "int"
MkInt(t, n) == IF t = "long" THEN VLong(n) ELSE VInt(n)
NumLess(l, r) == NumN(l) * NumD(r) < NumN(r) * NumD(l)
NumEq(l, r)   == NumN(l) * NumD(r) = NumN(r) * NumD(l)
Truthy(v) == IF v.t = "bool" THEN v.v ELSE v.v # 0       \* boolean or bit

Arith(op, l, r, S) ==
   IF TooBig(l) \/ TooBig(r) THEN R(VVoid, Undef(S))
   ELSE LET t == Promote(l, r) IN
   CASE op = "+" -> R(IF t = "float" THEN VFloat(NumN(l) * NumD(r) + NumN(r) * NumD(l), NumD(l) * NumD(r)) ELSE MkInt(t, l.v + r.v), S)
     [] op = "-" -> R(IF t = "float" THEN VFloat(NumN(l) * NumD(r) - NumN(r) * NumD(l), NumD(l) * NumD(r)) ELSE MkInt(t, l.v - r.v), S)
     [] op = "*" -> R(IF t = "float" THEN VFloat(NumN(l) * NumN(r), NumD(l) * NumD(r)) ELSE MkInt(t, l.v * r.v), S)
     \* '/' always yields a float
     [] op = "/" -> IF NumN(r) = 0 THEN R(VVoid, Fail(S, "div0"))
                    ELSE R(VFloat(NumN(l) * NumD(r), NumD(l) * NumN(r)), S)
     \* '%' is integer-only
     [] op = "%" -> IF r.v = 0 THEN R(VVoid, Fail(S, "mod0")) ELSE R(MkInt(t, CMod(l.v, r.v)), S)

BitwiseBit(op, a, b) == CASE op = "&" -> (IF a = 1 /\ b = 1 THEN 1 ELSE 0)
                          [] op = "|" -> (IF a = 1 \/ b = 1 THEN 1 ELSE 0)
                          [] op = "^" -> (IF a # b THEN 1 ELSE 0)
Bitwise(op, l, r, S) ==
   IF l.t = "bit" /\ r.t = "bit" THEN R(VBit(BitwiseBit(op, l.v, r.v)), S)
   ELSE IF l.t = "arr" /\ r.t = "arr" THEN
        IF Len(l.v) # Len(r.v) THEN R(VVoid, Fail(S, "bitlen"))
        ELSE R(VArr("bit", [i \in 1..Len(l.v) |-> VBit(BitwiseBit(op, l.v[i].v, r.v[i].v))]), S)
   ELSE IF l.t = "arr" THEN R(VArr("bit", [i \in 1..Len(l.v) |-> VBit(BitwiseBit(op, l.v[i].v, r.v))]), S)
   ELSE R(VArr("bit", [i \in 1..Len(r.v) |-> VBit(BitwiseBit(op, l.v, r.v[i].v))]), S)

StrOperandOk(v) == v.t \in {"int", "long", "bit", "bool", "str"}

\* 64-bit operands: comparison, equality, + and - on int/long operands when at least one is wide
WideOp(op, l, r, S) ==
   LET a == ToWide(l)  b == ToWide(r) IN
   CASE op = "<"  -> R(VBool(WLess(a, b)), S)
     [] op = ">"  -> R(VBool(WLess(b, a)), S)
     [] op = "<=" -> R(VBool(~WLess(b, a)), S)
     [] op = ">=" -> R(VBool(~WLess(a, b)), S)
     [] op = "==" -> R(VBool(WEq(a, b)), S)
     [] op = "!=" -> R(VBool(~WEq(a, b)), S)
     \* int op int stays int (overflow is not documented: undef); anything with a long is a long
     [] op \in {"+", "-", "*"} ->
          LET x == IF op = "+" THEN WAdd(a, b) ELSE IF op = "-" THEN WSub(a, b) ELSE WMul(a, b) IN
          IF l.t = "int" /\ r.t = "int" THEN (IF WFitsInt(x) THEN R(VInt(WToInt32(x)), S) ELSE R(VVoid, Undef(S)))
          ELSE IF WFits(x) THEN R(VWide(x), S) ELSE R(VVoid, Undef(S))
     [] OTHER -> R(VVoid, Undef(S))
IsIntLike(v) == v.t \in {"int", "long"}
BinOp(op, l, r, S) ==
   IF IsIntLike(l) /\ IsIntLike(r) /\ (IsWide(l) \/ IsWide(r) \/ ((TooBig(l) \/ TooBig(r)) /\ op \notin {"/", "%", "&", "|", "^", "&&", "||"}))
   THEN WideOp(op, l, r, S)
   ELSE IF op \in {"&", "|", "^"} THEN Bitwise(op, l, r, S)
   ELSE IF op \in {"&&", "||"} THEN R(VBool(IF op = "&&" THEN Truthy(l) /\ Truthy(r) ELSE Truthy(l) \/ Truthy(r)), S)
   ELSE IF op = "+" /\ (l.t = "str" \/ r.t = "str") THEN
        IF StrOperandOk(l) /\ StrOperandOk(r) THEN R(VStr(Show(l) \o Show(r)), S) ELSE R(VVoid, Undef(S))
   ELSE IF op \in {"==", "!="} /\ (l.t = "obj" \/ r.t = "obj") THEN
        R(VBool((l.r = r.r) = (op = "==")), S)
   ELSE IF op \in {"==", "!="} /\ l.t \in {"str", "char", "bool", "bit"} THEN
        R(VBool((IF l.t = "bool" \/ r.t = "bool" THEN Truthy(l) = Truthy(r) ELSE l.v = r.v) = (op = "==")), S)
   ELSE IF op \in {"+", "-", "*", "/", "%"} THEN Arith(op, l, r, S)
   ELSE IF TooBig(l) \/ TooBig(r) THEN R(VVoid, Undef(S))
   ELSE CASE op = "<"  -> R(VBool(NumLess(l, r)), S)
          [] op = ">"  -> R(VBool(NumLess(r, l)), S)
          [] op = "<=" -> R(VBool(~NumLess(r, l)), S)
          [] op = ">=" -> R(VBool(~NumLess(l, r)), S)
          [] op = "==" -> R(VBool(NumEq(l, r)), S)
          [] op = "!=" -> R(VBool(~NumEq(l, r)), S)

UnOp(op, v, S) ==
   CASE op = "-" -> R(IF v.t = "float" THEN VFloat(-v.n, v.d) ELSE IF IsWide(v) THEN VWide(WNeg(v.w)) ELSE MkInt(v.t, -v.v), S)
     [] op = "!" -> R(VBool(~Truthy(v)), S)
     [] op = "~" -> R(IF v.t = "bit" THEN VBit(1 - v.v) ELSE VArr("bit", [i \in 1..Len(v.v) |-> VBit(1 - v.v[i].v)]), S)

\* explicit casts: widening int/bit -> float, narrowing float -> int/bit truncates toward zero
Cast(t, v, S) ==
   IF v.t = "long" /\ IsWide(v) THEN (IF t = "long" THEN R(v, S) ELSE R(VVoid, Undef(S))) ELSE
   CASE t = "int"   -> R(IF v.t = "float" THEN VInt(Trunc(v.n, v.d)) ELSE VInt(v.v), S)
     [] t = "long"  -> R(IF v.t = "float" THEN VLong(Trunc(v.n, v.d)) ELSE VLong(v.v), S)
     [] t = "float" -> R(IF v.t = "float" THEN v ELSE VFloat(v.v, 1), S)
     [] t = "bit"   -> R(VBit(IF NumN(v) # 0 THEN 1 ELSE 0), S)

\* implicit conversion on initialisation / assignment / argument passing / return: int widens to long
Conv(t, v) == IF t = "long" /\ v.t = "int" THEN VLong(v.v) ELSE v
ElemConv(et, v) == IF et = "int" /\ v.t = "bit" THEN VInt(v.v)
                   ELSE IF et = "int" /\ v.t = "float" THEN VInt(Trunc(v.n, v.d))          \* documented: int[] accepts float, truncated
                   ELSE IF et = "float" /\ v.t \in {"int", "bit"} THEN VFloat(v.v, 1)
                   ELSE IF et = "long" /\ v.t \in {"int", "bit"} THEN VLong(v.v)
                   ELSE IF et = "bool" /\ v.t = "bit" THEN VBool(v.v # 0)
                   ELSE v

DefaultOf(p) == CASE p = "int" -> VInt(0) [] p = "long" -> VLong(0) [] p = "float" -> VFloat(0, 1)
                  [] p = "bit" -> VBit(0) [] p = "bool" -> VBool(FALSE) [] p = "str" -> VStr("")
                  [] p = "char" -> VChar("") [] OTHER -> VVoid
\* a declared type is [p : prim] | [arr : prim, size : expr-or-none] | [cls : name]
TypeName(ty) == IF "p" \in DOMAIN ty THEN ty.p ELSE IF "cls" \in DOMAIN ty THEN "obj" ELSE "arr"

(* ================================================================== objects *)
Obj(S, r) == S.heap[r]
RECURSIVE FieldIdx(_,_)
FieldIdx(fs, name) == IF fs = <<>> THEN 0 ELSE IF fs[Len(fs)].n = name THEN Len(fs) ELSE FieldIdx(SubSeq(fs, 1, Len(fs) - 1), name)
HasField(S, r, name) == r > 0 /\ FieldIdx(Obj(S, r).fs, name) > 0
GetField(S, r, name) == Obj(S, r).fs[FieldIdx(Obj(S, r).fs, name)].v
RECURSIVE StatIdx(_,_,_)
StatIdx(st, c, name) == IF st = <<>> THEN 0 ELSE IF st[Len(st)].c = c /\ st[Len(st)].n = name THEN Len(st)
                        ELSE StatIdx(SubSeq(st, 1, Len(st) - 1), c, name)
\* the class (walking up from c) that declares static field `name`, or ""
RECURSIVE StaticOwner(_,_,_)
StaticOwner(S, c, name) == IF c = "" \/ ~HasClass(S, c) THEN "" ELSE IF StatIdx(S.stat, c, name) > 0 THEN c ELSE StaticOwner(S, BaseOf(S, c), name)

(* ---- reference counting: an object is destroyed exactly when its count returns to zero ---- *)
IsRef(v) == v.t = "obj" /\ v.r > 0
RECURSIVE Exec(_,_), ExecList(_,_), Eval(_,_), EvalList(_,_), DestroyObj(_,_), DropAll(_,_), RunDtors(_,_,_)
Inc(S, v) == IF IsRef(v) THEN [S EXCEPT !.heap[v.r].rc = @ + 1] ELSE S
Dec(S, v) == IF ~IsRef(v) \/ ~S.heap[v.r].alive THEN S
             ELSE IF S.heap[v.r].rc > 1 THEN [S EXCEPT !.heap[v.r].rc = @ - 1]
             ELSE DestroyObj([S EXCEPT !.heap[v.r].rc = 0], v.r)
RefsIn(v) == IF v.t = "arr" /\ v.et = "obj" THEN v.v ELSE <<v>>
DropAll(S, vs) == IF vs = <<>> THEN S ELSE DropAll(Dec(S, vs[1]), Tail(vs))

\* destructors run derived-first; then the object's own references are released
RunDtors(S, r, c) ==
   IF c = "" \/ ~HasClass(S, c) THEN S
   ELSE LET cd == Class(S, c)
            S1 == IF cd.dtor = <<>> \/ ~Ok(S) THEN S
                  ELSE LET Sin == [S EXCEPT !.fr = Append(@, [sc |-> <<<<>>>>, this |-> r, cls |-> c])]
                           Sd  == ExecList(cd.dtor, Sin)
                       IN [Sd EXCEPT !.fr = SubSeq(@, 1, Len(@) - 1), !.sig = IF Sd.sig = "ret" THEN "ok" ELSE Sd.sig]
        IN RunDtors(S1, r, cd.base)
DestroyObj(Sx, r) ==
   LET S  == IF Sx.grp /\ Ok(Sx) THEN [Sx EXCEPT !.out = Append(@, "<<obj")] ELSE Sx     \* inside a scope-exit bracket: one chunk per object
       S0 == [S EXCEPT !.heap[r].alive = FALSE]
       \* a destructor may run while a `return` is propagating (scope exit): it runs as ordinary code
       S1 == RunDtors([S0 EXCEPT !.sig = IF S0.sig = "ret" THEN "ok" ELSE S0.sig], r, S0.heap[r].cls)
       \* the pending return (signal and value) survives whatever the destructors call
       S2 == [S1 EXCEPT !.sig = IF S1.sig = "ok" THEN S0.sig ELSE S1.sig, !.rv = IF S1.sig = "ok" THEN S0.rv ELSE S1.rv]
       vals == [i \in 1..Len(S2.heap[r].fs) |-> S2.heap[r].fs[i].v]
   IN DropAll(S2, vals)

\* Leaving a scope releases the references held by its variables. The ORDER in which several objects of
\* one scope die is not documented, so the reference brackets the output of a scope exit:
\*   "<<scope"  { "<<obj" lines of one dying object ... }  ">>scope"
\* and the comparison accepts any permutation of the "<<obj" chunks of one bracket.
\* release a group of values whose relative order of release is not documented (the variables of one scope,
\* the temporaries of one call expression). With two or more live objects in the group the order matters
\* also for what dies by cascade (an object held by a field of another), so every object that dies while the
\* group is released - directly or by cascade - is one "<<obj" chunk of the bracket.
DropGroup(S1, vals) ==
   LET refs == {vals[i].r : i \in {j \in 1..Len(vals) : IsRef(vals[j])}}
       n  == Cardinality({r \in refs : S1.heap[r].alive})
   IN IF n <= 1 \/ ~Ok(S1) \/ S1.grp THEN DropAll(S1, vals)
      ELSE LET S2 == DropAll([S1 EXCEPT !.out = Append(@, "<<scope"), !.grp = TRUE], vals)
           IN [S2 EXCEPT !.out = Append(@, ">>scope"), !.grp = FALSE]
PopScope(S) ==
   LET f == Len(S.fr)  k == Len(Top(S).sc)
       vals == [i \in 1..Len(Top(S).sc[k]) |-> Top(S).sc[k][i].v]
       S1 == [S EXCEPT !.fr[f].sc = SubSeq(@, 1, k - 1)]
   IN DropGroup(S1, vals)
RECURSIVE PopScopesTo(_,_)
PopScopesTo(S, k) == IF Len(Top(S).sc) <= k THEN S ELSE PopScopesTo(PopScope(S), k)

\* store into a variable / field / static: new value gains a reference, old value loses one
AssignLocal(S, name, v) == LET old == GetLocal(S, name) IN Dec(SetLocal(Inc(S, v), name, v), old)

(* ---- class members ---- *)
\* instance fields of class c including inherited ones, base first
RECURSIVE AllFields(_,_)
AllFields(S, c) == IF c = "" \/ ~HasClass(S, c) THEN <<>>
                   ELSE AllFields(S, BaseOf(S, c)) \o SelectSeq(Class(S, c).fields, LAMBDA fd : ~fd.static)

\* static type of an expression (only what overload resolution needs): declared types are explicit in the
\* tree for variables, fields, parameters and returns
RECURSIVE TypeOfE(_,_,_)
ParamTypes(m) == [i \in 1..Len(m.params) |-> m.params[i].t]
\* conversion cost of passing a value of static type `a` to a parameter of type `p`; -1 = not applicable
ArgCost(S, p, a) ==
   IF "p" \in DOMAIN p THEN (IF "p" \in DOMAIN a /\ a.p = p.p THEN 0 ELSE IF "p" \in DOMAIN a /\ p.p = "long" /\ a.p = "int" THEN 1 ELSE -1)
   ELSE IF "arr" \in DOMAIN p THEN (IF "arr" \in DOMAIN a /\ a.arr = p.arr THEN 0 ELSE -1)
   ELSE IF "null" \in DOMAIN a THEN 3
   ELSE IF "cls" \in DOMAIN a /\ IsSubclass(S, a.cls, p.cls) THEN Distance(S, a.cls, p.cls) ELSE -1
RECURSIVE SumCost(_,_,_)
SumCost(S, ps, as) == IF ps = <<>> THEN 0
                      ELSE LET c == ArgCost(S, ps[1], as[1])  rest == SumCost(S, Tail(ps), Tail(as))
                           IN IF c < 0 \/ rest < 0 THEN -1 ELSE c + rest
\* index (into ms) of the most specific applicable overload named `name` for static argument types `as`; 0 = none
RECURSIVE BestOverload(_,_,_,_,_,_,_)
BestOverload(S, ms, name, as, i, best, bestCost) ==
   IF i > Len(ms) THEN best
   ELSE LET m == ms[i]
            c == IF m.name = name /\ Len(m.params) = Len(as) THEN SumCost(S, ParamTypes(m), as) ELSE -1
        IN IF c >= 0 /\ (best = 0 \/ c < bestCost) THEN BestOverload(S, ms, name, as, i + 1, i, c)
           ELSE BestOverload(S, ms, name, as, i + 1, best, bestCost)
SameSig(m1, m2) == m1.name = m2.name /\ ParamTypes(m1) = ParamTypes(m2)
\* the class at or above c that declares a method with m's signature and a body, most derived first
RECURSIVE ImplClass(_,_,_)
ImplClass(S, c, m) ==
   IF c = "" \/ ~HasClass(S, c) THEN ""
   ELSE IF \E i \in 1..Len(Class(S, c).methods) : SameSig(Class(S, c).methods[i], m) THEN c
   ELSE ImplClass(S, BaseOf(S, c), m)
MethodIn(S, c, m) == LET ms == Class(S, c).methods IN ms[CHOOSE i \in 1..Len(ms) : SameSig(ms[i], m)]
\* Overload resolution for a method call (static): every overload named `name` declared in c or inherited
\* from its bases takes part (a more derived declaration hides a base declaration with the same parameter list);
\* the applicable overload with the least total conversion cost is chosen.
RECURSIVE Visible(_,_,_,_)
Visible(S, c, name, seen) ==       \* Seq of [cls, idx], most derived first; seen = set of hidden parameter lists
   IF c = "" \/ ~HasClass(S, c) THEN <<>>
   ELSE LET ms == Class(S, c).methods
            mine == SelectSeq([i \in 1..Len(ms) |-> [cls |-> c, idx |-> i]],
                              LAMBDA x : ms[x.idx].name = name /\ ParamTypes(ms[x.idx]) \notin seen)
            seen2 == seen \cup {ParamTypes(ms[i]) : i \in {j \in 1..Len(ms) : ms[j].name = name}}
        IN mine \o Visible(S, BaseOf(S, c), name, seen2)
RECURSIVE PickBest(_,_,_,_,_)
PickBest(S, cands, as, best, bestCost) ==
   IF cands = <<>> THEN best
   ELSE LET x == cands[1]
            m == Class(S, x.cls).methods[x.idx]
            c == IF Len(m.params) = Len(as) THEN SumCost(S, ParamTypes(m), as) ELSE -1
        IN IF c >= 0 /\ (best.idx = 0 \/ c < bestCost) THEN PickBest(S, Tail(cands), as, x, c)
           ELSE PickBest(S, Tail(cands), as, best, bestCost)
ResolveIn(S, c, name, as) == PickBest(S, Visible(S, c, name, {}), as, [cls |-> "", idx |-> 0], 0)

(* ================================================================== static types of expressions *)
DeclTypeOfLocal(S, name) ==
   LET scs == Top(S).sc  i == FindScope(scs, name)  j == FindInScope(scs[i], name) IN scs[i][j].ty
RECURSIVE FieldDecl(_,_,_)
FieldDecl(S, c, name) ==     \* declaration record of field `name` visible in class c, or [none |-> TRUE]
   IF c = "" \/ ~HasClass(S, c) THEN [none |-> TRUE]
   ELSE LET fs == Class(S, c).fields
            hit == {i \in 1..Len(fs) : fs[i].n = name}
        IN IF hit # {} THEN fs[CHOOSE i \in hit : TRUE] ELSE FieldDecl(S, BaseOf(S, c), name)
TypeOfE(S, e, ctx) ==        \* ctx = class whose code we are in ("" outside classes)
   CASE e.k = "int" -> [p |-> "int"] [] e.k = "long" -> [p |-> "long"] [] e.k = "float" -> [p |-> "float"]
     [] e.k = "bit" -> [p |-> "bit"] [] e.k = "bool" -> [p |-> "bool"] [] e.k = "str" -> [p |-> "str"] [] e.k = "char" -> [p |-> "char"]
     [] e.k = "null" -> [null |-> TRUE]
     [] e.k = "this" -> [cls |-> ctx]
     [] e.k = "var" -> IF HasLocal(S, e.n) THEN DeclTypeOfLocal(S, e.n)
                       ELSE LET fd == FieldDecl(S, ctx, e.n) IN IF "none" \in DOMAIN fd THEN [p |-> "void"] ELSE fd.t
     [] e.k = "new" -> [cls |-> e.c]
     [] e.k = "cast" -> [p |-> e.t]
     [] e.k = "fld" -> LET ot == TypeOfE(S, e.o, ctx)
                           fd == FieldDecl(S, IF "cls" \in DOMAIN ot THEN ot.cls ELSE "", e.f)
                       IN IF "none" \in DOMAIN fd THEN [p |-> "void"] ELSE fd.t
     [] e.k = "call" -> IF HasFn(S, e.f) THEN Fn(S, e.f).ret ELSE [p |-> "void"]
     [] e.k = "mcall" -> LET ot == TypeOfE(S, e.o, ctx)
                             c0 == IF "cls" \in DOMAIN ot THEN ot.cls ELSE ""
                             rs == ResolveIn(S, c0, e.m, [i \in 1..Len(e.a) |-> TypeOfE(S, e.a[i], ctx)])
                         IN IF rs.idx = 0 THEN [p |-> "void"] ELSE Class(S, rs.cls).methods[rs.idx].ret
     [] e.k = "bin" -> LET lt == TypeOfE(S, e.l, ctx)  rt == TypeOfE(S, e.r, ctx) IN
                       IF e.op \in {"<", ">", "<=", ">=", "==", "!=", "&&", "||"} THEN [p |-> "bool"]
                       ELSE IF e.op = "/" THEN [p |-> "float"]
                       ELSE IF "p" \in DOMAIN lt /\ "p" \in DOMAIN rt THEN
                            (IF lt.p = "str" \/ rt.p = "str" THEN [p |-> "str"]
                             ELSE IF lt.p = "float" \/ rt.p = "float" THEN [p |-> "float"]
                             ELSE IF lt.p = "long" \/ rt.p = "long" THEN [p |-> "long"] ELSE lt)
                       ELSE lt
     [] e.k = "un" -> IF e.op = "!" THEN [p |-> "bool"] ELSE TypeOfE(S, e.e, ctx)
     [] e.k = "idx" -> LET at == TypeOfE(S, e.a, ctx) IN IF "arr" \in DOMAIN at THEN [p |-> at.arr] ELSE [p |-> "void"]
     [] e.k = "post" -> TypeOfE(S, [k |-> "var", n |-> e.n], ctx)
     [] e.k = "asg" -> TypeOfE(S, [k |-> "var", n |-> e.n], ctx)
     [] e.k = "paren" -> TypeOfE(S, e.e, ctx)
     [] e.k \in {"sfld", "sfasg"} -> LET fd == FieldDecl(S, e.c, e.f) IN IF "none" \in DOMAIN fd THEN [p |-> "void"] ELSE fd.t
     [] e.k = "fasg" -> TypeOfE(S, [k |-> "fld", o |-> e.o, f |-> e.f], ctx)
     [] e.k = "scall" -> LET rs == ResolveIn(S, e.c, e.m, [i \in 1..Len(e.a) |-> TypeOfE(S, e.a[i], ctx)])
                         IN IF rs.idx = 0 THEN [p |-> "void"] ELSE Class(S, rs.cls).methods[rs.idx].ret
     [] e.k = "supercall" -> LET b == IF ctx # "" /\ HasClass(S, ctx) THEN BaseOf(S, ctx) ELSE ""
                                 rs == ResolveIn(S, b, e.m, [i \in 1..Len(e.a) |-> TypeOfE(S, e.a[i], ctx)])
                             IN IF rs.idx = 0 THEN [p |-> "void"] ELSE Class(S, rs.cls).methods[rs.idx].ret
     [] OTHER -> [p |-> "void"]

(* ================================================================== calls *)
\* bind parameters in a fresh frame, run the body, unwind. Lexical scoping: the callee sees ONLY this frame.
RECURSIVE BindParams(_,_,_)
BindParams(S, ps, vs) == IF ps = <<>> THEN S
                         ELSE LET v == Conv(TypeName(ps[1].t), vs[1])
                              IN BindParams(Declare(Inc(S, v), ps[1].n, v, ps[1].t), Tail(ps), Tail(vs))
Invoke(S, params, body, args, this, cls, retT) ==
   LET S0 == Tick(S) IN
   IF ~Ok(S0) THEN R(VVoid, S0)
   ELSE LET S1 == BindParams([S0 EXCEPT !.fr = Append(@, [sc |-> <<<<>>>>, this |-> this, cls |-> cls])], params, args)
            S2 == ExecList(body, S1)
            \* the `return` statement left one owned reference in S2.rv; it is held while the callee's scopes unwind
            rv == IF S2.sig = "ret" THEN Conv(TypeName(retT), S2.rv) ELSE VVoid
            S3 == PopScopesTo(S2, 0)
            S4 == [S3 EXCEPT !.fr = SubSeq(@, 1, Len(@) - 1), !.sig = IF S3.sig = "ret" THEN "ok" ELSE S3.sig, !.rv = VVoid]
        IN R(rv, S4)      \* the caller owns one reference to rv (a temporary until stored or dropped)

\* release a temporary (a value produced by an expression that nobody stored)
DropTemp(S, v) == Dec(S, v)

(* ---- construction: base constructor, then this class's field initialisers, then its constructor body ---- *)
RECURSIVE Construct(_,_,_,_,_), InitFields(_,_,_,_)
CtorTypes(ct) == [i \in 1..Len(ct.params) |-> ct.params[i].t]
BestCtor(S, c, as) == BestOverload(S, [i \in 1..Len(Class(S, c).ctors) |-> [name |-> "ctor", params |-> Class(S, c).ctors[i].params]], "ctor", as, 1, 0, 0)
SetField(S, r, name, v) == LET i == FieldIdx(Obj(S, r).fs, name)  old == Obj(S, r).fs[i].v
                           IN Dec([Inc(S, v) EXCEPT !.heap[r].fs[i].v = v], old)
InitFields(S, r, c, fs) ==
   IF fs = <<>> \/ ~Ok(S) THEN S
   ELSE LET fd == fs[1] IN
        IF fd.static \/ fd.init.k = "none" THEN InitFields(S, r, c, Tail(fs))
        ELSE LET Sin == [S EXCEPT !.fr = Append(@, [sc |-> <<<<>>>>, this |-> r, cls |-> c])]
                 ev == Eval(fd.init, Sin)
                 S1 == [ev.s EXCEPT !.fr = SubSeq(@, 1, Len(@) - 1)]
             IN IF ~Ok(S1) THEN S1
                ELSE InitFields(DropTemp(SetField(S1, r, fd.n, Conv(TypeName(fd.t), ev.v)), ev.v), r, c, Tail(fs))
\* default constructors bind their parameters to the fields of the same name
RECURSIVE BindDefault(_,_,_,_)
BindDefault(S, r, ps, vs) == IF ps = <<>> THEN S ELSE BindDefault(SetField(S, r, ps[1].n, Conv(TypeName(ps[1].t), vs[1])), r, Tail(ps), Tail(vs))
Construct(S, r, c, ctorIdx, args) ==
   LET cd == Class(S, c)
       ct == cd.ctors[ctorIdx]
       hasSuper == ct.body # <<>> /\ ct.body[1].k = "super"
       \* 1. base constructor: explicit super(args) (evaluated in the constructor's frame) or the zero-arg one
       Sf == BindParams([S EXCEPT !.fr = Append(@, [sc |-> <<<<>>>>, this |-> r, cls |-> c])], ct.params, args)
       sargs == IF hasSuper THEN EvalList(ct.body[1].a, Sf) ELSE [vs |-> <<>>, s |-> Sf]
       S1 == sargs.s
       bi == IF cd.base = "" \/ ~HasClass(S, cd.base) THEN 0
             ELSE BestCtor(S, cd.base, IF hasSuper THEN [i \in 1..Len(ct.body[1].a) |-> TypeOfE(Sf, ct.body[1].a[i], c)] ELSE <<>>)
       S2 == IF ~Ok(S1) \/ bi = 0 THEN S1
             ELSE LET Sb == Construct([S1 EXCEPT !.fr = SubSeq(@, 1, Len(@) - 1)], r, cd.base, bi, sargs.vs)
                  IN [Sb EXCEPT !.fr = Append(@, Top(S1))]
       S2b == DropAll(S2, sargs.vs)
       \* 2. this class's field initialisers, in declaration order
       S3 == IF Ok(S2b) THEN LET Si == InitFields([S2b EXCEPT !.fr = SubSeq(@, 1, Len(@) - 1)], r, c, cd.fields)
                             IN [Si EXCEPT !.fr = Append(@, Top(S2b))]
             ELSE S2b
       \* 3. the constructor body
       S4 == IF ~Ok(S3) THEN S3
             ELSE IF ct.default THEN BindDefault(S3, r, ct.params, args)
             ELSE ExecList(IF hasSuper THEN Tail(ct.body) ELSE ct.body, S3)
       S5 == PopScopesTo([S4 EXCEPT !.sig = IF S4.sig = "ret" THEN "ok" ELSE S4.sig, !.rv = VVoid], 0)
   IN [S5 EXCEPT !.fr = SubSeq(@, 1, Len(@) - 1)]

NewObject(S, c, args, argTypes) ==
   LET fds == AllFields(S, c)
       o == [cls |-> c, fs |-> [i \in 1..Len(fds) |-> [n |-> fds[i].n, v |-> (IF "p" \in DOMAIN fds[i].t THEN DefaultOf(fds[i].t.p)
                                                                                ELSE IF "arr" \in DOMAIN fds[i].t THEN VArr(fds[i].t.arr, <<>>)
                                                                                ELSE VObj(0, ""))]],
             rc |-> 1, alive |-> TRUE]          \* the creating expression holds one (temporary) reference
       r == Len(S.heap) + 1
       ci == BestCtor(S, c, argTypes)
       S1 == [S EXCEPT !.heap = Append(@, o)]
   IN IF ci = 0 THEN R(VVoid, Undef(S)) ELSE R(VObj(r, c), Construct(S1, r, c, ci, args))

(* ================================================================== expressions *)
\* Ownership convention: every Eval result that is an object reference is an OWNED temporary (its count was
\* incremented for the caller); whoever consumes it stores it (Inc) and/or drops it (DropTemp).
EvalList(es, S) == IF es = <<>> \/ ~Ok(S) THEN [vs |-> <<>>, s |-> S]
                   ELSE LET a == Eval(es[1], S)  rest == EvalList(Tail(es), a.s)
                        IN [vs |-> <<a.v>> \o rest.vs, s |-> rest.s]
CtxClass(S) == Top(S).cls
This(S)     == Top(S).this
StaticTypes(S, es) == [i \in 1..Len(es) |-> TypeOfE(S, es[i], CtxClass(S))]

\* where does a bare name live?  local, instance field of this, static field (of the context class chain)
NameKind(S, name) == IF HasLocal(S, name) THEN "local"
                     ELSE IF This(S) > 0 /\ HasField(S, This(S), name) THEN "field"
                     ELSE IF CtxClass(S) # "" /\ StaticOwner(S, CtxClass(S), name) # "" THEN "static"
                     ELSE "none"
ReadName(S, name) == LET k == NameKind(S, name) IN
                     IF k = "local" THEN GetLocal(S, name)
                     ELSE IF k = "field" THEN GetField(S, This(S), name)
                     ELSE IF k = "static" THEN S.stat[StatIdx(S.stat, StaticOwner(S, CtxClass(S), name), name)].v
                     ELSE VVoid
SetStatic(S, c, name, v) == LET i == StatIdx(S.stat, c, name)  old == S.stat[i].v IN Dec([Inc(S, v) EXCEPT !.stat[i].v = v], old)
NameType(S, name) == LET k == NameKind(S, name) IN
                     IF k = "local" THEN DeclTypeOfLocal(S, name)
                     ELSE LET fd == FieldDecl(S, CtxClass(S), name) IN IF "none" \in DOMAIN fd THEN [p |-> "void"] ELSE fd.t
WriteName(S, name, v0) == LET k == NameKind(S, name)
                              v == Conv(TypeName(NameType(S, name)), v0) IN
                          IF k = "local" THEN AssignLocal(S, name, v)
                          ELSE IF k = "field" THEN SetField(S, This(S), name, v)
                          ELSE IF k = "static" THEN SetStatic(S, StaticOwner(S, CtxClass(S), name), name, v)
                          ELSE Undef(S)

WriteRaw(S, name, v) == LET k == NameKind(S, name) IN
                        IF k = "local" THEN SetLocal(S, name, v)
                        ELSE IF k = "field" THEN [S EXCEPT !.heap[This(S)].fs[FieldIdx(Obj(S, This(S)).fs, name)].v = v]
                        ELSE IF k = "static" THEN [S EXCEPT !.stat[StatIdx(S.stat, StaticOwner(S, CtxClass(S), name), name)].v = v]
                        ELSE Undef(S)

\* method invocation on receiver r (dynamic class dc), statically resolved in class c0
CallMethod(S, r, c0, name, args, argTypes, virtualOk) ==
   LET rs == ResolveIn(S, c0, name, argTypes) IN
   IF rs.idx = 0 THEN R(VVoid, Undef(S))
   ELSE LET m  == Class(S, rs.cls).methods[rs.idx]
            \* a virtual call runs the most-derived override of the receiver's dynamic class
            ic == IF virtualOk /\ (m.virtual \/ m.override) /\ r > 0 THEN ImplClass(S, Obj(S, r).cls, m) ELSE rs.cls
            mm == IF ic = rs.cls THEN m ELSE MethodIn(S, ic, m)
        IN Invoke(S, mm.params, mm.body, args, IF mm.static THEN 0 ELSE r, ic, mm.ret)

Eval(e, S) ==
   IF ~Ok(S) THEN R(VVoid, S) ELSE
   CASE e.k = "int"   -> R(VInt(e.v), S)
     [] e.k = "long"  -> R(IF "w" \in DOMAIN e THEN VWide([neg |-> e.neg, m |-> e.w]) ELSE VLong(e.v), S)
     [] e.k = "float" -> R(VFloat(e.n, e.d), S)
     [] e.k = "bit"   -> R(VBit(e.v), S)
     [] e.k = "bool"  -> R(VBool(e.v), S)
     [] e.k = "str"   -> R(VStr(e.v), S)
     [] e.k = "char"  -> R(VChar(e.v), S)
     [] e.k = "null"  -> R(VObj(0, ""), S)
     [] e.k = "this"  -> LET v == VObj(This(S), CtxClass(S)) IN R(v, Inc(S, v))
     [] e.k = "var"   -> LET v == ReadName(S, e.n) IN IF v.t = "void" THEN R(VVoid, Undef(S)) ELSE R(v, Inc(S, v))
     [] e.k = "paren" -> Eval(e.e, S)
     [] e.k = "bin"   -> LET a == Eval(e.l, S)  b == Eval(e.r, a.s) IN
                         IF ~Ok(b.s) THEN R(VVoid, b.s)
                         ELSE LET r == BinOp(e.op, a.v, b.v, b.s) IN R(r.v, DropTemp(DropTemp(r.s, a.v), b.v))
     [] e.k = "un"    -> LET a == Eval(e.e, S) IN IF ~Ok(a.s) THEN R(VVoid, a.s) ELSE UnOp(e.op, a.v, a.s)
     [] e.k = "cast"  -> LET a == Eval(e.e, S) IN IF ~Ok(a.s) THEN R(VVoid, a.s) ELSE Cast(e.t, a.v, a.s)
     [] e.k = "post"  -> LET cur == ReadName(S, e.n)
                             nv  == IF cur.t = "float" THEN VFloat(cur.n + (IF e.op = "++" THEN cur.d ELSE -cur.d), cur.d)
                                    ELSE MkInt(cur.t, IF e.op = "++" THEN cur.v + 1 ELSE cur.v - 1)
                         IN R(cur, WriteName(S, e.n, nv))          \* postfix yields the OLD value
     [] e.k = "asg"   -> LET a == Eval(e.e, S) IN
                         IF ~Ok(a.s) THEN R(VVoid, a.s) ELSE R(a.v, WriteName(a.s, e.n, a.v))   \* the temp becomes the result
     [] e.k = "idx"   -> LET a == Eval(e.a, S)  i == Eval(e.i, a.s) IN
                         IF ~Ok(i.s) THEN R(VVoid, i.s)
                         ELSE IF i.v.v < 0 \/ i.v.v >= Len(a.v.v) THEN R(VVoid, Fail(i.s, "oob"))
                         ELSE LET v == a.v.v[i.v.v + 1] IN R(v, DropAll(Inc(i.s, v), RefsIn(a.v)))
     \* the array is read after the index and the value have been evaluated: what those expressions wrote to it persists
     [] e.k = "aasg"  -> LET i == Eval(e.i, S)  x == Eval(e.e, i.s)  arr == ReadName(x.s, e.n) IN
                         IF ~Ok(x.s) THEN R(VVoid, x.s)
                         ELSE IF i.v.v < 0 \/ i.v.v >= Len(arr.v) THEN R(VVoid, Fail(x.s, "oob"))
                         ELSE LET nv == ElemConv(arr.et, x.v)
                                  old == arr.v[i.v.v + 1]
                                  S1 == WriteRaw(Inc(x.s, nv), e.n, [arr EXCEPT !.v[i.v.v + 1] = nv])
                              IN R(nv, Dec(S1, old))
     [] e.k = "arr"   -> LET a == EvalList(e.es, S) IN R(VArr(e.et, [j \in 1..Len(a.vs) |-> ElemConv(e.et, a.vs[j])]), a.s)
     [] e.k = "call"  -> IF ~HasFn(S, e.f) THEN R(VVoid, Undef(S))
                         ELSE LET a == EvalList(e.a, S)  f == Fn(S, e.f) IN
                              IF ~Ok(a.s) THEN R(VVoid, a.s)
                              ELSE LET r == Invoke(a.s, f.params, f.body, a.vs, 0, "", f.ret) IN R(r.v, DropGroup(r.s, a.vs))
     [] e.k = "new"   -> LET a == EvalList(e.a, S) IN
                         IF ~Ok(a.s) THEN R(VVoid, a.s)
                         ELSE LET r == NewObject(a.s, e.c, a.vs, StaticTypes(S, e.a)) IN R(r.v, DropGroup(r.s, a.vs))
     [] e.k = "fld"   -> LET o == Eval(e.o, S) IN
                         IF ~Ok(o.s) THEN R(VVoid, o.s)
                         ELSE IF o.v.r = 0 THEN R(VVoid, Fail(o.s, "null"))
                         ELSE LET v == GetField(o.s, o.v.r, e.f) IN R(v, DropTemp(Inc(o.s, v), o.v))
     [] e.k = "sfld"  -> LET c == StaticOwner(S, e.c, e.f)  v == S.stat[StatIdx(S.stat, c, e.f)].v IN R(v, Inc(S, v))
     [] e.k = "fasg"  -> LET o == Eval(e.o, S)  x == Eval(e.e, o.s) IN
                         IF ~Ok(x.s) THEN R(VVoid, x.s)
                         ELSE IF o.v.r = 0 THEN R(VVoid, Fail(x.s, "null"))
                         ELSE LET fd == FieldDecl(x.s, Obj(x.s, o.v.r).cls, e.f)
                                  nv == Conv(TypeName(fd.t), x.v)
                              IN R(nv, DropTemp(SetField(x.s, o.v.r, e.f, nv), o.v))
     [] e.k = "sfasg" -> LET x == Eval(e.e, S) IN
                         IF ~Ok(x.s) THEN R(VVoid, x.s)
                         ELSE LET c == StaticOwner(x.s, e.c, e.f)
                                  nv == Conv(TypeName(FieldDecl(x.s, c, e.f).t), x.v)
                              IN R(nv, SetStatic(x.s, c, e.f, nv))
     \* an unqualified call m(args) written in a static method (there is no 'this') is a static call in the class whose code is running
     [] e.k = "mcall" /\ e.o.k = "this" /\ This(S) = 0 /\ CtxClass(S) # "" ->
                         LET a == EvalList(e.a, S) IN
                         IF ~Ok(a.s) THEN R(VVoid, a.s)
                         ELSE LET r == CallMethod(a.s, 0, CtxClass(S), e.m, a.vs, StaticTypes(S, e.a), FALSE) IN R(r.v, DropGroup(r.s, a.vs))
     [] e.k = "mcall" -> LET o == Eval(e.o, S)  a == EvalList(e.a, o.s) IN
                         IF ~Ok(a.s) THEN R(VVoid, a.s)
                         ELSE IF o.v.r = 0 THEN R(VVoid, Fail(a.s, "null"))
                         ELSE LET ot == TypeOfE(S, e.o, CtxClass(S))
                                  c0 == IF "cls" \in DOMAIN ot THEN ot.cls ELSE Obj(a.s, o.v.r).cls
                                  r == CallMethod(a.s, o.v.r, c0, e.m, a.vs, StaticTypes(S, e.a), TRUE)
                              IN R(r.v, DropGroup(r.s, a.vs \o <<o.v>>))
     [] e.k = "scall" -> LET a == EvalList(e.a, S) IN
                         IF ~Ok(a.s) THEN R(VVoid, a.s)
                         ELSE LET r == CallMethod(a.s, 0, e.c, e.m, a.vs, StaticTypes(S, e.a), FALSE) IN R(r.v, DropGroup(r.s, a.vs))
     \* super.m(args) runs the base class's version: no virtual dispatch
     [] e.k = "supercall" -> LET a == EvalList(e.a, S) IN
                         IF ~Ok(a.s) THEN R(VVoid, a.s)
                         ELSE LET r == CallMethod(a.s, This(S), BaseOf(S, CtxClass(S)), e.m, a.vs, StaticTypes(S, e.a), FALSE)
                              IN R(r.v, DropGroup(r.s, a.vs))
     [] OTHER -> R(VVoid, Undef(S))

(* ================================================================== statements *)
RECURSIVE While(_,_,_), ForLoop(_,_,_,_)
ExecList(ss, S) == IF ss = <<>> \/ ~Ok(S) THEN S ELSE ExecList(Tail(ss), Exec(ss[1], S))
Block(ss, S) == LET S1 == ExecList(ss, PushScope(S)) IN IF S1.sig \in {"err", "undef"} THEN S1 ELSE PopScope(S1)
While(c, body, S) ==
   LET S0 == Tick(S) IN IF ~Ok(S0) THEN S0
   ELSE LET cv == Eval(c, S0) IN
        IF ~Ok(cv.s) \/ ~Truthy(cv.v) THEN cv.s
        ELSE LET S1 == Block(body, cv.s) IN IF Ok(S1) THEN While(c, body, S1) ELSE S1
ForLoop(c, upd, body, S) ==
   LET S0 == Tick(S) IN IF ~Ok(S0) THEN S0
   ELSE LET cv == IF c.k = "none" THEN R(VBool(TRUE), S0) ELSE Eval(c, S0) IN
        IF ~Ok(cv.s) \/ ~Truthy(cv.v) THEN cv.s
        ELSE LET S1 == Block(body, cv.s) IN
             IF ~Ok(S1) THEN S1
             ELSE IF upd.k = "none" THEN ForLoop(c, upd, body, S1)
             ELSE LET u == Eval(upd, S1) IN ForLoop(c, upd, body, DropTemp(u.s, u.v))

ArraySize(S, sz) == IF sz.k = "int" THEN sz.v ELSE ReadName(S, sz.n).v
Exec(st, S) ==
   IF ~Ok(S) THEN S ELSE
   CASE st.k = "decl" ->
          IF "arr" \in DOMAIN st.t THEN
             (IF st.init.k # "none" THEN
                 LET a == Eval(st.init, S) IN
                 IF ~Ok(a.s) THEN a.s
                 ELSE IF st.t.size.k # "none" /\ a.v.t = "arr" /\ ArraySize(S, st.t.size) # Len(a.v.v) THEN Fail(a.s, "arrlen")
                 ELSE Declare(a.s, st.n, a.v, st.t)
              ELSE IF st.t.size.k = "none" THEN Declare(S, st.n, VArr(st.t.arr, <<>>), st.t)
              ELSE LET n == ArraySize(S, st.t.size) IN
                   IF n < 0 THEN Fail(S, "arrneg")
                   ELSE Declare(S, st.n, VArr(st.t.arr, [j \in 1..n |-> IF st.t.arr = "obj" THEN VObj(0, "") ELSE DefaultOf(st.t.arr)]), st.t))
          ELSE IF st.init.k = "none" THEN
             Declare(S, st.n, IF "cls" \in DOMAIN st.t THEN VObj(0, "") ELSE DefaultOf(st.t.p), st.t)
          ELSE LET a == Eval(st.init, S) IN
               IF ~Ok(a.s) THEN a.s ELSE Declare(a.s, st.n, Conv(TypeName(st.t), a.v), st.t)     \* the temp moves into the variable
     [] st.k = "expr" -> LET a == Eval(st.e, S) IN IF Ok(a.s) THEN DropTemp(a.s, a.v) ELSE a.s
     [] st.k = "echo" -> LET a == Eval(st.e, S) IN
                         IF ~Ok(a.s) THEN a.s ELSE DropTemp([a.s EXCEPT !.out = Append(@, Show(a.v))], a.v)
     [] st.k = "if"   -> LET c == Eval(st.c, S) IN
                         IF ~Ok(c.s) THEN c.s ELSE IF Truthy(c.v) THEN Block(st.t, c.s) ELSE Block(st.e, c.s)
     \* statement-form conditional:  c ? s1; : s2;
     [] st.k = "tern" -> LET c == Eval(st.c, S) IN
                         IF ~Ok(c.s) THEN c.s ELSE IF Truthy(c.v) THEN Exec(st.t, c.s) ELSE Exec(st.e, c.s)
     [] st.k = "while" -> While(st.c, st.b, S)
     [] st.k = "for"  -> LET S1 == IF st.init.k = "none" THEN PushScope(S) ELSE Exec(st.init, PushScope(S))
                             S2 == ForLoop(st.c, st.upd, st.b, S1)
                         IN IF S2.sig \in {"err", "undef"} THEN S2 ELSE PopScope(S2)
     [] st.k = "block" -> Block(st.b, S)
     [] st.k = "ret"  -> IF st.e.k = "none" THEN [S EXCEPT !.sig = "ret", !.rv = VVoid]
                         ELSE LET a == Eval(st.e, S) IN IF ~Ok(a.s) THEN a.s ELSE [a.s EXCEPT !.sig = "ret", !.rv = a.v]
     \* destroy v;  drops the reference held by the variable (the object dies if that was the last one)
     [] st.k = "destroy" -> WriteName(S, st.n, VObj(0, ""))
     [] st.k = "super" -> S        \* handled by Construct
     [] OTHER -> Undef(S)

(* ================================================================== whole programs *)
RECURSIVE InitStatics(_,_,_)
InitStatics(S, cs, fs) ==        \* cs: remaining classes, fs: remaining fields of the current one
   IF ~Ok(S) THEN S
   ELSE IF fs = <<>> THEN (IF Len(cs) <= 1 THEN S ELSE InitStatics(S, Tail(cs), cs[2].fields))
   ELSE LET fd == fs[1] IN
        IF ~fd.static THEN InitStatics(S, cs, Tail(fs))
        ELSE LET dv == IF "p" \in DOMAIN fd.t THEN DefaultOf(fd.t.p) ELSE IF "arr" \in DOMAIN fd.t THEN VArr(fd.t.arr, <<>>) ELSE VObj(0, "")
                 S1 == [S EXCEPT !.stat = Append(@, [c |-> cs[1].name, n |-> fd.n, v |-> dv])]
             IN IF fd.init.k = "none" THEN InitStatics(S1, cs, Tail(fs))
                ELSE LET Sin == [S1 EXCEPT !.fr = Append(@, [sc |-> <<<<>>>>, this |-> 0, cls |-> cs[1].name])]
                         ev == Eval(fd.init, Sin)
                         S2 == [ev.s EXCEPT !.fr = SubSeq(@, 1, Len(@) - 1)]
                     IN IF ~Ok(S2) THEN S2
                        ELSE InitStatics(DropTemp(SetStatic(S2, cs[1].name, fd.n, Conv(TypeName(fd.t), ev.v)), ev.v), cs, Tail(fs))

Fuel == 600
Start(prog) == [fr |-> <<[sc |-> <<<<>>>>, this |-> 0, cls |-> ""]>>, heap |-> <<>>, stat |-> <<>>, out |-> <<>>,
                sig |-> "ok", rv |-> VVoid, err |-> "", fuel |-> Fuel, prog |-> prog, grp |-> FALSE]
Run(prog) ==
   LET S0 == Start(prog)
       S1 == IF prog.classes = <<>> THEN S0 ELSE InitStatics(S0, prog.classes, prog.classes[1].fields)
       m  == Fn(S1, "main")
       r  == IF Ok(S1) THEN Invoke(S1, <<>>, m.body, <<>>, 0, "", m.ret).s ELSE S1
   IN [out |-> r.out, status |-> IF r.sig = "err" THEN "err:" \o r.err ELSE IF r.sig = "undef" THEN "undef" ELSE "ok"]
=============================================================================
