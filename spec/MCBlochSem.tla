---------------------------- MODULE MCBlochSem ----------------------------
(* TLC as the executor of the reference semantics: one initial state per program (read from the ndjson file
   named by SEM_CASES), Run evaluated by an invariant that serialises [id, out, status] to SEM_OUT.        *)
EXTENDS BlochSem, Json, IOUtils
Cases == ndJsonDeserialize(IOEnv.SEM_CASES)
VARIABLE cid
Init == cid \in 1..Len(Cases)
Spec == Init /\ [][UNCHANGED cid]_cid
Dump == LET r == Run(Cases[cid].prog)
            j == ToJson([id |-> Cases[cid].id, out |-> r.out, status |-> r.status])
        IN /\ Len(j) > 0
           /\ Serialize(j \o "\n", IOEnv.SEM_OUT, [format |-> "TXT", charset |-> "UTF-8",
                        openOptions |-> <<"WRITE","CREATE","APPEND">>]).exitValue = 0
=============================================================================
