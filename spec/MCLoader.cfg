SPECIFICATION Spec
INVARIANTS Laws Dump
CHECK_DEADLOCK FALSE
