---------------------------- MODULE RunLifecycle ----------------------------
(***************************************************************************)
(* C12 / C13: the outcome envelope of the tool.                            *)
(*  Run of an accepted program:  Idle -Start-> Running -(Exit0 | Diag)->   *)
(*  TornDown: the only terminal events are normal completion (status 0) and*)
(*  one located or unlocated Bloch 'Runtime error' diagnostic (status 1).  *)
(*  Front end on arbitrary text:  Idle -Begin-> Lexing -> Parsing ->       *)
(*  Loading -> Analysing -> (Accepted | one of Lexical/Parse/Semantic)     *)
(*  after which the machine is Idle again with the SAME verdict function   *)
(*  (sentinel inputs must still be judged as before).                      *)
(* The observer (sanitizer build, watchdog, signal status) may log other   *)
(* terminal events - signal, sanitizer, raw C++ exception, uncategorised   *)
(* error, timeout - for which this specification has NO action: a trace    *)
(* containing one is rejected.                                             *)
(***************************************************************************)
EXTENDS Integers, Sequences, Json, IOUtils, TLC
Tr == ndJsonDeserialize(IOEnv.RUN_TRACE)
VARIABLES st, l, sentinelOk
rv == <<st, l, sentinelOk>>
IsEv(name) == l <= Len(Tr) /\ Tr[l].e = name /\ l' = l + 1
Init == st = "idle" /\ l = 1 /\ sentinelOk = TRUE
\* ---- running an accepted program
Start == IsEv("start") /\ st = "idle" /\ st' = "running" /\ UNCHANGED sentinelOk
Exit0 == IsEv("exit0") /\ st = "running" /\ st' = "idle" /\ UNCHANGED sentinelOk
Diag  == IsEv("runtime_diag") /\ st = "running" /\ st' = "idle" /\ UNCHANGED sentinelOk
\* ---- the front end on arbitrary text
Begin    == IsEv("begin") /\ st = "idle" /\ st' = "front" /\ UNCHANGED sentinelOk
Accepted == IsEv("accepted") /\ st = "front" /\ st' = "idle" /\ UNCHANGED sentinelOk
Reject   == \E c \in {"lexical", "parse", "semantic"} : IsEv(c) /\ st = "front" /\ st' = "idle" /\ UNCHANGED sentinelOk
\* a sentinel is an input whose verdict is known; the event carries the expected and the observed verdict
Sentinel == IsEv("sentinel") /\ st = "idle" /\ Tr[l].want = Tr[l].got /\ UNCHANGED <<st, sentinelOk>>
Next == Start \/ Exit0 \/ Diag \/ Begin \/ Accepted \/ Reject \/ Sentinel
Spec == Init /\ [][Next]_rv
NotAccepted == l <= Len(Tr)      \* violated <=> the whole log is a behaviour of this specification
TypeOK == st \in {"idle", "running", "front"}
\* where the log stops being explainable (for the report)
Progress == TLCSet(2, IF TLCGet(2) < l THEN l ELSE TLCGet(2))
=============================================================================
