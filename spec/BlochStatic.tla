----------------------------- MODULE BlochStatic -----------------------------
(***************************************************************************)
(* C16: the static rules of Bloch, written from docs/language/semantics.md,*)
(* docs/bloch_class_system.md and docs/null.md, as a checker over the      *)
(* shared JSON abstract syntax (harness/py/bsyntax.py renders the same     *)
(* trees to source text; BlochSem.tla gives them their dynamic meaning).   *)
(*                                                                         *)
(*   Verdict(prog) = [v : "accept" | "reject" | "unspec", rule : STRING]   *)
(*                                                                         *)
(* "reject" is returned only for a violation of one of the rules the       *)
(* documentation states outright (the list in the header of each section   *)
(* below); "unspec" marks a program that is ill-formed in a way the        *)
(* documentation does not settle (mixed-type arithmetic, equality between  *)
(* a reference and a number, ...): such programs are never used as an      *)
(* oracle.  The rules are position-independent BY CONSTRUCTION: the same   *)
(* operator E types an expression wherever it occurs (statement, operand,  *)
(* argument, loop header, initialiser of a field, ...), and the context C  *)
(* (current class, static flag, constructor flag, nesting depth, scopes)   *)
(* is threaded through every statement form by S.                          *)
(***************************************************************************)
EXTENDS Integers, Sequences, FiniteSets, TLC

(* ------------------------------------------------------------------ types *)
T(k, n)  == [k |-> k, n |-> n]
TInt     == T("p", "int")
TLong    == T("p", "long")
TFloat   == T("p", "float")
TBit     == T("p", "bit")
TBool    == T("p", "bool")
TStr     == T("p", "str")
TVoid    == T("p", "void")
TNull    == T("null", "")
TAny     == T("any", "")            \* type of an expression the documentation does not type
FromJson(t) == IF "p" \in DOMAIN t THEN T("p", t.p)
               ELSE IF "arr" \in DOMAIN t THEN T("a", t.arr)
               ELSE T("c", t.cls)
IsNumeric(t) == t.k = "p" /\ t.n \in {"int", "long", "float"}
IsBoolLike(t) == t.k = "p" /\ t.n \in {"bool", "bit"}
Promote(a, b) == IF a.n = "float" \/ b.n = "float" THEN TFloat ELSE IF a.n = "long" \/ b.n = "long" THEN TLong ELSE TInt

(* ------------------------------------------------------------------ program lookup (by NAME) *)
RECURSIVE FindByName(_,_)
FindByName(seq, name) == IF seq = <<>> THEN 0 ELSE IF seq[1].name = name THEN 1
                         ELSE LET r == FindByName(Tail(seq), name) IN IF r = 0 THEN 0 ELSE r + 1
RECURSIVE FindByN(_,_)
FindByN(seq, n) == IF seq = <<>> THEN 0 ELSE IF seq[1].n = n THEN 1
                   ELSE LET r == FindByN(Tail(seq), n) IN IF r = 0 THEN 0 ELSE r + 1
HasFn(P, f)    == FindByName(P.funcs, f) > 0
Fn(P, f)       == P.funcs[FindByName(P.funcs, f)]
HasClass(P, c) == FindByName(P.classes, c) > 0
Class(P, c)    == P.classes[FindByName(P.classes, c)]
RECURSIVE IsSub(_,_,_)
IsSub(P, c, b) == IF c = b THEN TRUE ELSE IF c = "" \/ ~HasClass(P, c) THEN FALSE ELSE IsSub(P, Class(P, c).base, b)

(* RULE (types): a value is accepted where type `want` is expected only if it has that type, is an int widening
   to long, is an instance of a subclass, or is null for a class reference.                                      *)
Assignable(P, want, got) ==
   IF got.k = "any" \/ want.k = "any" THEN TRUE
   ELSE IF got = TVoid THEN FALSE
   ELSE IF got.k = "null" THEN want.k = "c"
   ELSE IF want.k = "p" THEN got.k = "p" /\ (got.n = want.n \/ (want.n = "long" /\ got.n = "int"))
   ELSE IF want.k = "c" THEN got.k = "c" /\ IsSub(P, got.n, want.n)
   ELSE got = want

\* documented element conversions of array literals
ElemOk(et, got) == got.k = "p" /\ (got.n = et \/ (et = "int" /\ got.n \in {"bit", "float"}) \/ (et = "float" /\ got.n \in {"int", "bit"}))

RECURSIVE LookupField(_,_,_)
LookupField(P, c, n) ==
   IF c = "" \/ ~HasClass(P, c) THEN [found |-> FALSE]
   ELSE LET i == FindByN(Class(P, c).fields, n) IN
        IF i > 0 THEN [found |-> TRUE, owner |-> c, f |-> Class(P, c).fields[i]]
        ELSE LookupField(P, Class(P, c).base, n)

ParamTypes(ps) == [i \in 1..Len(ps) |-> FromJson(ps[i].t)]
Applicable(P, ps, ats) == Len(ps) = Len(ats) /\ \A i \in 1..Len(ats) : Assignable(P, FromJson(ps[i].t), ats[i])
RECURSIVE LookupMethod(_,_,_,_)
LookupMethod(P, c, m, ats) ==           \* nearest applicable method of that name
   IF c = "" \/ ~HasClass(P, c) THEN [found |-> FALSE]
   ELSE LET cand == SelectSeq(Class(P, c).methods, LAMBDA x : x.name = m /\ Applicable(P, x.params, ats)) IN
        IF cand # <<>> THEN [found |-> TRUE, owner |-> c, m |-> cand[1]]
        ELSE LookupMethod(P, Class(P, c).base, m, ats)

\* RULE (abstract): a class is abstract if declared so or if a bodiless virtual method of its hierarchy is not
\* implemented at or below the declaring class
Sig(m) == <<m.name, ParamTypes(m.params)>>
RECURSIVE Unimplemented(_,_)
Unimplemented(P, c) ==
   IF c = "" \/ ~HasClass(P, c) THEN {}
   ELSE LET ms == Class(P, c).methods
            here == {Sig(ms[i]) : i \in {j \in 1..Len(ms) : ms[j].abstract_body}}
            impl == {Sig(ms[i]) : i \in {j \in 1..Len(ms) : ~ms[j].abstract_body}}
        IN (Unimplemented(P, Class(P, c).base) \ impl) \cup here
IsAbstract(P, c) == Class(P, c).abstract \/ Unimplemented(P, c) # {}

(* ------------------------------------------------------------------ context *)
\* C = [prog, cls : current class or "", static, ctor, depth, fa : names of final fields assigned so far in this
\*      constructor, ret : return type, kind : "fn" | "method" | "ctor" | "dtor" | "init", sc : stack of scopes,
\*      err : first violated rule or "", unspec : BOOLEAN]
Ctx(P, cls, static, kind, ret) == [prog |-> P, cls |-> cls, static |-> static, ctor |-> (kind = "ctor"), depth |-> 0, fa |-> <<>>,
                                   ret |-> ret, kind |-> kind, sc |-> << <<>> >>, err |-> "", unspec |-> FALSE]
Err(C, rule) == IF C.err = "" THEN [C EXCEPT !.err = rule] ELSE C
Unspec(C)    == [C EXCEPT !.unspec = TRUE]
RT(t, C)     == [t |-> t, c |-> C]
Bad(C, rule) == RT(TAny, Err(C, rule))
Dunno(C)     == RT(TAny, Unspec(C))

RECURSIVE FindLocal(_,_)
FindLocal(scs, n) ==          \* innermost first; every active scope counts (no shadowing)
   IF scs = <<>> THEN [found |-> FALSE]
   ELSE LET sc == scs[Len(scs)]  i == FindByN(sc, n) IN
        IF i > 0 THEN [found |-> TRUE, t |-> sc[i].t, final |-> sc[i].final]
        ELSE FindLocal(SubSeq(scs, 1, Len(scs) - 1), n)
Declare(C, n, t, final) == [C EXCEPT !.sc[Len(C.sc)] = Append(@, [n |-> n, t |-> t, final |-> final])]
Push(C) == [C EXCEPT !.sc = Append(@, <<>>), !.depth = @ + 1]
Pop(C)  == [C EXCEPT !.sc = SubSeq(@, 1, Len(@) - 1), !.depth = @ - 1]

\* RULE (access): private members only inside the declaring class, protected only inside its hierarchy
Access(C, vis, owner) == \/ vis = "public"
                         \/ vis = "private" /\ C.cls = owner
                         \/ vis = "protected" /\ C.cls # "" /\ IsSub(C.prog, C.cls, owner)

\* RULE (types/void/null) at a sink of declared type `want`
Sink(C, want, got) ==
   IF C.err # "" \/ got.k = "any" THEN C
   ELSE IF got = TVoid THEN Err(C, "void-value")
   ELSE IF got.k = "null" THEN (IF want.k = "c" THEN C ELSE Err(C, "null-nonclass"))
   ELSE IF Assignable(C.prog, want, got) THEN C ELSE Err(C, "type")

\* RULE (final fields): never assigned outside a constructor of the declaring class; there exactly once, as a
\* top-level statement, through `this` (or the bare name), and only without a declaration initialiser
FinalWrite(C, owner, f, viaThis) ==
   IF ~f.final \/ C.err # "" THEN C
   ELSE IF f.static \/ ~C.ctor \/ ~viaThis THEN Err(C, "final-field")
   ELSE IF C.depth > 0 THEN Err(C, "final-nested")
   ELSE IF owner # C.cls THEN Err(C, "final-inherited")
   ELSE IF f.init.k # "none" THEN Err(C, "final-has-init")
   ELSE IF \E i \in 1..Len(C.fa) : C.fa[i] = f.n THEN Err(C, "final-twice")
   ELSE [C EXCEPT !.fa = Append(@, f.n)]

(* ------------------------------------------------------------------ expressions *)
RECURSIVE E(_,_), EArgs(_,_), ETop(_,_)
EArgs(as, C) == IF as = <<>> THEN [ts |-> <<>>, c |-> C]
                ELSE LET h == E(as[1], C)  r == EArgs(Tail(as), h.c) IN [ts |-> <<h.t>> \o r.ts, c |-> r.c]

\* a bare name: local, else field of the current class hierarchy
EVar(n, C) ==
   LET l == FindLocal(C.sc, n) IN
   IF l.found THEN RT(l.t, C)
   ELSE LET lf == LookupField(C.prog, C.cls, n) IN
        IF ~lf.found THEN Bad(C, "undeclared")
        ELSE IF ~Access(C, lf.f.vis, lf.owner) THEN Bad(C, "access")
        ELSE IF C.static /\ ~lf.f.static THEN Bad(C, "static-context")
        ELSE RT(FromJson(lf.f.t), C)

EBin(e, C) ==
   LET l == E(e.l, C)  r == E(e.r, l.c)  C2 == r.c  lt == l.t  rt == r.t  op == e.op IN
   IF C2.err # "" THEN RT(TAny, C2)
   ELSE IF lt = TVoid \/ rt = TVoid THEN Bad(C2, "void-operand")
   ELSE IF lt.k = "any" \/ rt.k = "any" THEN RT(TAny, C2)
   ELSE IF lt.k = "null" \/ rt.k = "null" THEN
        IF op \notin {"==", "!="} THEN Bad(C2, "null-operator")
        ELSE IF lt.k = "null" /\ rt.k = "null" THEN Dunno(C2)
        ELSE IF (IF lt.k = "null" THEN rt ELSE lt).k = "c" THEN RT(TBool, C2) ELSE Bad(C2, "null-nonclass")
   ELSE IF op \in {"==", "!="} THEN
        IF (lt.k = "c" /\ rt.k = "c") \/ (IsNumeric(lt) /\ IsNumeric(rt)) \/ (lt.k = "p" /\ lt = rt) THEN RT(TBool, C2) ELSE Dunno(C2)
   ELSE IF op \in {"&&", "||"} THEN (IF IsBoolLike(lt) /\ IsBoolLike(rt) THEN RT(TBool, C2) ELSE Dunno(C2))
   ELSE IF op \in {"&", "|", "^"} THEN (IF lt = TBit /\ rt = TBit THEN RT(TBit, C2) ELSE Dunno(C2))
   ELSE IF op = "+" /\ (lt = TStr \/ rt = TStr) THEN
        (IF lt.k = "p" /\ rt.k = "p" /\ {lt.n, rt.n} \subseteq {"str", "int", "long", "bit", "bool"} THEN RT(TStr, C2) ELSE Dunno(C2))
   ELSE IF op \in {"+", "-", "*"} THEN (IF IsNumeric(lt) /\ IsNumeric(rt) THEN RT(Promote(lt, rt), C2) ELSE Dunno(C2))
   ELSE IF op = "%" THEN (IF {lt, rt} \subseteq {TInt, TLong} THEN RT(Promote(lt, rt), C2) ELSE Dunno(C2))
   ELSE IF op \in {"<", ">", "<=", ">="} THEN (IF IsNumeric(lt) /\ IsNumeric(rt) THEN RT(TBool, C2) ELSE Dunno(C2))
   ELSE Dunno(C2)

EUn(e, C) ==
   LET r == E(e.e, C)  t == r.t IN
   IF r.c.err # "" \/ t.k = "any" THEN RT(TAny, r.c)
   ELSE IF t = TVoid THEN Bad(r.c, "void-operand")
   ELSE IF t.k = "null" THEN Bad(r.c, "null-operator")
   ELSE IF e.op = "-" /\ IsNumeric(t) THEN RT(t, r.c)
   ELSE IF e.op = "!" /\ t = TBool THEN RT(TBool, r.c)
   ELSE IF e.op = "~" /\ t = TBit THEN RT(TBit, r.c)
   ELSE Dunno(r.c)

\* RULE (final): a final variable or field is never incremented
EPost(e, C) ==
   LET l == FindLocal(C.sc, e.n) IN
   IF l.found THEN (IF l.final THEN Bad(C, "final-var") ELSE IF l.t = TInt THEN RT(TInt, C) ELSE Dunno(C))
   ELSE LET lf == LookupField(C.prog, C.cls, e.n) IN
        IF ~lf.found THEN Bad(C, "undeclared")
        ELSE IF ~Access(C, lf.f.vis, lf.owner) THEN Bad(C, "access")
        ELSE IF C.static /\ ~lf.f.static THEN Bad(C, "static-context")
        ELSE IF lf.f.final THEN Bad(C, "final-field")
        ELSE IF FromJson(lf.f.t) = TInt THEN RT(TInt, C) ELSE Dunno(C)

ECast(e, C) ==
   LET r == E(e.e, C)  t == r.t IN
   IF r.c.err # "" \/ t.k = "any" THEN RT(TAny, r.c)
   ELSE IF t = TVoid THEN Bad(r.c, "void-operand")
   ELSE IF t.k = "null" THEN Bad(r.c, "null-operator")
   ELSE IF e.t \in {"int", "long", "float", "bit"} /\ t.k = "p" /\ t.n \in {"int", "long", "float", "bit"} THEN RT(T("p", e.t), r.c)
   ELSE Dunno(r.c)

\* RULE (void): passing the result of a void call is a type error like any other argument mismatch
ECall(e, C) ==
   LET a == EArgs(e.a, C)  C2 == a.c  P == C.prog IN
   IF C2.err # "" THEN RT(TAny, C2)
   ELSE IF ~HasFn(P, e.f) THEN (IF e.f \in {"h", "x", "y", "z", "rx", "ry", "rz", "cx"} THEN Dunno(C2) ELSE Bad(C2, "undeclared"))
   ELSE LET fn == Fn(P, e.f) IN
        IF Len(fn.params) # Len(a.ts) THEN Bad(C2, "arity")
        ELSE IF \E i \in 1..Len(a.ts) : a.ts[i] = TVoid THEN Bad(C2, "void-value")
        ELSE IF \E i \in 1..Len(a.ts) : a.ts[i].k = "null" /\ FromJson(fn.params[i].t).k # "c" THEN Bad(C2, "null-nonclass")
        ELSE IF ~Applicable(P, fn.params, a.ts) THEN Bad(C2, "type")
        ELSE RT(FromJson(fn.ret), C2)

ArgRule(P, ats) == IF \E i \in 1..Len(ats) : ats[i] = TVoid THEN "void-value" ELSE "type"

EMCall(e, C) ==
   IF e.bare THEN
      LET a == EArgs(e.a, C)  C2 == a.c IN
      IF C2.err # "" THEN RT(TAny, C2)
      ELSE IF C.cls = "" THEN Bad(C2, "undeclared")
      ELSE LET lm == LookupMethod(C.prog, C.cls, e.m, a.ts) IN
           IF ~lm.found THEN Bad(C2, ArgRule(C.prog, a.ts))
           ELSE IF ~Access(C2, lm.m.vis, lm.owner) THEN Bad(C2, "access")
           ELSE IF C.static /\ ~lm.m.static THEN Bad(C2, "static-context")
           ELSE RT(FromJson(lm.m.ret), C2)
   ELSE
      LET o == E(e.o, C)  a == EArgs(e.a, o.c)  C2 == a.c  ot == o.t IN
      IF C2.err # "" \/ ot.k = "any" THEN RT(TAny, C2)
      ELSE IF ot = TVoid THEN Bad(C2, "void-operand")
      ELSE IF ot.k # "c" \/ ~HasClass(C.prog, ot.n) THEN Dunno(C2)
      ELSE LET lm == LookupMethod(C.prog, ot.n, e.m, a.ts) IN
           IF ~lm.found THEN Bad(C2, ArgRule(C.prog, a.ts))
           ELSE IF ~Access(C2, lm.m.vis, lm.owner) THEN Bad(C2, "access")
           ELSE IF lm.m.static THEN Dunno(C2)
           ELSE RT(FromJson(lm.m.ret), C2)

ESCall(e, C) ==
   LET a == EArgs(e.a, C)  C2 == a.c IN
   IF C2.err # "" THEN RT(TAny, C2)
   ELSE IF ~HasClass(C.prog, e.c) THEN Dunno(C2)
   ELSE LET lm == LookupMethod(C.prog, e.c, e.m, a.ts) IN
        IF ~lm.found THEN Bad(C2, ArgRule(C.prog, a.ts))
        ELSE IF ~Access(C2, lm.m.vis, lm.owner) THEN Bad(C2, "access")
        ELSE IF ~lm.m.static THEN Dunno(C2)
        ELSE RT(FromJson(lm.m.ret), C2)

\* RULE (static context): super is illegal in a static context
ESuperCall(e, C) ==
   LET a == EArgs(e.a, C)  C2 == a.c IN
   IF C2.err # "" THEN RT(TAny, C2)
   ELSE IF C.cls = "" THEN Bad(C2, "super-outside-class")
   ELSE IF C.static THEN Bad(C2, "static-context")
   ELSE IF Class(C.prog, C.cls).base = "" THEN Dunno(C2)
   ELSE LET lm == LookupMethod(C.prog, Class(C.prog, C.cls).base, e.m, a.ts) IN
        IF ~lm.found THEN Bad(C2, ArgRule(C.prog, a.ts))
        ELSE IF ~Access(C2, lm.m.vis, lm.owner) THEN Bad(C2, "access")
        ELSE IF lm.m.abstract_body THEN Dunno(C2)
        ELSE RT(FromJson(lm.m.ret), C2)

\* RULE (instantiation): static and abstract classes are never instantiated; the constructor must be accessible
ENew(e, C) ==
   LET a == EArgs(e.a, C)  C2 == a.c  P == C.prog IN
   IF C2.err # "" THEN RT(TAny, C2)
   ELSE IF ~HasClass(P, e.c) THEN Dunno(C2)
   ELSE LET cl == Class(P, e.c)
            cand == SelectSeq(cl.ctors, LAMBDA k : Applicable(P, k.params, a.ts)) IN
        IF cl.static THEN Bad(C2, "new-static")
        ELSE IF IsAbstract(P, e.c) THEN Bad(C2, "new-abstract")
        ELSE IF cand = <<>> THEN Bad(C2, ArgRule(P, a.ts))
        ELSE IF Len(cand) > 1 THEN Dunno(C2)
        ELSE IF ~Access(C2, cand[1].vis, e.c) THEN Bad(C2, "access")
        ELSE RT(T("c", e.c), C2)

EFld(e, C) ==
   LET o == E(e.o, C)  C2 == o.c  ot == o.t IN
   IF C2.err # "" \/ ot.k = "any" THEN RT(TAny, C2)
   ELSE IF ot = TVoid THEN Bad(C2, "void-operand")
   ELSE IF ot.k # "c" THEN Dunno(C2)
   ELSE LET lf == LookupField(C.prog, ot.n, e.f) IN
        IF ~lf.found THEN Dunno(C2)
        ELSE IF ~Access(C2, lf.f.vis, lf.owner) THEN Bad(C2, "access")
        ELSE IF lf.f.static THEN Dunno(C2)
        ELSE RT(FromJson(lf.f.t), C2)

ESFld(e, C) ==
   LET lf == LookupField(C.prog, e.c, e.f) IN
   IF ~lf.found THEN Dunno(C)
   ELSE IF ~Access(C, lf.f.vis, lf.owner) THEN Bad(C, "access")
   ELSE IF ~lf.f.static THEN Dunno(C)
   ELSE RT(FromJson(lf.f.t), C)

EIdx(e, C) ==
   LET a == E(e.a, C)  i == E(e.i, a.c)  C2 == i.c IN
   IF C2.err # "" \/ a.t.k = "any" \/ i.t.k = "any" THEN RT(TAny, C2)
   ELSE IF a.t = TVoid \/ i.t = TVoid THEN Bad(C2, "void-operand")
   ELSE IF i.t.k = "null" \/ a.t.k = "null" THEN Bad(C2, "null-operator")
   ELSE IF a.t.k = "a" /\ i.t = TInt THEN RT(T("p", a.t.n), C2)
   ELSE Dunno(C2)

\* RULE (final): a final variable is never assigned after its declaration, whatever form the assignment takes
EAsg(e, C) ==
   LET l == FindLocal(C.sc, e.n) IN
   IF l.found THEN
      IF l.final THEN Bad(C, "final-var")
      ELSE LET v == E(e.e, C) IN RT(l.t, Sink(v.c, l.t, v.t))
   ELSE LET lf == LookupField(C.prog, C.cls, e.n) IN
        IF ~lf.found THEN Bad(C, "undeclared")
        ELSE IF ~Access(C, lf.f.vis, lf.owner) THEN Bad(C, "access")
        ELSE IF C.static /\ ~lf.f.static THEN Bad(C, "static-context")
        ELSE LET C1 == FinalWrite(C, lf.owner, lf.f, TRUE)  v == E(e.e, C1) IN
             RT(FromJson(lf.f.t), Sink(v.c, FromJson(lf.f.t), v.t))

EFAsg(e, C) ==
   LET o == E(e.o, C)  C2 == o.c  ot == o.t IN
   IF C2.err # "" \/ ot.k = "any" THEN RT(TAny, C2)
   ELSE IF ot = TVoid THEN Bad(C2, "void-operand")
   ELSE IF ot.k # "c" THEN Dunno(C2)
   ELSE LET lf == LookupField(C.prog, ot.n, e.f) IN
        IF ~lf.found THEN Dunno(C2)
        ELSE IF ~Access(C2, lf.f.vis, lf.owner) THEN Bad(C2, "access")
        ELSE IF lf.f.static THEN Dunno(C2)
        ELSE LET C3 == FinalWrite(C2, lf.owner, lf.f, e.o.k = "this")  v == E(e.e, C3) IN
             RT(FromJson(lf.f.t), Sink(v.c, FromJson(lf.f.t), v.t))

ESFAsg(e, C) ==
   LET lf == LookupField(C.prog, e.c, e.f) IN
   IF ~lf.found THEN Dunno(C)
   ELSE IF ~Access(C, lf.f.vis, lf.owner) THEN Bad(C, "access")
   ELSE IF ~lf.f.static THEN Dunno(C)
   ELSE IF lf.f.final THEN Bad(C, "final-field")
   ELSE LET v == E(e.e, C) IN RT(FromJson(lf.f.t), Sink(v.c, FromJson(lf.f.t), v.t))

EAAsg(e, C) ==
   LET a == EVar(e.n, C)  i == E(e.i, a.c)  v == E(e.e, i.c)  C2 == v.c IN
   IF C2.err # "" \/ a.t.k = "any" \/ i.t.k = "any" \/ v.t.k = "any" THEN RT(TAny, C2)
   ELSE IF i.t = TVoid THEN Bad(C2, "void-operand")
   ELSE IF v.t = TVoid THEN Bad(C2, "void-value")
   ELSE IF v.t.k = "null" THEN Bad(C2, "null-nonclass")
   ELSE IF a.t.k # "a" \/ i.t # TInt THEN Dunno(C2)
   ELSE IF v.t = T("p", a.t.n) THEN RT(v.t, C2)
   ELSE IF v.t.k # "p" THEN Bad(C2, "type")
   ELSE IF ElemOk(a.t.n, v.t) \/ (v.t = TInt /\ a.t.n = "long") THEN Dunno(C2)      \* conversions documented for literals only
   ELSE Bad(C2, "type")

E(e, C) ==
   IF C.err # "" THEN RT(TAny, C) ELSE
   CASE e.k = "int"   -> RT(TInt, C)
     [] e.k = "long"  -> RT(TLong, C)
     [] e.k = "float" -> RT(TFloat, C)
     [] e.k = "bit"   -> RT(TBit, C)
     [] e.k = "bool"  -> RT(TBool, C)
     [] e.k = "str"   -> RT(TStr, C)
     [] e.k = "char"  -> RT(T("p", "char"), C)
     [] e.k = "null"  -> RT(TNull, C)
     \* RULE (static context): this is illegal outside instance code
     [] e.k = "this"  -> IF C.cls = "" THEN Bad(C, "this-outside-class") ELSE IF C.static THEN Bad(C, "static-context") ELSE RT(T("c", C.cls), C)
     [] e.k = "var"   -> EVar(e.n, C)
     [] e.k = "paren" -> E(e.e, C)
     [] e.k = "bin"   -> EBin(e, C)
     [] e.k = "un"    -> EUn(e, C)
     [] e.k = "post"  -> EPost(e, C)
     [] e.k = "cast"  -> ECast(e, C)
     [] e.k = "call"  -> ECall(e, C)
     [] e.k = "mcall" -> EMCall(e, C)
     [] e.k = "scall" -> ESCall(e, C)
     [] e.k = "supercall" -> ESuperCall(e, C)
     [] e.k = "new"   -> ENew(e, C)
     [] e.k = "fld"   -> EFld(e, C)
     [] e.k = "sfld"  -> ESFld(e, C)
     [] e.k = "idx"   -> EIdx(e, C)
     \* the VALUE of an assignment used inside a larger expression is not documented: the rules on the assignment itself
     \* apply wherever it is written, what the enclosing expression may do with its value is left open
     [] e.k \in {"asg", "fasg", "sfasg", "aasg"} -> Dunno(ETop(e, C).c)
     [] OTHER -> Dunno(C)

\* an expression that is a whole statement or for-clause
ETop(e, C) ==
   IF C.err # "" THEN RT(TAny, C) ELSE
   CASE e.k = "asg"   -> EAsg(e, C)
     [] e.k = "fasg"  -> EFAsg(e, C)
     [] e.k = "sfasg" -> ESFAsg(e, C)
     [] e.k = "aasg"  -> EAAsg(e, C)
     [] OTHER -> E(e, C)

(* ------------------------------------------------------------------ initialisers *)
\* array literal for an array of element type et
RECURSIVE Elems(_,_,_)
Elems(es, et, C) ==
   IF es = <<>> \/ C.err # "" THEN C
   ELSE LET v == E(es[1], C)
            C2 == IF v.c.err # "" \/ v.t.k = "any" THEN v.c
                  ELSE IF v.t = TVoid THEN Err(v.c, "void-value")
                  ELSE IF v.t.k = "null" THEN Err(v.c, "null-nonclass")
                  ELSE IF ElemOk(et, v.t) THEN v.c
                  ELSE IF et \in {"int", "long"} /\ v.t \in {TInt, TLong} THEN Unspec(v.c)    \* truncation is applied but not documented
                  ELSE Err(v.c, "type")
        IN Elems(Tail(es), et, C2)
Initialiser(C, t, init) ==
   IF init.k = "arr" THEN (IF t.k = "a" THEN (IF t.n = "qubit" THEN Unspec(C) ELSE Elems(init.es, t.n, C)) ELSE Err(C, "type"))
   ELSE LET v == E(init, C) IN Sink(v.c, t, v.t)

TypeKnown(P, t) == t.k # "c" \/ HasClass(P, t.n)

(* ------------------------------------------------------------------ statements *)
CondOk(C, t) == IF C.err # "" \/ t.k = "any" THEN C
                ELSE IF t = TVoid THEN Err(C, "void-operand")
                ELSE IF t.k = "null" THEN Err(C, "null-nonclass")       \* null is never implicitly converted
                ELSE IF IsBoolLike(t) THEN C ELSE Unspec(C)

RECURSIVE S(_,_), Ss(_,_)
Ss(ss, C) == IF ss = <<>> \/ C.err # "" THEN C ELSE Ss(Tail(ss), S(ss[1], C))
Scoped(ss, C) == Pop(Ss(ss, Push(C)))

\* RULE (scopes): no redeclaration in any active scope; use only after declaration
\* RULE (void): no void variables; RULE (final): a final variable is initialised at its declaration
SDecl(s, C) ==
   LET t == FromJson(s.t) IN
   IF FindLocal(C.sc, s.n).found THEN Err(C, "redeclared")
   ELSE IF t = TVoid THEN Err(C, "void-variable")
   ELSE IF s.final /\ s.init.k = "none" THEN Err(C, "final-uninitialised")
   ELSE LET C1 == IF TypeKnown(C.prog, t) THEN C ELSE Unspec(C)
            C2 == IF s.init.k = "none" THEN C1 ELSE Initialiser(C1, t, s.init)
        IN Declare(C2, s.n, t, s.final)

\* RULE (return): no value from a void function, no bare return from a non-void one
SRet(s, C) ==
   IF C.kind = "ctor" THEN Unspec(C)         \* a constructor's return type is its class; only 'return this;' is documented
   ELSE IF C.kind = "dtor" THEN Unspec(C)    \* ... and the documentation gives destructors the class as return type as well
   ELSE IF C.ret = TVoid THEN (IF s.e.k = "none" THEN C ELSE Err(C, "return-value-in-void"))
   ELSE IF s.e.k = "none" THEN Err(C, "bare-return-in-non-void")
   ELSE LET v == E(s.e, C) IN Sink(v.c, C.ret, v.t)

SSuper(s, C) ==
   LET a == EArgs(s.a, C)  C2 == a.c  P == C.prog  b == Class(P, C.cls).base IN
   IF C2.err # "" THEN C2
   ELSE IF ~C.ctor \/ b = "" \/ ~HasClass(P, b) THEN Unspec(C2)
   ELSE LET cand == SelectSeq(Class(P, b).ctors, LAMBDA k : Applicable(P, k.params, a.ts)) IN
        IF cand = <<>> THEN Err(C2, ArgRule(P, a.ts))
        ELSE IF Len(cand) > 1 THEN Unspec(C2)
        ELSE IF cand[1].vis = "private" THEN Err(C2, "access") ELSE C2

S(s, C) ==
   IF C.err # "" THEN C ELSE
   CASE s.k = "decl"  -> SDecl(s, C)
     [] s.k = "expr"  -> ETop(s.e, C).c
     [] s.k = "echo"  -> LET v == E(s.e, C) IN IF v.t = TVoid THEN Unspec(v.c) ELSE v.c
     [] s.k = "if"    -> LET c == E(s.c, C)  C1 == CondOk(c.c, c.t) IN Scoped(s.e, Scoped(s.t, C1))
     [] s.k = "tern"  -> LET c == E(s.c, C)  C1 == CondOk(c.c, c.t) IN Scoped(<<s.e>>, Scoped(<<s.t>>, C1))
     [] s.k = "while" -> LET c == E(s.c, C)  C1 == CondOk(c.c, c.t) IN Scoped(s.b, C1)
     [] s.k = "for"   -> LET C0 == Push(C)
                             C1 == IF s.init.k = "none" THEN C0 ELSE S(s.init, C0)
                             c  == IF s.c.k = "none" THEN RT(TBool, C1) ELSE E(s.c, C1)
                             C2 == CondOk(c.c, c.t)
                             C3 == IF s.upd.k = "none" THEN C2 ELSE ETop(s.upd, C2).c
                         IN Pop(Scoped(s.b, C3))
     [] s.k = "block" -> Scoped(s.b, C)
     [] s.k = "ret"   -> SRet(s, C)
     [] s.k = "destroy" -> LET v == EVar(s.n, C) IN IF v.t.k \in {"c", "any"} THEN v.c ELSE Unspec(v.c)
     [] s.k = "super" -> SSuper(s, C)
     [] OTHER -> Unspec(C)

(* ------------------------------------------------------------------ declarations *)
\* RULE (void): no void parameters; parameters live in the function scope and may not repeat
RECURSIVE Params(_,_)
Params(ps, C) ==
   IF ps = <<>> \/ C.err # "" THEN C
   ELSE LET t == FromJson(ps[1].t) IN
        IF t = TVoid THEN Err(C, "void-parameter")
        ELSE IF FindLocal(C.sc, ps[1].n).found THEN Err(C, "redeclared")
        ELSE Params(Tail(ps), Declare(IF TypeKnown(C.prog, t) THEN C ELSE Unspec(C), ps[1].n, t, FALSE))

EndsWithReturn(body) == body # <<>> /\ body[Len(body)].k = "ret"
\* RULE (@quantum): only bit, bit[] or void;  RULE (@shots): only on main
Annot(C, f, isMain) ==
   LET r == FromJson(f.ret)
       C1 == IF f.quantum /\ ~(r = TBit \/ r = T("a", "bit") \/ r = TVoid) THEN Err(C, "quantum-return") ELSE C
   IN IF f.shots > 0 /\ ~isMain THEN Err(C1, "shots-not-main") ELSE C1

Body(C0, f) ==
   LET C1 == Params(f.params, C0)
       C2 == Ss(f.body, C1)
   IN IF C0.kind \in {"fn", "method"} /\ C0.ret # TVoid /\ ~EndsWithReturn(f.body) THEN Unspec(C2) ELSE C2

Merge(C, D) == [C EXCEPT !.err = IF C.err # "" THEN C.err ELSE D.err, !.unspec = C.unspec \/ D.unspec]

CheckFn(P, f) == LET C0 == Ctx(P, "", FALSE, "fn", FromJson(f.ret)) IN Body(Annot(C0, f, f.name = "main"), f)

CheckField(P, cl, f) ==
   LET C0 == Ctx(P, cl.name, f.static, "init", TVoid)  t == FromJson(f.t) IN
   IF t = TVoid THEN Err(C0, "void-variable")
   ELSE IF f.final /\ f.static /\ f.init.k = "none" THEN Unspec(C0)
   ELSE IF f.init.k = "none" THEN C0 ELSE Initialiser(C0, t, f.init)

CheckMethod(P, cl, m) ==
   LET C0 == Ctx(P, cl.name, m.static, "method", FromJson(m.ret)) IN
   IF m.abstract_body THEN Params(m.params, Annot(C0, m, FALSE)) ELSE Body(Annot(C0, m, FALSE), m)

\* RULE (final fields): every constructor of the declaring class assigns each final field that has no
\* declaration initialiser exactly once
CheckCtor(P, cl, k) ==
   LET C0 == Ctx(P, cl.name, FALSE, "ctor", TVoid)
       need == {cl.fields[i].n : i \in {j \in 1..Len(cl.fields) : cl.fields[j].final /\ ~cl.fields[j].static /\ cl.fields[j].init.k = "none"}}
   IN IF k.default THEN (IF need = {} THEN Params(k.params, C0) ELSE Unspec(C0))
      ELSE LET C1 == Body(C0, k)
               got == {C1.fa[i] : i \in 1..Len(C1.fa)}
               explicitSuper == k.body # <<>> /\ k.body[1].k = "super"
               b == cl.base
               C2 == IF explicitSuper \/ b = "" \/ ~HasClass(P, b) THEN C1
                     ELSE IF \E i \in 1..Len(Class(P, b).ctors) : Class(P, b).ctors[i].params = <<>> /\ Class(P, b).ctors[i].vis # "private" THEN C1
                     ELSE Err(C1, "implicit-super")      \* RULE: without super(...) the base must expose an accessible zero-argument constructor
           IN IF C2.err = "" /\ need \ got # {} THEN Err(C2, "final-unassigned") ELSE C2

RECURSIVE Fold(_,_,_)
Fold(Op(_), seq, C) == IF seq = <<>> THEN C ELSE Fold(Op, Tail(seq), Merge(C, Op(seq[1])))

CheckClass(P, cl) ==
   LET C0 == Ctx(P, cl.name, FALSE, "init", TVoid)
       C1 == Fold(LAMBDA f : CheckField(P, cl, f), cl.fields, C0)
       C2 == Fold(LAMBDA m : CheckMethod(P, cl, m), cl.methods, C1)
       C3 == Fold(LAMBDA k : CheckCtor(P, cl, k), cl.ctors, C2)
       C4 == IF cl.dtor = <<>> THEN C3 ELSE Merge(C3, Ss(cl.dtor, Ctx(P, cl.name, FALSE, "dtor", TVoid)))
       C5 == IF cl.tparams # <<>> THEN Unspec(C4) ELSE C4
   IN C5

\* RULE (names are global): a function or class name is declared once
Dups(seq) == \E i, j \in 1..Len(seq) : i < j /\ seq[i].name = seq[j].name
CheckProgram(P) ==
   LET C00 == Ctx(P, "", FALSE, "fn", TVoid)
       C0 == IF Dups(P.funcs) \/ Dups(P.classes) THEN Err(C00, "redeclared") ELSE C00
       C1 == Fold(LAMBDA cl : CheckClass(P, cl), P.classes, C0)
   IN Fold(LAMBDA f : CheckFn(P, f), P.funcs, C1)

Verdict(P) == LET C == CheckProgram(P) IN
              IF C.err # "" THEN [v |-> "reject", rule |-> C.err]
              ELSE IF C.unspec THEN [v |-> "unspec", rule |-> ""]
              ELSE [v |-> "accept", rule |-> ""]
=============================================================================
