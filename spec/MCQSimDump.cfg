SPECIFICATION Spec
CONSTANT MaxN = 3
INVARIANTS TypeOK UnitNorm DumpInv
