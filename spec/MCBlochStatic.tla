---------------------------- MODULE MCBlochStatic ----------------------------
(* TLC as the evaluator of the static rules: one initial state per program (read from the ndjson file named by
   STATIC_CASES), Verdict evaluated by an invariant that serialises [id, v, rule] to STATIC_OUT.               *)
EXTENDS BlochStatic, Json, IOUtils
Cases == ndJsonDeserialize(IOEnv.STATIC_CASES)
VARIABLE cid
Init == cid \in 1..Len(Cases)
Spec == Init /\ [][UNCHANGED cid]_cid
Dump == LET r == Verdict(Cases[cid].prog)
            j == ToJson([id |-> Cases[cid].id, v |-> r.v, rule |-> r.rule])
        IN /\ Len(j) > 0
           /\ Serialize(j \o "\n", IOEnv.STATIC_OUT, [format |-> "TXT", charset |-> "UTF-8",
                        openOptions |-> <<"WRITE","CREATE","APPEND">>]).exitValue = 0
=============================================================================
