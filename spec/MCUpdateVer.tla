------------------------------ MODULE MCUpdateVer ------------------------------
(* Update.tla part (1): every string of length <= MaxLen over Alphabet (+ long extras): parse result; every ordered pair of a stratified subset: Compare / Decision / notice. Cases are initial states; VerDump serialises them for harness/cpp/update_harness.cpp *)
EXTENDS Update, Json, IOUtils
CONSTANTS MaxLen
Alphabet == {"v","0","1","9",".","-","a"}
RECURSIVE Strs(_)
Strs(n) == IF n = 0 THEN {<<>>} ELSE LET S == Strs(n-1) IN S \cup {Append(s, c) : s \in {x \in S : Len(x) = n-1}, c \in Alphabet}
ToSeq(str) == str
Extra == { <<"9","9","9","9","9","9","9","9","9","9">>,
           <<"v","9","9","9","9","9","9","9","9","9","9",".","0",".","0">>,
           <<"1",".","9","9","9","9","9","9","9","9","9","9","9","9","9","9","9","9","9","9","9","9">>,
           <<"2","1","4","7","4","8","3","6","4","7">>, <<"2","1","4","7","4","8","3","6","4","8">>,
           <<"v","1",".","2",".","3","-","r","c","1">>, <<"1",".","2",".","3",".","4">>, <<"0","0","1",".","0","2">>,
           <<"v","v","1">>, <<"1",".",".","2">>, <<".","1">>, <<"l","a","t","e","s","t">> }
\* versions whose components reach and pass 1000 (a packed or truncated comparison key would confuse them)
DigitChar(d) == CASE d = 0 -> "0" [] d = 1 -> "1" [] d = 2 -> "2" [] d = 3 -> "3" [] d = 4 -> "4" [] d = 5 -> "5" [] d = 6 -> "6" [] d = 7 -> "7" [] d = 8 -> "8" [] d = 9 -> "9"
RECURSIVE NumSeq(_)
NumSeq(n) == IF n < 10 THEN <<DigitChar(n)>> ELSE Append(NumSeq(n \div 10), DigitChar(n % 10))
Comp == {0, 1, 999, 1000, 1001}
Big == {NumSeq(x) \o <<".">> \o NumSeq(y) \o <<".">> \o NumSeq(z) : x \in Comp, y \in Comp, z \in Comp}
       \cup {NumSeq(1) \o <<".">> \o NumSeq(20250101) \o <<".">> \o NumSeq(2024), NumSeq(2) \o <<".">> \o NumSeq(20250101) \o <<".">> \o NumSeq(20250101),
             NumSeq(1) \o <<".">> \o NumSeq(1) \o <<".">> \o NumSeq(1500), NumSeq(1) \o <<".">> \o NumSeq(2) \o <<".">> \o NumSeq(5), NumSeq(0) \o <<".">> \o NumSeq(0) \o <<".">> \o NumSeq(2147483647)}
VARIABLES kind, a, b
vv == <<kind, a, b>>
\* stratified subset for the pairwise part: all strings of length <= 3 that parse + a few that do not
Sub == {s \in Strs(3) : ParseSemVer(s).valid} \cup {<<>>, <<"v">>, <<"a">>, <<".","1">>} \cup Extra \cup Big

App(line, file) == Serialize(line \o "\n", file, [format |-> "TXT", charset |-> "UTF-8",
                             openOptions |-> <<"WRITE","CREATE","APPEND">>]).exitValue = 0
VerInit == \/ kind = "parse" /\ a \in (Strs(MaxLen) \cup Extra) /\ b = <<>>
           \/ kind = "pair" /\ a \in Sub /\ b \in Sub
VerSpec == VerInit /\ [][UNCHANGED vv]_vv
VerDump ==
   LET j == IF kind = "parse"
            THEN ToJson([k |-> "parse", s |-> a, valid |-> ParseSemVer(a).valid, t |-> ParseSemVer(a).t])
            ELSE LET c == ParseSemVer(a) l == ParseSemVer(b) IN
                 ToJson([k |-> "pair", cur |-> a, lat |-> b, cmp |-> Compare(c, l), dec |-> Decision(c, l),
                         notice |-> StrictlyNewer(c, l)])
   IN Len(j) > 0 /\ App(j, IOEnv.UPD_DUMP)
\* design laws: a 'v' prefix never matters, suffixes never matter, decision agrees with the numeric order
VerLaws == /\ ParseSemVer(<<"v">> \o a) = ParseSemVer(a) \/ (a # <<>> /\ a[1] = "v")
           /\ (kind = "pair" => LET c == ParseSemVer(a) l == ParseSemVer(b) IN
                 /\ (Decision(c,l) = "install") <=> StrictlyNewer(c,l)
                 /\ (Decision(c,l) = "refuse") <=> (~c.valid \/ ~l.valid)
                 /\ Compare(c,l) = -Compare(l,c))
ASSUME OrderLaws


=============================================================================
