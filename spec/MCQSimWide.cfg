SPECIFICATION Spec
CONSTANT N = 5
INVARIANTS UnitNorm ProjOK DumpInv
