------------------------------ MODULE MCUpdateThrottle ------------------------------
(* Update.tla part (3): the throttle automaton over dt / network / environment with the complete successor table of each state *)
EXTENDS Update, Json, IOUtils
CONSTANTS MaxSteps
App(line, file) == Serialize(line \o "\n", file, [format |-> "TXT", charset |-> "UTF-8",
                             openOptions |-> <<"WRITE","CREATE","APPEND">>]).exitValue = 0
(* ---- throttle ---- *)
VARIABLES now, cache, steps, lastNotice, tooSoon
tv == <<now, cache, steps, lastNotice, tooSoon>>
\* 0, 20 min, 71 h 20 min, 72 h - 20 min, 72 h, 72 h + 20 min, 73 h
Dts  == {0, 1, 214, 215, 216, 217, 219}
Nets == {"fail"} \cup Tags
T0 == 1500002     \* 40 minutes past an hour
ThInit == now = T0 /\ cache = NoCache /\ steps = 0 /\ lastNotice = -1 /\ tooSoon = FALSE
ThNext == /\ steps < MaxSteps
          /\ \E dt \in Dts, net \in Nets, dis \in BOOLEAN :
               LET r == Invoke(cache, now + dt, dis, net) IN
               /\ now' = now + dt /\ cache' = r.cache /\ steps' = steps + 1
               /\ lastNotice' = IF r.printed THEN now + dt ELSE lastNotice
               /\ tooSoon' = (tooSoon \/ (r.printed /\ lastNotice # -1 /\ (now + dt) - lastNotice < Window))
ThSpec == ThInit /\ [][ThNext]_tv
\* at most one notice per 72-hour window, whatever the history (ghost: time of the previous notice)
OncePerWindow == ~tooSoon
ThSucc == {[dt |-> dt, net |-> net, dis |-> dis,
            r |-> Invoke(cache, now + dt, dis, net)] : dt \in Dts, net \in Nets, dis \in BOOLEAN}
SetToSeq(S) == LET RECURSIVE F(_) F(T) == IF T = {} THEN <<>> ELSE
                     LET x == CHOOSE x \in T : TRUE IN <<x>> \o F(T \ {x}) IN F(S)
ThDump == LET j == ToJson([k |-> "throttle", now |-> now, cache |-> cache, succ |-> SetToSeq(ThSucc)])
          IN Len(j) > 0 /\ App(j, IOEnv.UPD_DUMP)
\* never when disabled; only if newer (by construction of Invoke, stated as invariants of the successor table)
ThLaws == \A e \in ThSucc : /\ (e.dis => (~e.r.printed /\ e.r.cache = cache))
                            /\ (e.r.printed => ((NewerTag(cache.latest) \/ NewerTag(e.net)) /\ e.r.cache.notified = now + e.dt))

=============================================================================
