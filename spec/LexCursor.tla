----------------------------- MODULE LexCursor -----------------------------
(***************************************************************************)
(* C15: the lexer is lossless and token positions are exact.               *)
(* A cursor machine walks the source (a sequence of character codes) and   *)
(* the token list produced by the real lexer:                              *)
(*   SkipWs      - a whitespace character (LF starts a new line)           *)
(*   SkipComment - from "//" up to, not including, the next LF             *)
(*   Consume     - enabled iff the next token's text equals the source at  *)
(*                 the cursor AND its reported (line, col) equal the       *)
(*                 cursor; the cursor then advances over the text, LF      *)
(*                 inside the token included                               *)
(*   End         - all tokens consumed, cursor at the end of the source,   *)
(*                 the Eof token sits at the cursor                        *)
(* A case is accepted iff `done` is reached; if no action is enabled the   *)
(* case is stuck (invariant NotStuck).  The machine predicts no token      *)
(* kinds: it states exactly the property, so it cannot disagree with the   *)
(* lexer about classification.                                             *)
(* Each case is one initial state, so TLC checks all cases in parallel.    *)
(***************************************************************************)
EXTENDS Integers, Sequences, Json, IOUtils, TLC

Cases == ndJsonDeserialize(IOEnv.LEX_CASES)   \* each: [s : Seq(code), t : Seq([x : Seq(code), l, c])]

VARIABLES cid, pos, line, col, t, status
lv == <<cid, pos, line, col, t, status>>

LF == 10
WS == {32, 9, 10, 13, 11, 12}
Src  == Cases[cid].s
Toks == Cases[cid].t
NTok == Len(Toks)              \* the last token is Eof (empty text)

AtWs      == pos <= Len(Src) /\ Src[pos] \in WS
AtComment == pos + 1 <= Len(Src) /\ Src[pos] = 47 /\ Src[pos+1] = 47
\* first position >= p holding LF, or Len+1
RECURSIVE LineEnd(_)
LineEnd(p) == IF p > Len(Src) \/ Src[p] = LF THEN p ELSE LineEnd(p+1)

TextAt(x) == /\ pos + Len(x) - 1 <= Len(Src)
             /\ \A i \in 1..Len(x) : Src[pos + i - 1] = x[i]
CanConsume == /\ t < NTok
              /\ Len(Toks[t].x) > 0
              /\ TextAt(Toks[t].x)
              /\ Toks[t].l = line /\ Toks[t].c = col
CanEnd == t = NTok /\ pos = Len(Src) + 1 /\ Len(Toks[t].x) = 0 /\ Toks[t].l = line /\ Toks[t].c = col

\* cursor after walking over text x starting at (line, col)
RECURSIVE Walk(_,_,_)
Walk(x, l, c) == IF x = <<>> THEN <<l, c>>
                 ELSE IF x[1] = LF THEN Walk(Tail(x), l + 1, 1) ELSE Walk(Tail(x), l, c + 1)

Init == cid \in 1..Len(Cases) /\ pos = 1 /\ line = 1 /\ col = 1 /\ t = 1 /\ status = "run"

SkipWs == /\ status = "run" /\ AtWs
          /\ pos' = pos + 1
          /\ IF Src[pos] = LF THEN line' = line + 1 /\ col' = 1 ELSE line' = line /\ col' = col + 1
          /\ UNCHANGED <<cid, t, status>>
SkipComment == /\ status = "run" /\ AtComment
               /\ pos' = LineEnd(pos) /\ col' = col + (LineEnd(pos) - pos)
               /\ UNCHANGED <<cid, line, t, status>>
Consume == /\ status = "run" /\ CanConsume
           /\ LET w == Walk(Toks[t].x, line, col) IN line' = w[1] /\ col' = w[2]
           /\ pos' = pos + Len(Toks[t].x) /\ t' = t + 1
           /\ UNCHANGED <<cid, status>>
End == /\ status = "run" /\ CanEnd /\ status' = "done" /\ UNCHANGED <<cid, pos, line, col, t>>
Stuck == /\ status = "run" /\ ~AtWs /\ ~AtComment /\ ~CanConsume /\ ~CanEnd
         /\ status' = "stuck" /\ UNCHANGED <<cid, pos, line, col, t>>
Next == SkipWs \/ SkipComment \/ Consume \/ End \/ Stuck
Spec == Init /\ [][Next]_lv

\* A stuck branch alone is not a rejection when the machine had a choice (a "/" token at "//"); a case is
\* rejected iff NO branch reaches done. With the lexer's tokens the only choice point is comment-vs-slash,
\* and the slash branch of a real comment gets stuck at once, so rejection = "stuck and no alternative":
\* the harness therefore reports a case only if its id never appears among the accepted ones.
AcceptFile == IOEnv.LEX_ACCEPTED
Accepted == (status = "done") =>
   Serialize(ToString(Cases[cid].id) \o "\n", AcceptFile,
             [format |-> "TXT", charset |-> "UTF-8", openOptions |-> <<"WRITE","CREATE","APPEND">>]).exitValue = 0
TypeOK == pos \in 1..(Len(Src)+1) /\ t \in 1..NTok /\ line >= 1 /\ col >= 1
=============================================================================
