------------------------------- MODULE QSim -------------------------------
(***************************************************************************)
(* Ideal statevector simulator (<-> bloch::runtime::QasmSimulator), exact  *)
(* over the ring D[w].  Written from docs/reference/qasm-mapping.md and    *)
(* OpenQASM qelib1: every gate is "apply this 2x2 unitary to qubit q,      *)
(* identity elsewhere", expressed with index maps Bit/Flip (little endian: *)
(* bit k of the basis index is qubit k), NOT with the blocked loops of the *)
(* C++.  The random draw of measure/reset is an explicit argument.         *)
(*                                                                         *)
(* A simulator state is a record                                           *)
(*   [n    : number of qubits allocated,                                   *)
(*    vec  : [0..2^n-1 -> Amp]  (always unit norm),                        *)
(*    meas : [0..n-1 -> BOOLEAN]  (measured-and-not-reset flags)]          *)
(* One operator per public method; Step(s,a) is the transition function.   *)
(***************************************************************************)
EXTENDS Ring, FiniteSets, TLC

Bit(i,q)  == (i \div (2^q)) % 2
Flip(i,q) == IF Bit(i,q) = 0 THEN i + 2^q ELSE i - 2^q
Dim(s)    == 2^(s.n)
Idx(s)    == 0 .. (Dim(s) - 1)
Qubits(s) == 0 .. (s.n - 1)

InitState == [n |-> 0, vec |-> [i \in {0} |-> One], meas |-> [q \in {} |-> FALSE]]

(* ---- 2x2 gate tables: <<m00, m01, m10, m11>> ---- *)
MH      == <<InvSqrt2, InvSqrt2, InvSqrt2, Neg(InvSqrt2)>>
MX      == <<Zero, One, One, Zero>>
MY      == <<Zero, Neg(I), I, Zero>>
MZ      == <<One, Zero, Zero, Neg(One)>>
\* rotations by theta = k*pi/2, i.e. half-angle k*pi/4:  exp(-i theta P / 2)
MRX(k)  == <<Cos8(k), Mul(Neg(I), Sin8(k)), Mul(Neg(I), Sin8(k)), Cos8(k)>>
MRY(k)  == <<Cos8(k), Neg(Sin8(k)), Sin8(k), Cos8(k)>>
MRZ(k)  == <<W(-k), Zero, Zero, W(k)>>
\* T = rz(pi/4) up to the (unobservable) global phase e^{-i pi/8}; used by the wide/probe model to reach
\* non-stabiliser states whose measurement probabilities are not 0, 1/2, 1  (e.g. sin^2(pi/8))
MT      == <<One, Zero, Zero, W(1)>>

Matrix(g,k) == CASE g = "h" -> MH [] g = "x" -> MX [] g = "y" -> MY [] g = "z" -> MZ
                 [] g = "rx" -> MRX(k) [] g = "ry" -> MRY(k) [] g = "rz" -> MRZ(k) [] g = "t" -> MT

\* U^dagger U = I, exactly
Unitary(m) == /\ Add(Mul(Conj(m[1]),m[1]), Mul(Conj(m[3]),m[3])) = One
              /\ Add(Mul(Conj(m[2]),m[2]), Mul(Conj(m[4]),m[4])) = One
              /\ Add(Mul(Conj(m[1]),m[2]), Mul(Conj(m[3]),m[4])) = Zero

\* TLCEval forces TLC to evaluate the function eagerly (otherwise long behaviours build chains of
\* lazily evaluated functions); it is the identity semantically.
Apply1(vec, n, q, m) ==
   TLCEval([i \in 0..(2^n - 1) |->
       IF Bit(i,q) = 0 THEN Add(Mul(m[1], vec[i]), Mul(m[2], vec[Flip(i,q)]))
                       ELSE Add(Mul(m[3], vec[Flip(i,q)]), Mul(m[4], vec[i]))])

ApplyCX(vec, n, c, t) ==
   TLCEval([i \in 0..(2^n - 1) |-> IF Bit(i,c) = 1 THEN vec[Flip(i,t)] ELSE vec[i]])

Active(s,q) == q \in Qubits(s) /\ ~s.meas[q]

(* ---- probabilities (exact reals <<x,y,k>>) ---- *)
NormOn(s, S) == RSum([i \in S |-> Abs2(s.vec[i])], S)
TotalNorm(s) == NormOn(s, Idx(s))
P1(s,q)      == NormOn(s, {i \in Idx(s) : Bit(i,q) = 1})
P0(s,q)      == NormOn(s, {i \in Idx(s) : Bit(i,q) = 0})

\* k such that p = 2^-k, or -1 (p is <<x,y,e>>)
RECURSIVE Log2Inv(_,_)
Log2Inv(p, k) == IF k > 40 THEN -1 ELSE IF REqDyadic(p, 1, k) THEN k ELSE Log2Inv(p, k+1)

\* projection onto outcome o of qubit q, renormalised. In the stabiliser closure the kept
\* branch has probability 2^-j, so renormalising is an exact multiplication by sqrt2^j.
Collapse(s,q,o) ==
   LET p == IF o = 1 THEN P1(s,q) ELSE P0(s,q)
       j == Log2Inv(p, 0)
   IN TLCEval([i \in Idx(s) |-> IF Bit(i,q) = o THEN MulSqrt2(s.vec[i], j) ELSE Zero])
Collapsible(s,q,o) == Log2Inv(IF o = 1 THEN P1(s,q) ELSE P0(s,q), 0) >= 0

\* draw r = num/2^e in [0,1):  outcome 1 iff r < P1   (the documented sampling rule)
Outcome(s,q,num,e) == IF RatLess(num, e, P1(s,q)) THEN 1 ELSE 0

\* un-normalised projection (any state, any probability): the harness normalises numerically
Project(s,q,o) == [i \in Idx(s) |-> IF Bit(i,q) = o THEN s.vec[i] ELSE Zero]
ProjectReset(s,q,o) == LET c == Project(s,q,o) IN IF o = 1 THEN [i \in Idx(s) |-> c[Flip(i,q)]] ELSE c

(* ---- the public operations ---- *)
Alloc(s) == [n |-> s.n + 1,
             vec |-> TLCEval([i \in 0..(2^(s.n+1) - 1) |-> IF i < Dim(s) THEN s.vec[i] ELSE Zero]),
             meas |-> TLCEval([q \in 0..s.n |-> IF q < s.n THEN s.meas[q] ELSE FALSE])]

Gate1(s,g,q,k) == [s EXCEPT !.vec = Apply1(s.vec, s.n, q, Matrix(g,k))]
CX(s,c,t)      == [s EXCEPT !.vec = ApplyCX(s.vec, s.n, c, t)]
MeasureTo(s,q,o) == [s EXCEPT !.vec = Collapse(s,q,o), !.meas[q] = TRUE]
\* reset = sample as a measurement would, collapse, move a |1> result into |0>, clear flag
ResetTo(s,q,o) == LET c == Collapse(s,q,o)
                      v == IF o = 1 THEN TLCEval([i \in Idx(s) |-> c[Flip(i,q)]]) ELSE c
                  IN [s EXCEPT !.vec = v, !.meas[q] = FALSE]

BasisOnly == FALSE   \* (TRUE in QBasis: classes whose destructor leaves the computational basis are not instantiated there)
BasisOf(s) == -1     \* (QBasis, the basis-state restriction of this module, reports the state's index here)

Gates1   == {"h","x","y","z"}
Rots     == {"rx","ry","rz"}

(***************************************************************************)
(* Actions are tuples <<name, a, b>>:                                      *)
(*   <<"alloc",0,0>>  <<g,q,0>>  <<rot,q,k>>  <<"cx",c,t>>                  *)
(*   <<"measure",q,num>>  <<"reset",q,num>>   (draw = num/2^DrawExp)        *)
(***************************************************************************)
Enabled(s,a,MaxN) ==
   CASE a[1] = "alloc"   -> s.n < MaxN
     [] a[1] \in Gates1  -> Active(s,a[2])
     [] a[1] = "t"       -> Active(s,a[2])
     [] a[1] \in Rots    -> Active(s,a[2])
     [] a[1] = "cx"      -> Active(s,a[2]) /\ Active(s,a[3]) /\ a[2] # a[3]
     [] a[1] = "measure" -> Active(s,a[2])
     [] a[1] = "reset"   -> a[2] \in Qubits(s)

Step(s,a,DrawExp) ==
   CASE a[1] = "alloc"   -> Alloc(s)
     [] a[1] \in Gates1  -> Gate1(s,a[1],a[2],0)
     [] a[1] = "t"       -> Gate1(s,a[1],a[2],0)
     [] a[1] \in Rots    -> Gate1(s,a[1],a[2],a[3])
     [] a[1] = "cx"      -> CX(s,a[2],a[3])
     [] a[1] = "measure" -> MeasureTo(s,a[2],Outcome(s,a[2],a[3],DrawExp))
     [] a[1] = "reset"   -> ResetTo(s,a[2],Outcome(s,a[2],a[3],DrawExp))

(* reduced density matrix of the qubits other than q: entry (i,j), for i,j with bit q = 0 *)
Rho(s,q,i,j) == Add(Mul(s.vec[i], Conj(s.vec[j])),
                    Mul(s.vec[Flip(i,q)], Conj(s.vec[Flip(j,q)])))

(* ---- design-level properties of a state ---- *)
UnitNormS(s)  == RIsOne(TotalNorm(s))
ShapeOK(s)    == DOMAIN s.vec = Idx(s) /\ DOMAIN s.meas = Qubits(s)
\* a measured qubit is in a definite computational state
MeasuredDefinite(s) == \A q \in Qubits(s) : s.meas[q] => (RIsZero(P1(s,q)) \/ RIsZero(P0(s,q)))
=============================================================================
