SPECIFICATION Spec
INVARIANTS TypeOK Accepted
CHECK_DEADLOCK FALSE
