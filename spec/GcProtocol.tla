----------------------------- MODULE GcProtocol -----------------------------
(***************************************************************************)
(* C11(a): the background timer thread and the interpreter share exactly   *)
(* two flags (gcRequested, stopGc) plus the thread handle. The timer only  *)
(* ever sets gcRequested; collections happen in the interpreter, at        *)
(* statement boundaries; a run ends - normally or by error - only after    *)
(* the timer has been told to stop and has been joined.                    *)
(*                                                                         *)
(* Interpreter: Start ; { Boundary | Request }* ; (Finish | Throw) ; Join  *)
(* Timer:       { Wake ; (Exit | Set) }*                                   *)
(* `hist` records, for the first MaxB boundaries, whether a collection ran *)
(* there: every subset of boundaries must be reachable (this is what       *)
(* licenses C11(b)'s "any subset of statement boundaries" schedules).      *)
(***************************************************************************)
EXTENDS Integers, Sequences, FiniteSets, TLC
CONSTANTS MaxB, HasClasses
VARIABLES gcRequested, stopGc, timer, tpc, ipc, hist, collectedBy
gv == <<gcRequested, stopGc, timer, tpc, ipc, hist, collectedBy>>

Init == /\ TLCSet(1, {})    \* register used by RecordHist / AllSubsetsReachable (-workers 1)
        /\ gcRequested = FALSE /\ stopGc = FALSE /\ timer = "none" /\ tpc = "idle"
        /\ ipc = "init" /\ hist = <<>> /\ collectedBy = {}

(* ---- interpreter ---- *)
Start == /\ ipc = "init" /\ ipc' = "run"
         /\ IF HasClasses THEN timer' = "running" /\ tpc' = "wait" ELSE UNCHANGED <<timer, tpc>>
         /\ UNCHANGED <<gcRequested, stopGc, hist, collectedBy>>
\* top of exec(): poll the flag; if set, clear it and collect (interpreter thread, at a boundary)
Boundary == /\ ipc = "run" /\ Len(hist) < MaxB
            /\ IF gcRequested THEN /\ gcRequested' = FALSE /\ hist' = Append(hist, TRUE)
                                   /\ collectedBy' = collectedBy \cup {"interpreter"}
               ELSE /\ hist' = Append(hist, FALSE) /\ UNCHANGED <<gcRequested, collectedBy>>
            /\ UNCHANGED <<stopGc, timer, tpc, ipc>>
\* allocation pressure / destroy statement
Request == /\ ipc = "run" /\ gcRequested' = TRUE /\ UNCHANGED <<stopGc, timer, tpc, ipc, hist, collectedBy>>
\* normal end of main: stop the timer, force one last collection request
Finish == /\ ipc = "run" /\ ipc' = "stopping"
          /\ IF timer = "running" THEN stopGc' = TRUE /\ gcRequested' = TRUE ELSE UNCHANGED <<stopGc, gcRequested>>
          /\ UNCHANGED <<timer, tpc, hist, collectedBy>>
\* runtime error: the exception leaves execute(); the evaluator's destructor stops and joins the timer
Throw == /\ ipc = "run" /\ ipc' = "unwinding" /\ stopGc' = TRUE
         /\ UNCHANGED <<gcRequested, timer, tpc, hist, collectedBy>>
Join == /\ ipc \in {"stopping", "unwinding"} /\ timer \in {"none", "exited"}
        /\ ipc' = IF ipc = "stopping" THEN "final" ELSE "done"
        /\ timer' = IF timer = "exited" THEN "joined" ELSE timer
        /\ UNCHANGED <<gcRequested, stopGc, tpc, hist, collectedBy>>
\* execute() runs the collector once more after the join (interpreter thread)
FinalCollect == /\ ipc = "final" /\ ipc' = "done" /\ gcRequested' = FALSE
                /\ collectedBy' = IF gcRequested THEN collectedBy \cup {"interpreter"} ELSE collectedBy
                /\ UNCHANGED <<stopGc, timer, tpc, hist>>

(* ---- timer thread ----  wait_for(50 ms or notified) ; read stopGc ; then exit or set the flag.
   Reading stopGc and acting on it are separate steps (as in the code): the interpreter may set
   stopGc in between, so one late Set after Finish/Throw is possible and harmless. *)
Wake  == /\ timer = "running" /\ tpc = "wait" /\ tpc' = "check" /\ UNCHANGED <<gcRequested, stopGc, timer, ipc, hist, collectedBy>>
Check == /\ timer = "running" /\ tpc = "check" /\ tpc' = (IF stopGc THEN "exiting" ELSE "setting")
         /\ UNCHANGED <<gcRequested, stopGc, timer, ipc, hist, collectedBy>>
Exit  == /\ timer = "running" /\ tpc = "exiting" /\ timer' = "exited" /\ tpc' = "idle"
         /\ UNCHANGED <<gcRequested, stopGc, ipc, hist, collectedBy>>
Set   == /\ timer = "running" /\ tpc = "setting" /\ gcRequested' = TRUE /\ tpc' = "wait"
         /\ UNCHANGED <<stopGc, timer, ipc, hist, collectedBy>>

Interp == Start \/ Boundary \/ Request \/ Finish \/ Throw \/ Join \/ FinalCollect
Timer  == Wake \/ Check \/ Exit \/ Set
Next == Interp \/ Timer
Spec == Init /\ [][Next]_gv
FairSpec == Spec /\ WF_gv(Interp) /\ WF_gv(Timer)

TypeOK == /\ gcRequested \in BOOLEAN /\ stopGc \in BOOLEAN
          /\ timer \in {"none", "running", "exited", "joined"} /\ tpc \in {"idle", "wait", "check", "setting", "exiting"}
          /\ ipc \in {"init", "run", "stopping", "unwinding", "final", "done"}
OnlyInterpreterCollects == collectedBy \subseteq {"interpreter"}
\* when a run has ended (normally or by error) no timer thread is left running
StoppedAtEnd == ipc = "done" => timer \in {"none", "joined"}
NoTimerWithoutClasses == ~HasClasses => timer = "none"
EventuallyDone == <>(ipc = "done" \/ (ipc = "run" /\ Len(hist) = MaxB))
\* the timer can only ever change gcRequested (and its own pc / state)
TimerTouchesOnlyFlag == [][Timer => UNCHANGED <<stopGc, ipc, hist, collectedBy>>]_gv
\* abstraction lemma: every subset of the first MaxB boundaries can be the set of collection points
AllHistories == [1..MaxB -> BOOLEAN]
\* collected in TLC register 1 (run with -workers 1); checked by the POSTCONDITION
RecordHist == (Len(hist) = MaxB) => TLCSet(1, TLCGet(1) \cup {hist})
InitReg == TLCSet(1, {})
AllSubsetsReachable == TLCGet(1) = AllHistories
=============================================================================
