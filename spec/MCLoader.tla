------------------------------ MODULE MCLoader ------------------------------
(* configurations are read from LOADER_CASES (one per line), TLC evaluates Load and the design laws on each and
   serialises the expected result for harness/py (which materialises the tree and calls ModuleLoader::load).  *)
EXTENDS Loader, Json, IOUtils
Cases == ndJsonDeserialize(IOEnv.LOADER_CASES)
VARIABLE cid
Init == cid \in 1..Len(Cases)
Spec == Init /\ [][UNCHANGED cid]_cid
Cfg == Cases[cid]
R == Load(Cfg)
Laws == LoadedOnce(R) /\ DepsFirst(Cfg, R) /\ ExactlyOneMain(Cfg, R) /\ EntryLast(Cfg, R)
Dump == LET j == ToJson([id |-> Cfg.id, ok |-> R.ok, order |-> R.order, err |-> R.err]) IN Len(j) > 0 /\
        Serialize(j \o "\n", IOEnv.LOADER_OUT, [format |-> "TXT", charset |-> "UTF-8", openOptions |-> <<"WRITE","CREATE","APPEND">>]).exitValue = 0
=============================================================================
