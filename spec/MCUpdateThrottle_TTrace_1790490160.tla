---- MODULE MCUpdateThrottle_TTrace_1790490160 ----
EXTENDS Sequences, TLCExt, MCUpdateThrottle, Toolbox, Naturals, TLC

_expression ==
    LET MCUpdateThrottle_TEExpression == INSTANCE MCUpdateThrottle_TEExpression
    IN MCUpdateThrottle_TEExpression!expression
----

_trace ==
    LET MCUpdateThrottle_TETrace == INSTANCE MCUpdateThrottle_TETrace
    IN MCUpdateThrottle_TETrace!trace
----

_inv ==
    ~(
        TLCGet("level") = Len(_TETrace)
        /\
        cache = ([latest |-> "newer", notified |-> 500072, exists |-> TRUE, checked |-> 500072])
        /\
        now = (500072)
        /\
        steps = (3)
        /\
        lastNotice = (500072)
        /\
        tooSoon = (FALSE)
    )
----

_init ==
    /\ steps = _TETrace[1].steps
    /\ tooSoon = _TETrace[1].tooSoon
    /\ now = _TETrace[1].now
    /\ lastNotice = _TETrace[1].lastNotice
    /\ cache = _TETrace[1].cache
----

_next ==
    /\ \E i,j \in DOMAIN _TETrace:
        /\ \/ /\ j = i + 1
              /\ i = TLCGet("level")
        /\ steps  = _TETrace[i].steps
        /\ steps' = _TETrace[j].steps
        /\ tooSoon  = _TETrace[i].tooSoon
        /\ tooSoon' = _TETrace[j].tooSoon
        /\ now  = _TETrace[i].now
        /\ now' = _TETrace[j].now
        /\ lastNotice  = _TETrace[i].lastNotice
        /\ lastNotice' = _TETrace[j].lastNotice
        /\ cache  = _TETrace[i].cache
        /\ cache' = _TETrace[j].cache

\* Uncomment the ASSUME below to write the states of the error trace
\* to the given file in Json format. Note that you can pass any tuple
\* to `JsonSerialize`. For example, a sub-sequence of _TETrace.
    \* ASSUME
    \*     LET J == INSTANCE Json
    \*         IN J!JsonSerialize("MCUpdateThrottle_TTrace_1790490160.json", _TETrace)

=============================================================================

 Note that you can extract this module `MCUpdateThrottle_TEExpression`
  to a dedicated file to reuse `expression` (the module in the 
  dedicated `MCUpdateThrottle_TEExpression.tla` file takes precedence 
  over the module `MCUpdateThrottle_TEExpression` below).

---- MODULE MCUpdateThrottle_TEExpression ----
EXTENDS Sequences, TLCExt, MCUpdateThrottle, Toolbox, Naturals, TLC

expression == 
    [
        \* To hide variables of the `MCUpdateThrottle` spec from the error trace,
        \* remove the variables below.  The trace will be written in the order
        \* of the fields of this record.
        steps |-> steps
        ,tooSoon |-> tooSoon
        ,now |-> now
        ,lastNotice |-> lastNotice
        ,cache |-> cache
        
        \* Put additional constant-, state-, and action-level expressions here:
        \* ,_stateNumber |-> _TEPosition
        \* ,_stepsUnchanged |-> steps = steps'
        
        \* Format the `steps` variable as Json value.
        \* ,_stepsJson |->
        \*     LET J == INSTANCE Json
        \*     IN J!ToJson(steps)
        
        \* Lastly, you may build expressions over arbitrary sets of states by
        \* leveraging the _TETrace operator.  For example, this is how to
        \* count the number of times a spec variable changed up to the current
        \* state in the trace.
        \* ,_stepsModCount |->
        \*     LET F[s \in DOMAIN _TETrace] ==
        \*         IF s = 1 THEN 0
        \*         ELSE IF _TETrace[s].steps # _TETrace[s-1].steps
        \*             THEN 1 + F[s-1] ELSE F[s-1]
        \*     IN F[_TEPosition - 1]
    ]

=============================================================================



Parsing and semantic processing can take forever if the trace below is long.
 In this case, it is advised to uncomment the module below to deserialize the
 trace from a generated binary file.

\*
\*---- MODULE MCUpdateThrottle_TETrace ----
\*EXTENDS IOUtils, MCUpdateThrottle, TLC
\*
\*trace == IODeserialize("MCUpdateThrottle_TTrace_1790490160.bin", TRUE)
\*
\*=============================================================================
\*

---- MODULE MCUpdateThrottle_TETrace ----
EXTENDS MCUpdateThrottle, TLC

trace == 
    <<
    ([cache |-> [latest |-> "", notified |-> 0, exists |-> FALSE, checked |-> 0],now |-> 500000,steps |-> 0,lastNotice |-> -1,tooSoon |-> FALSE]),
    ([cache |-> [latest |-> "older", notified |-> 0, exists |-> TRUE, checked |-> 500000],now |-> 500000,steps |-> 1,lastNotice |-> -1,tooSoon |-> FALSE]),
    ([cache |-> [latest |-> "older", notified |-> 0, exists |-> TRUE, checked |-> 500000],now |-> 500000,steps |-> 2,lastNotice |-> -1,tooSoon |-> FALSE]),
    ([cache |-> [latest |-> "newer", notified |-> 500072, exists |-> TRUE, checked |-> 500072],now |-> 500072,steps |-> 3,lastNotice |-> 500072,tooSoon |-> FALSE])
    >>
----


=============================================================================

---- CONFIG MCUpdateThrottle_TTrace_1790490160 ----
CONSTANTS
    MaxSteps = 3

INVARIANT
    _inv

CHECK_DEADLOCK
    \* CHECK_DEADLOCK off because of PROPERTY or INVARIANT above.
    FALSE

INIT
    _init

NEXT
    _next

CONSTANT
    _TETrace <- _trace

ALIAS
    _expression
=============================================================================
\* Generated on Sun Sep 27 06:22:42 UTC 2026