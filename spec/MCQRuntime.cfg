SPECIFICATION SmallSpec
CONSTANTS MaxQ = 3
          MaxLen = 7
VIEW SmallView
INVARIANTS ShapeInv UnitInv FlagsAgree LastAgrees Injective FreeDisjoint FreeAreZero
