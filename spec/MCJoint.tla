------------------------------- MODULE MCJoint -------------------------------
(***************************************************************************)
(* C02 / C04 over the simulator's OWN random draws: the exact joint        *)
(* distribution of the measured bits of a small circuit.                   *)
(* A case is a sequence of operations [g, a, b] (alloc, h, x, y, z, cx,    *)
(* measure, reset). Every measure and every reset consumes one draw; all   *)
(* probabilities met along the way are 0, 1/2 or 1 (checked: Dyadic), so   *)
(* letting each draw range over {1/4, 3/4} with equal weight enumerates    *)
(* the exact distribution: one initial state per (case, draw tuple), the   *)
(* invariant serialises the measured bits. Independence of successive      *)
(* draws - between measurements, between resets, and across the two - is   *)
(* part of the model: the tuple ranges over the full product.              *)
(***************************************************************************)
EXTENDS QSim, Json, IOUtils, FiniteSets
Cases == ndJsonDeserialize(IOEnv.JOINT_CASES)
JDrawExp == 2
Nums == {1, 3}
NDraw(c) == Cardinality({i \in 1..Len(c.ops) : c.ops[i].g \in {"measure", "reset"}})
VARIABLES cid, ds
Init == cid \in 1..Len(Cases) /\ ds \in [1..NDraw(Cases[cid]) -> Nums]
Spec == Init /\ [][UNCHANGED <<cid, ds>>]_<<cid, ds>>
IsHalfish(p) == RIsZero(p) \/ REqDyadic(p, 1, 1) \/ REqDyadic(p, 1, 0)
RECURSIVE Run(_,_,_,_,_,_)
Run(ops, i, s, k, outs, ok) ==
   IF i > Len(ops) THEN [outs |-> outs, ok |-> ok]
   ELSE LET o == ops[i] IN
        IF o.g = "measure" THEN LET b == Outcome(s, o.a, ds[k], JDrawExp) IN
             Run(ops, i + 1, MeasureTo(s, o.a, b), k + 1, Append(outs, b), ok /\ IsHalfish(P1(s, o.a)) /\ Active(s, o.a))
        ELSE IF o.g = "reset" THEN LET b == Outcome(s, o.a, ds[k], JDrawExp) IN
             Run(ops, i + 1, ResetTo(s, o.a, b), k + 1, outs, ok /\ IsHalfish(P1(s, o.a)))
        ELSE Run(ops, i + 1, Step(s, <<o.g, o.a, o.b>>, JDrawExp), k, outs, ok /\ Enabled(s, <<o.g, o.a, o.b>>, 8))
Dump == LET r == Run(Cases[cid].ops, 1, InitState, 1, <<>>, TRUE)
            j == ToJson([id |-> Cases[cid].id, outs |-> r.outs, ok |-> r.ok])
        IN /\ Len(j) > 0
           /\ Serialize(j \o "\n", IOEnv.JOINT_OUT, [format |-> "TXT", charset |-> "UTF-8",
                        openOptions |-> <<"WRITE","CREATE","APPEND">>]).exitValue = 0
=============================================================================
