------------------------------ MODULE MCGrammar ------------------------------
(* every tree of the enumerated families is an initial state: TLC checks RoundTrips (the grammar read back by its
   own parser gives the tree again, with minimal and with redundant parentheses) and serialises tree + token lists *)
EXTENDS Grammar, Json, IOUtils
VARIABLE t
Init == t \in (Pairs \cup Triples \cup Unaries \cup Mixed \cup Assigns \cup Atom)
Spec == Init /\ [][UNCHANGED t]_t
SpecRoundTrip == RoundTrips(t)
Dump == LET j == ToJson([tree |-> t, min |-> Render(t), red |-> RenderR(t)]) IN Len(j) > 0 /\
        Serialize(j \o "\n", IOEnv.GRAMMAR_OUT, [format |-> "TXT", charset |-> "UTF-8", openOptions |-> <<"WRITE","CREATE","APPEND">>]).exitValue = 0
=============================================================================
