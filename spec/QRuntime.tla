------------------------------ MODULE QRuntime ------------------------------
(***************************************************************************)
(* The evaluator's qubit layer on top of QSim (<-> qubit bookkeeping in    *)
(* bloch::runtime::RuntimeEvaluator): declarations hand out simulator      *)
(* indices, objects own the qubits of their fields and release them when   *)
(* destroyed (reset + LIFO free list), released indices are re-used by     *)
(* later declarations (reset + unmark), both measured flags (evaluator and *)
(* simulator) and the last-measurement table are kept, @tracked variables  *)
(* record one outcome per scope exit / owner destruction.                  *)
(*                                                                         *)
(* A behaviour of this module IS a Bloch program: `prog` is the sequence   *)
(* of abstract statements executed so far; harness/py/qrender.py turns it  *)
(* into source text, and the remaining variables are what the real         *)
(* interpreter must exhibit after running it with the draws in `draws`.    *)
(***************************************************************************)
EXTENDS QSim, Sequences

CONSTANTS MaxQ,      \* bound on simulator qubits (register never shrinks: locals are not released)
          MaxLen     \* bound on the number of statements

VARIABLES sim,       \* QSim state  [n, vec, meas]
          evMeas,    \* evaluator-side measured flag per simulator index   (m_qubits[i].measured)
          last,      \* last measurement per index: -1, 0, 1               (m_lastMeasurement)
          free,      \* released indices, LIFO                             (m_freeQubitIndices)
          vars,      \* declared variables, in declaration order
          depth,     \* current block nesting (0 = body of main)
          trk,       \* tracked records so far: Seq of <<key, outcome>>
          echo,      \* echoed measurement bits, in order
          ops,       \* simulator operations performed, in order (= the QASM body)
          draws,     \* random draws consumed, in order (numerators over 2^DrawExp)
          prog,      \* the abstract program
          halted,    \* 0, or the 1-based number of the statement that raised the runtime error
          done

qv == <<sim, evMeas, last, free, vars, depth, trk, echo, ops, draws, prog, halted, done>>

DrawExp  == 3
DrawNums == {1,3,5,7}

\* classes available to programs: name -> sequence of field kinds ("q" = qubit, "a" = qubit[2]), tracked?
ClassFields(c) == CASE c = "Q1" -> <<[k |-> "q", tracked |-> TRUE,  name |-> "q"]>>
                    [] c = "Q2" -> <<[k |-> "a", tracked |-> TRUE,  name |-> "r"]>>
                    \* QG is a GENERIC class (rendered QG<int>), QH a plain class deriving from QG<int>: same layout as Q2, but
                    \* the implementation builds their field table (tracked flags, array sizes) in its generic-instantiation path
                    [] c \in {"QG", "QH"} -> <<[k |-> "a", tracked |-> TRUE,  name |-> "r"]>>
                    [] c = "QU" -> <<[k |-> "q", tracked |-> FALSE, name |-> "q"],
                                     [k |-> "q", tracked |-> FALSE, name |-> "p"]>>
                    \* QD extends Q1: inherits the tracked field q (offset 0), adds d
                    [] c = "QD" -> <<[k |-> "q", tracked |-> TRUE,  name |-> "q"],
                                     [k |-> "q", tracked |-> FALSE, name |-> "d"]>>
                    \* QM extends Q1 and has a destructor that re-prepares and measures the inherited tracked field
                    \* (reset q; h(q); measure q): the tracked record is taken after the destructor has run
                    [] c = "QM" -> <<[k |-> "q", tracked |-> TRUE,  name |-> "q"]>>
Classes == {"Q1","Q2","QU","QD","QG","QH","QM"}
Width(k) == IF k = "a" THEN 2 ELSE 1

(* ------------------------------------------------------------------ *)
(* The bundle B = [sim, evMeas, last, free, ops, draws, trk] is threaded *)
(* through the multi-step operations (array declaration, destruction).   *)
(* ------------------------------------------------------------------ *)
Bundle == [sim |-> sim, evMeas |-> evMeas, last |-> last, free |-> free, ops |-> ops, draws |-> draws, trk |-> trk]

Op(g,a,b,k,out) == [g |-> g, a |-> a, b |-> b, k |-> k, out |-> out, m |-> 0]
OpM(g,a,k,m) == [g |-> g, a |-> a, b |-> -1, k |-> k, out |-> -1, m |-> m]

\* reset of index i with draw r (shared by `reset q;`, destruction and re-use)
SimReset(B, i, r) ==
   LET o == Outcome(B.sim, i, r, DrawExp) IN
   [B EXCEPT !.sim = ResetTo(B.sim, i, o), !.ops = Append(B.ops, Op("reset", i, -1, 0, o)),
             !.draws = Append(B.draws, r)]
Unmark(B, i) == [B EXCEPT !.evMeas[i] = FALSE, !.last[i] = -1]

\* allocateTrackedQubit: re-use the most recently released index (reset + unmark) or grow the register
AllocOne(B, r) ==
   IF B.free # <<>> THEN
      LET i == B.free[Len(B.free)] IN
      [b |-> Unmark(SimReset([B EXCEPT !.free = SubSeq(B.free, 1, Len(B.free) - 1)], i, r), i), idx |-> i]
   ELSE
      LET i == B.sim.n IN
      [b |-> [B EXCEPT !.sim = Alloc(B.sim),
                       !.evMeas = [q \in 0..i |-> IF q < i THEN B.evMeas[q] ELSE FALSE],
                       !.last = [q \in 0..i |-> IF q < i THEN B.last[q] ELSE -1]],
       idx |-> i]

RECURSIVE AllocMany(_,_,_)
AllocMany(B, k, rs) ==  \* k allocations, draws rs[1..k]; returns [b, idx : Seq]
   IF k = 0 THEN [b |-> B, idx |-> <<>>]
   ELSE LET one == AllocOne(B, rs[1])
            rest == AllocMany(one.b, k - 1, Tail(rs))
        IN [b |-> rest.b, idx |-> <<one.idx>> \o rest.idx]

\* outcome string of a tracked variable: bits of the last measurement of each element, or "?"
RECURSIVE Bits(_,_)
Bits(lst, idx) == IF idx = <<>> THEN ""
                  ELSE (IF lst[idx[1]] = 1 THEN "1" ELSE "0") \o Bits(lst, Tail(idx))
OutcomeStr(lst, idx) == IF \E j \in 1..Len(idx) : lst[idx[j]] = -1 THEN "?" ELSE Bits(lst, idx)

\* releaseQubit after the implicit reset
RECURSIVE ReleaseAll(_,_,_)
ReleaseAll(B, idx, rs) ==
   IF idx = <<>> THEN B
   ELSE LET i  == idx[1]
            b1 == Unmark(SimReset(B, i, rs[1]), i)
            b2 == [b1 EXCEPT !.free = Append(b1.free, i)]
        IN ReleaseAll(b2, Tail(idx), Tail(rs))

\* destroyObject: per field in offset order: record if tracked, then reset + release its qubits
RECURSIVE DestroyFields(_,_,_,_,_)
DestroyFields(B, cls, fields, idx, rs) ==
   IF fields = <<>> THEN B
   ELSE LET f  == fields[1]
            w  == Width(f.k)
            my == SubSeq(idx, 1, w)
            b1 == IF f.tracked
                  THEN [B EXCEPT !.trk = Append(B.trk, <<cls \o "." \o f.name, OutcomeStr(B.last, my)>>)]
                  ELSE B
            b2 == ReleaseAll(b1, my, SubSeq(rs, 1, w))
        IN DestroyFields(b2, cls, Tail(fields), SubSeq(idx, w + 1, Len(idx)), SubSeq(rs, w + 1, Len(rs)))

\* measuring one index inside bundle B (no flag check): sim collapse, both flags, last, log, draw
MeasureIn(B, i, r) ==
   LET o == Outcome(B.sim, i, r, DrawExp) IN
   [B EXCEPT !.sim = MeasureTo(B.sim, i, o), !.evMeas[i] = TRUE, !.last[i] = o,
             !.ops = Append(B.ops, Op("measure", i, -1, 0, o)), !.draws = Append(B.draws, r)]

\* the user destructor runs first (only QM has one); rs[1] serves its reset and the release, rs[2] its measurement
DtorOf(B, cls, idx, rs) ==
   IF cls # "QM" THEN B
   ELSE LET i  == idx[1]
            b1 == Unmark(SimReset(B, i, rs[1]), i)
            b2 == [b1 EXCEPT !.sim = Gate1(b1.sim, "h", i, 0), !.ops = Append(b1.ops, OpM("h", i, 0, 0))]
        IN MeasureIn(b2, i, rs[2])
DestroyObj(B, cls, idx, rs) == DestroyFields(DtorOf(B, cls, idx, rs), cls, ClassFields(cls), idx, rs)

TotalWidth(c) == LET f == ClassFields(c) IN
                 IF Len(f) = 1 THEN Width(f[1].k) ELSE Width(f[1].k) + Width(f[2].k)

(* ------------------------------------------------------------------ *)
InScope(i)  == vars[i].scope
LiveVar(i)  == i \in 1..Len(vars) /\ InScope(i) /\ vars[i].live
Refs        == {<<i, e>> : i \in 1..Len(vars), e \in 1..4}
ValidRef(r) == LiveVar(r[1]) /\ r[2] \in 1..Len(vars[r[1]].idx)
IdxOf(r)    == vars[r[1]].idx[r[2]]
Key(i)      == (IF vars[i].k = "a" THEN "qubit[] v" ELSE "qubit v") \o ToString(i)

Install(B) == /\ sim' = B.sim /\ evMeas' = B.evMeas /\ last' = B.last /\ free' = B.free
              /\ ops' = B.ops /\ draws' = B.draws /\ trk' = B.trk

Stmt(s) == prog' = Append(prog, s)
Running == ~done /\ halted = 0

NewVar(k, cls, idx, tracked) == [k |-> k, cls |-> cls, idx |-> idx, tracked |-> tracked,
                                 depth |-> depth, scope |-> TRUE, live |-> TRUE]

(* ---- declarations ---- *)
DeclQ(tracked, r) ==
   /\ Running /\ Len(prog) < MaxLen /\ (free # <<>> \/ sim.n < MaxQ)
   /\ LET a == AllocOne(Bundle, r) IN
      /\ Install(a.b)
      /\ vars' = Append(vars, NewVar("q", "", <<a.idx>>, tracked))
   /\ Stmt([s |-> "declq", v |-> Len(vars) + 1, tracked |-> tracked])
   /\ UNCHANGED <<depth, echo, halted, done>>

DeclArr(tracked, rs) ==
   /\ Running /\ Len(prog) < MaxLen /\ (sim.n - Len(free)) + 2 <= MaxQ
   /\ LET a == AllocMany(Bundle, 2, rs) IN
      /\ Install(a.b)
      /\ vars' = Append(vars, NewVar("a", "", a.idx, tracked))
   /\ Stmt([s |-> "declarr", v |-> Len(vars) + 1, tracked |-> tracked])
   /\ UNCHANGED <<depth, echo, halted, done>>

\* at most one live object per scope level: the order in which several objects of one scope die is
\* unspecified in the implementation (hash-map destruction order) and would make re-use order ambiguous
NewObj(c, rs) ==
   /\ Running /\ Len(prog) < MaxLen /\ (sim.n - Len(free)) + TotalWidth(c) <= MaxQ
   /\ ~\E i \in 1..Len(vars) : InScope(i) /\ vars[i].k = "obj" /\ vars[i].depth = depth /\ vars[i].live
   /\ LET a == AllocMany(Bundle, TotalWidth(c), rs) IN
      /\ Install(a.b)
      /\ vars' = Append(vars, NewVar("obj", c, a.idx, FALSE))
   /\ Stmt([s |-> "new", v |-> Len(vars) + 1, cls |-> c])
   /\ UNCHANGED <<depth, echo, halted, done>>

(* ---- operations; `path` says how the program names the qubit ---- *)
Halt == halted' = Len(prog) + 1 /\ done' = TRUE

\* rotation angle = k*pi/2 + 4*pi*m: the extra m full double-turns do not change the unitary (QSim only sees k)
\* but exercise how the angle is computed, passed and printed
Gate(g, k, m, r, path) ==
   /\ Running /\ Len(prog) < MaxLen /\ ValidRef(r)
   /\ Stmt([s |-> "gate", g |-> g, k |-> k, m |-> m, v |-> r[1], e |-> r[2], path |-> path])
   /\ IF evMeas[IdxOf(r)]
      THEN Halt /\ UNCHANGED <<sim, evMeas, last, free, vars, depth, trk, echo, ops, draws>>
      ELSE /\ sim' = Gate1(sim, g, IdxOf(r), k)
           /\ ops' = Append(ops, OpM(g, IdxOf(r), k, m))
           /\ UNCHANGED <<evMeas, last, free, vars, depth, trk, echo, draws, halted, done>>

\* a controlled gate needs two different qubits: naming the same qubit twice is refused like an
\* operation on a measured qubit (the program stops with a located runtime error, nothing is emitted)
CXg(c, t, path) ==
   /\ Running /\ Len(prog) < MaxLen /\ ValidRef(c) /\ ValidRef(t)
   /\ Stmt([s |-> "cx", v |-> c[1], e |-> c[2], v2 |-> t[1], e2 |-> t[2], path |-> path])
   /\ IF evMeas[IdxOf(c)] \/ evMeas[IdxOf(t)] \/ IdxOf(c) = IdxOf(t)
      THEN Halt /\ UNCHANGED <<sim, evMeas, last, free, vars, depth, trk, echo, ops, draws>>
      ELSE /\ sim' = CX(sim, IdxOf(c), IdxOf(t))
           /\ ops' = Append(ops, Op("cx", IdxOf(c), IdxOf(t), 0, -1))
           /\ UNCHANGED <<evMeas, last, free, vars, depth, trk, echo, draws, halted, done>>

Measure(r, d, asExpr, path) ==
   /\ Running /\ Len(prog) < MaxLen /\ ValidRef(r)
   /\ Stmt([s |-> "measure", v |-> r[1], e |-> r[2], expr |-> asExpr, path |-> path])
   /\ IF evMeas[IdxOf(r)]
      THEN Halt /\ UNCHANGED <<sim, evMeas, last, free, vars, depth, trk, echo, ops, draws>>
      ELSE /\ Install(MeasureIn(Bundle, IdxOf(r), d))
           /\ echo' = IF asExpr THEN Append(echo, Outcome(sim, IdxOf(r), d, DrawExp)) ELSE echo
           /\ UNCHANGED <<vars, depth, halted, done>>

\* `measure arr;` measures the elements in index order and stops at the first already-measured one
RECURSIVE MeasSeq(_,_,_)
MeasSeq(B, idx, rs) ==   \* returns [b, ok]
   IF idx = <<>> THEN [b |-> B, ok |-> TRUE]
   ELSE IF B.evMeas[idx[1]] THEN [b |-> B, ok |-> FALSE]
   ELSE MeasSeq(MeasureIn(B, idx[1], rs[1]), Tail(idx), Tail(rs))

MeasureArr(i, rs) ==
   /\ Running /\ Len(prog) < MaxLen /\ LiveVar(i) /\ vars[i].k = "a"
   /\ Stmt([s |-> "measarr", v |-> i])
   /\ LET m == MeasSeq(Bundle, vars[i].idx, rs) IN
      /\ Install(m.b)
      /\ IF m.ok THEN UNCHANGED <<halted, done>> ELSE Halt
   /\ UNCHANGED <<vars, depth, echo>>

ResetQ(r, d) ==
   /\ Running /\ Len(prog) < MaxLen /\ ValidRef(r)
   /\ Stmt([s |-> "reset", v |-> r[1], e |-> r[2]])
   /\ Install(Unmark(SimReset(Bundle, IdxOf(r), d), IdxOf(r)))
   /\ UNCHANGED <<vars, depth, echo, halted, done>>

(* ---- lifetime ---- *)
Destroy(i, rs) ==
   /\ Running /\ Len(prog) < MaxLen /\ LiveVar(i) /\ vars[i].k = "obj"
   /\ Stmt([s |-> "destroy", v |-> i])
   /\ Install(DestroyObj(Bundle, vars[i].cls, vars[i].idx, rs))
   /\ vars' = [vars EXCEPT ![i].live = FALSE]
   /\ UNCHANGED <<depth, echo, halted, done>>

OpenBlock ==
   /\ Running /\ Len(prog) < MaxLen /\ depth < 2
   /\ depth' = depth + 1 /\ Stmt([s |-> "open"])
   /\ UNCHANGED <<sim, evMeas, last, free, vars, trk, echo, ops, draws, halted, done>>

\* endScope: tracked locals of the closing scope record an outcome; then the scope's values die,
\* which destroys the (at most one) live object declared there
RECURSIVE RecordLocals(_,_)
RecordLocals(B, is) ==
   IF is = <<>> THEN B
   ELSE LET i == is[1] IN
        RecordLocals([B EXCEPT !.trk = Append(B.trk, <<Key(i), OutcomeStr(B.last, vars[i].idx)>>)], Tail(is))
SeqOfSet(S) == LET RECURSIVE F(_) F(T) == IF T = {} THEN <<>> ELSE
                     LET x == CHOOSE x \in T : \A y \in T : x <= y IN <<x>> \o F(T \ {x}) IN F(S)
CloseScope(B, rs) ==
   LET mine == {i \in 1..Len(vars) : InScope(i) /\ vars[i].depth = depth}
       tr   == SeqOfSet({i \in mine : vars[i].tracked /\ vars[i].k # "obj"})
       obs  == {i \in mine : vars[i].k = "obj" /\ vars[i].live}
       b1   == RecordLocals(B, tr)
   IN IF obs = {} THEN b1
      ELSE LET o == CHOOSE o \in obs : TRUE IN
           DestroyObj(b1, vars[o].cls, vars[o].idx, rs)
ScopeOff == vars' = [i \in 1..Len(vars) |-> IF vars[i].depth = depth THEN [vars[i] EXCEPT !.scope = FALSE, !.live = FALSE] ELSE vars[i]]

CloseBlock(rs) ==
   /\ Running /\ depth > 0
   /\ Install(CloseScope(Bundle, rs)) /\ ScopeOff
   /\ depth' = depth - 1 /\ Stmt([s |-> "close"])
   /\ UNCHANGED <<echo, halted, done>>

\* end of main: its scope closes like a block
Finish(rs) ==
   /\ Running /\ depth = 0
   /\ Install(CloseScope(Bundle, rs)) /\ ScopeOff
   /\ done' = TRUE
   /\ UNCHANGED <<depth, echo, halted, prog>>

Init == /\ sim = InitState /\ evMeas = [q \in {} |-> FALSE] /\ last = [q \in {} |-> -1]
        /\ free = <<>> /\ vars = <<>> /\ depth = 0 /\ trk = <<>> /\ echo = <<>> /\ ops = <<>>
        /\ draws = <<>> /\ prog = <<>> /\ halted = 0 /\ done = FALSE

D1 == DrawNums
D2 == {<<a,b>> : a \in DrawNums, b \in DrawNums}
\* (k = 0 with no extra turns is a rotation by exactly 0.0: it changes nothing, and is refused on a measured qubit like any gate)
GateSet == {<<"h",0>>, <<"x",0>>, <<"y",0>>, <<"z",0>>, <<"rx",1>>, <<"ry",3>>, <<"rz",2>>, <<"rz",5>>, <<"rx",6>>, <<"ry",1>>, <<"rx",0>>, <<"ry",0>>, <<"rz",0>>}
Turns   == {0, 1, -1, 1600}
Paths == {"direct","fn","static","own"}

Next == \/ \E t \in BOOLEAN, r \in D1 : DeclQ(t, r)
        \/ \E t \in BOOLEAN, rs \in D2 : DeclArr(t, rs)
        \/ \E c \in Classes, rs \in D2 : NewObj(c, rs)
        \/ \E g \in GateSet, m \in Turns, r \in Refs, p \in Paths : Gate(g[1], g[2], IF g[1] \in Rots THEN m ELSE 0, r, p)
        \/ \E c \in Refs, t \in Refs, p \in Paths : CXg(c, t, p)
        \/ \E r \in Refs, d \in D1, x \in BOOLEAN, p \in Paths : Measure(r, d, x, p)
        \/ \E i \in 1..Len(vars), rs \in D2 : MeasureArr(i, rs)
        \/ \E r \in Refs, d \in D1 : ResetQ(r, d)
        \/ \E i \in 1..Len(vars), rs \in D2 : Destroy(i, rs)
        \/ OpenBlock
        \/ \E rs \in D2 : CloseBlock(rs)
        \/ \E rs \in D2 : Finish(rs)

Spec == Init /\ [][Next]_qv

(* ---------------- invariants: the design-level content of C03 / C06 / C17 ---------------- *)
ShapeInv  == /\ ShapeOK(sim) /\ DOMAIN evMeas = Qubits(sim) /\ DOMAIN last = Qubits(sim)
UnitInv   == UnitNormS(sim)
FlagsAgree == \A q \in Qubits(sim) : evMeas[q] = sim.meas[q]
LastAgrees == \A q \in Qubits(sim) : (evMeas[q] => last[q] \in {0,1}) /\ (last[q] # -1 => evMeas[q])
\* two reachable declarations never share a simulator qubit, free indices belong to nobody
Held == {i \in 1..Len(vars) : InScope(i) /\ vars[i].live}
Injective == \A i \in Held, j \in Held : \A a \in 1..Len(vars[i].idx), b \in 1..Len(vars[j].idx) :
                (<<i,a>> # <<j,b>>) => vars[i].idx[a] # vars[j].idx[b]
FreeDisjoint == /\ \A a, b \in 1..Len(free) : a # b => free[a] # free[b]
                /\ \A i \in Held : \A a \in 1..Len(vars[i].idx) : \A f \in 1..Len(free) : free[f] # vars[i].idx[a]
\* a released qubit is in |0>, unmeasured
FreeAreZero == \A f \in 1..Len(free) : RIsZero(P1(sim, free[f])) /\ ~evMeas[free[f]] /\ last[free[f]] = -1
\* every tracked record is a bit string of the right width or "?"
NoOpOnMeasured == TRUE

(* ---------------- end-of-run report of unmeasured qubits (RuntimeEvaluator::warnUnmeasured) ---------------- *)
\* A run that ends without a runtime error reports, in simulator-index order, every qubit that still carries a
\* name and whose evaluator-side measured flag is unset. A variable's qubits carry the variable's name and are never
\* released (so they keep it after their scope closed, and a recycled index takes the name of its new owner); the
\* qubits of an object's fields lose their name when the object releases them, and every object is gone when main's
\* scope has closed. The report is therefore a second, public observer of evMeas (next to the refusals of C06).
PlainOwner(q) == {i \in 1..Len(vars) : vars[i].k # "obj" /\ \E e \in 1..Len(vars[i].idx) : vars[i].idx[e] = q}
Unreported    == {q \in Qubits(sim) : PlainOwner(q) # {} /\ ~evMeas[q]}
Warned == IF ~done \/ halted # 0 THEN <<>>
          ELSE LET us == SeqOfSet(Unreported) IN [j \in 1..Len(us) |-> CHOOSE i \in PlainOwner(us[j]) : TRUE]
\* design-level: a qubit is named by at most one variable, and nothing that is free is reported
OneNamer   == \A q \in Qubits(sim) : \A i, j \in PlainOwner(q) : i = j
FreeUnnamed == \A f \in 1..Len(free) : PlainOwner(free[f]) = {}
=============================================================================
