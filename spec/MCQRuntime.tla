---------------------------- MODULE MCQRuntime ----------------------------
(***************************************************************************)
(* Two uses of QRuntime:                                                   *)
(*  - exhaustive (MCQRuntime.cfg): SPECIFICATION Spec with small bounds,   *)
(*    all design invariants;                                               *)
(*  - generator (MCQRuntimeGen.cfg, tlc -simulate): GenSpec takes one      *)
(*    randomly chosen enabled action per step (weighted by kind so that    *)
(*    lifetime events are as frequent as gates); every finished behaviour  *)
(*    is serialised (program, draws, and everything the interpreter must   *)
(*    exhibit) for harness/py/qrender.py + prog_runner.                    *)
(***************************************************************************)
EXTENDS QRuntime, Json, IOUtils

Pick(S) == RandomElement(S)
ValidRefs == {r \in Refs : ValidRef(r)}
ObjVars   == {i \in 1..Len(vars) : LiveVar(i) /\ vars[i].k = "obj"}
ArrVars   == {i \in 1..Len(vars) : LiveVar(i) /\ vars[i].k = "a"}
Kinds == <<"declq","declq","declarr","new","new","gate","gate","gate","cx","cx","measure","measure",
           "measarr","reset","destroy","open","close","close","finish">>

\* RandomElement is re-evaluated at every textual use, so each random choice is bound once through
\* a singleton quantifier ( \E x \in {Pick(S)} ). Kinds are filtered by cheap guards first so that the
\* randomly chosen action is (almost always) enabled and every simulation step makes progress.
Room       == MaxQ - (sim.n - Len(free))
\* QM's destructor applies h: not available over the basis-state model
FitClasses == {c \in Classes : TotalWidth(c) <= Room /\ (c # "QM" \/ ~BasisOnly)}
NoObjHere  == ~\E i \in 1..Len(vars) : InScope(i) /\ vars[i].k = "obj" /\ vars[i].depth = depth /\ vars[i].live
More       == Len(prog) < MaxLen
Guard(kind) ==
   CASE kind = "declq"   -> More /\ Room >= 1
     [] kind = "declarr" -> More /\ Room >= 2
     [] kind = "new"     -> More /\ FitClasses # {} /\ NoObjHere
     [] kind = "gate"    -> More /\ ValidRefs # {}
     [] kind = "cx"      -> More /\ ValidRefs # {}
     [] kind = "measure" -> More /\ ValidRefs # {}
     [] kind = "measarr" -> More /\ ArrVars # {}
     [] kind = "reset"   -> More /\ ValidRefs # {}
     [] kind = "destroy" -> More /\ ObjVars # {}
     [] kind = "open"    -> More /\ depth < 2
     [] kind = "close"   -> depth > 0
     [] kind = "finish"  -> depth = 0 /\ Len(prog) >= 4
\* a second mix for the generator: owners whose fields get entangled with each other and with outside qubits and are then
\* released (destroy / scope exit) while unmeasured - the implicit resets of a release meet correlated targets
RelKinds == <<"new","new","declq","gate","cx","cx","cx","cx","cx","destroy","destroy","open","close","close","measure","finish">>
RelGates == {<<"h",0>>, <<"h",0>>, <<"x",0>>, <<"ry",1>>}
OkKindsOf(K) == SelectSeq(K, Guard)
OkKinds == OkKindsOf(Kinds)
ActiveRefs == {r \in ValidRefs : ~evMeas[IdxOf(r)]}
\* mostly operate on unmeasured qubits (so behaviours get long), sometimes on any (refusals)
Pool(coin) == IF coin = 1 \/ ActiveRefs = {} THEN ValidRefs ELSE ActiveRefs
GenNextOf(K, GS) ==
   /\ Running
   /\ \E ki \in {Pick(1..Len(OkKindsOf(K)))}, rs \in {Pick(D2)}, d \in {Pick(D1)}, t \in {Pick(BOOLEAN)}, p \in {Pick(Paths)} :
      LET kind == OkKindsOf(K)[ki] IN
      CASE kind = "declq"   -> DeclQ(t, d)
        [] kind = "declarr" -> DeclArr(t, rs)
        [] kind = "new"     -> \E c \in {Pick(FitClasses)} : NewObj(c, rs)
        [] kind = "gate"    -> \E g \in {Pick(GS)}, coin \in {Pick(1..8)} : \E r \in {Pick(Pool(coin))}, mm \in {Pick(Turns)} : Gate(g[1], g[2], IF g[1] \in Rots THEN mm ELSE 0, r, p)
        [] kind = "cx"      -> \E coin \in {Pick(1..8)} : \E c \in {Pick(Pool(coin))} :
                                 LET others == {x \in Pool(coin) : IdxOf(x) # IdxOf(c)}
                                     \* one time in sixteen (or when nothing else exists) the same qubit is named twice
                                     cand   == IF others = {} \/ Pick(1..16) = 1 THEN ValidRefs ELSE others
                                 IN \E r \in {Pick(cand)} : CXg(c, r, p)
        [] kind = "measure" -> \E coin \in {Pick(1..8)} : \E r \in {Pick(Pool(coin))} : Measure(r, d, t, p)
        [] kind = "measarr" -> \E i \in {Pick(ArrVars)} : MeasureArr(i, rs)
        [] kind = "reset"   -> \E r \in {Pick(ValidRefs)} : ResetQ(r, d)
        [] kind = "destroy" -> \E i \in {Pick(ObjVars)} : Destroy(i, rs)
        [] kind = "open"    -> OpenBlock
        [] kind = "close"   -> CloseBlock(rs)
        [] kind = "finish"  -> Finish(rs)
GenNext == GenNextOf(Kinds, GateSet)
GenSpec == Init /\ [][GenNext]_qv
RelSpec == Init /\ [][GenNextOf(RelKinds, RelGates)]_qv

\* a third mix: registers wide enough for two-digit qubit indices (run with MaxQ = 12): declarations until the register is full,
\* then operations on randomly chosen qubits
WideDecl == <<"declq","declq","declarr","new">>
WideOps  == <<"gate","gate","gate","gate","gate","cx","cx","cx","cx","cx","measure","measure","measarr","reset","destroy","finish">>
\* basis-preserving gates only: WideSpec is run over QBasis (module MCQRuntimeB), where the register is its bit string
WideGates == {<<"x",0>>, <<"y",0>>, <<"z",0>>, <<"rx",2>>, <<"rx",4>>, <<"ry",6>>, <<"ry",2>>, <<"rz",1>>, <<"rz",5>>}
WideSpec == Init /\ [][IF Room > 0 THEN GenNextOf(WideDecl, WideGates) ELSE GenNextOf(WideOps, WideGates)]_qv

(* A scripted family explored EXHAUSTIVELY (no random choice): one outside qubit, one owner of two qubits (every class of
   width 2), its first qubit put in superposition, the two entangled in either direction, optionally one of them entangled
   with the outside qubit, then the owner released by destroy or by scope exit with every pair of draws, then the outside
   qubit measured. These are the releases whose implicit resets meet mutually correlated, unmeasured targets. *)
TwoWide  == {c \in Classes : TotalWidth(c) = 2}
LastS    == IF prog = <<>> THEN "none" ELSE prog[Len(prog)].s
CountS(k) == Cardinality({i \in 1..Len(prog) : prog[i].s = k})
TheObj   == CHOOSE i \in 1..Len(vars) : vars[i].k = "obj"
HasObj   == \E i \in 1..Len(vars) : vars[i].k = "obj"
ObjLive  == HasObj /\ LiveVar(TheObj)
PairNext ==
   /\ Running
   /\ \/ LastS = "none" /\ DeclQ(FALSE, 1)
      \/ LastS = "declq" /\ (OpenBlock \/ \E c \in TwoWide : NewObj(c, <<1, 7>>))
      \/ LastS = "open" /\ \E c \in TwoWide : NewObj(c, <<7, 1>>)
      \/ LastS = "new" /\ \E g \in {<<"h", 0>>, <<"ry", 1>>} : Gate(g[1], g[2], 0, <<TheObj, 1>>, "direct")
      \/ LastS = "gate" /\ (CXg(<<TheObj, 1>>, <<TheObj, 2>>, "direct") \/ CXg(<<TheObj, 2>>, <<TheObj, 1>>, "direct"))
      \/ LastS = "cx" /\ CountS("cx") = 1 /\ \E e \in {1, 2} : CXg(<<TheObj, e>>, <<1, 1>>, "direct")
      \/ LastS = "cx" /\ ObjLive /\ \E rs \in D2 : (Destroy(TheObj, rs) \/ (depth > 0 /\ CloseBlock(rs)))
      \/ LastS \in {"destroy", "close"} /\ CountS("measure") = 0 /\ \E d \in {1, 7} : Measure(<<1, 1>>, d, TRUE, "direct")
      \/ LastS = "measure" /\ depth > 0 /\ CloseBlock(<<1, 7>>)
      \/ LastS \in {"measure", "close"} /\ CountS("measure") = 1 /\ depth = 0 /\ Finish(<<7, 1>>)
PairSpec == Init /\ [][PairNext]_qv

(* Exhaustive small-scope exploration: reduced parameter sets (the access path and the concrete gate do
   not influence the bookkeeping), history variables hidden by a VIEW. *)
SD1 == {1,7}
SD2 == {<<1,7>>, <<7,1>>}
SmallNext ==
        \/ \E t \in BOOLEAN, r \in SD1 : DeclQ(t, r)
        \/ \E rs \in SD2 : DeclArr(TRUE, rs)
        \/ \E c \in {"Q1","QD"}, rs \in SD2 : NewObj(c, rs)
        \/ \E g \in {<<"h",0>>, <<"x",0>>}, r \in Refs : Gate(g[1], g[2], 0, r, "direct")
        \/ \E c \in Refs, t \in Refs : CXg(c, t, "direct")
        \/ \E r \in Refs, d \in SD1 : Measure(r, d, FALSE, "direct")
        \/ \E i \in 1..Len(vars), rs \in SD2 : MeasureArr(i, rs)
        \/ \E r \in Refs, d \in SD1 : ResetQ(r, d)
        \/ \E i \in 1..Len(vars), rs \in SD2 : Destroy(i, rs)
        \/ OpenBlock
        \/ \E rs \in SD2 : CloseBlock(rs)
        \/ \E rs \in SD2 : Finish(rs)
SmallSpec == Init /\ [][SmallNext]_qv
SmallView == <<sim, evMeas, last, free, vars, depth, halted, done>>

VecSeq(s)  == [i \in 1..Dim(s) |-> s.vec[i-1]]
F2S(f, n)  == [i \in 1..n |-> f[i-1]]
B2I(b)     == IF b THEN 1 ELSE 0
Final == [prog |-> prog, draws |-> draws, halted |-> halted, echo |-> echo, trk |-> trk, ops |-> ops,
          n |-> sim.n, vec |-> VecSeq(sim), basis |-> BasisOf(sim),
          simmeas |-> [i \in 1..sim.n |-> B2I(sim.meas[i-1])],
          evmeas |-> [i \in 1..sim.n |-> B2I(evMeas[i-1])],
          last |-> F2S(last, sim.n), free |-> free,
          warn |-> Warned,
          vars |-> [i \in 1..Len(vars) |-> [k |-> vars[i].k, cls |-> vars[i].cls, idx |-> vars[i].idx,
                                             tracked |-> B2I(vars[i].tracked)]]]
DumpFile == IOEnv.QRT_DUMP
AllInv == ShapeInv /\ UnitInv /\ FlagsAgree /\ LastAgrees /\ Injective /\ FreeDisjoint /\ FreeAreZero /\ OneNamer /\ FreeUnnamed
DumpDone == done =>
   LET j == ToJson(Final) IN
   /\ Len(j) > 0
   /\ Serialize(j \o "\n", DumpFile, [format |-> "TXT", charset |-> "UTF-8",
                                      openOptions |-> <<"WRITE","CREATE","APPEND">>]).exitValue = 0
=============================================================================
