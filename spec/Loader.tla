-------------------------------- MODULE Loader --------------------------------
(***************************************************************************)
(* C19: import resolution and module loading over an abstract file system. *)
(* A configuration is                                                      *)
(*   [files  : Seq([root, dir : Seq(STRING), name, pkg : Seq(STRING) or    *)
(*                  <<"?">> when the file has no package line,             *)
(*                  imports : Seq([parts : Seq(STRING), sym : name | "*"]),*)
(*                  main : BOOLEAN]),                                      *)
(*    entry  : index of the entry file,                                    *)
(*    search : Seq(root)   (configured search paths, in order),            *)
(*    cwd    : root]                                                       *)
(* A location is <<root, dir>>. 'import a.b.C' is looked up as a/b/C in the *)
(* importing file's directory, then the search paths, then the working     *)
(* directory - search paths FIRST when the first component is "bloch".     *)
(* Load(cfg) = [ok : BOOLEAN, order : Seq(file index), err : STRING]       *)
(***************************************************************************)
EXTENDS Integers, Sequences, FiniteSets, TLC

NoPkg == <<"?">>
Declared(f) == IF f.pkg = NoPkg THEN <<>> ELSE f.pkg

\* index of the file at location <<root, dir>> with the given name, or 0
FileAt(cfg, root, dir, name) ==
   LET hit == {i \in 1..Len(cfg.files) : cfg.files[i].root = root /\ cfg.files[i].dir = dir /\ cfg.files[i].name = name}
   IN IF hit = {} THEN 0 ELSE CHOOSE i \in hit : TRUE
\* bases in search order: each base is a location <<root, dir>>
Bases(cfg, parts, from) ==
   LET sp == [i \in 1..Len(cfg.search) |-> <<cfg.search[i], <<>>>>]
       cw == <<<<cfg.cwd, <<>>>>>>
   IN IF parts # <<>> /\ parts[1] = "bloch" THEN sp \o <<from>> \o cw ELSE <<from>> \o sp \o cw
RECURSIVE FirstHit(_,_,_,_)
FirstHit(cfg, bases, pkgparts, name) ==
   IF bases = <<>> THEN 0
   ELSE LET i == FileAt(cfg, bases[1][1], bases[1][2] \o pkgparts, name)
        IN IF i > 0 THEN i ELSE FirstHit(cfg, Tail(bases), pkgparts, name)
\* named import: parts = package parts, sym = file name
Resolve(cfg, pkgparts, sym, from) == FirstHit(cfg, Bases(cfg, pkgparts \o <<sym>>, from), pkgparts, sym)
\* wildcard import: the first base whose directory holds at least one module; all of them, sorted by name
FilesIn(cfg, root, dir) == {i \in 1..Len(cfg.files) : cfg.files[i].root = root /\ cfg.files[i].dir = dir}
RECURSIVE FirstDir(_,_,_)
FirstDir(cfg, bases, pkgparts) ==
   IF bases = <<>> THEN {}
   ELSE LET s == FilesIn(cfg, bases[1][1], bases[1][2] \o pkgparts) IN IF s # {} THEN s ELSE FirstDir(cfg, Tail(bases), pkgparts)
NameLess(cfg, i, j) == cfg.files[i].rank < cfg.files[j].rank       \* rank = position of the name in sorted order
RECURSIVE SortByName(_,_)
SortByName(cfg, S) == IF S = {} THEN <<>> ELSE
   LET m == CHOOSE i \in S : \A j \in S \ {i} : NameLess(cfg, i, j) IN <<m>> \o SortByName(cfg, S \ {m})
ResolveWildcard(cfg, pkgparts, from) == SortByName(cfg, FirstDir(cfg, Bases(cfg, pkgparts, from), pkgparts))

(* ---- depth-first loading with a cache and a cycle stack ---- *)
\* state: [order : Seq(index) (post-order), stack : Seq(index), err : STRING]
InSeq(x, s) == \E k \in 1..Len(s) : s[k] = x
RECURSIVE LoadModule(_,_,_), LoadImports(_,_,_,_), LoadTargets(_,_,_,_,_)
LoadModule(cfg, i, st) ==
   IF st.err # "" THEN st
   ELSE IF InSeq(i, st.stack) THEN [st EXCEPT !.err = "cycle"]
   ELSE IF InSeq(i, st.order) THEN st                                     \* already loaded: once, whatever path reaches it
   ELSE LET s1 == [st EXCEPT !.stack = Append(@, i)]
            s2 == LoadImports(cfg, i, cfg.files[i].imports, s1)
        IN IF s2.err # "" THEN s2
           ELSE [s2 EXCEPT !.order = Append(@, i), !.stack = SubSeq(@, 1, Len(@) - 1)]   \* dependencies precede their importer
LoadImports(cfg, i, imps, st) ==
   IF imps = <<>> \/ st.err # "" THEN st
   ELSE LET imp == imps[1]
            from == <<cfg.files[i].root, cfg.files[i].dir>>
        IN IF imp.sym = "*" THEN
              LET ts == ResolveWildcard(cfg, imp.parts, from) IN
              IF ts = <<>> THEN [st EXCEPT !.err = "notfound"]
              ELSE LoadImports(cfg, i, Tail(imps), LoadTargets(cfg, i, ts, imp.parts, st))
           ELSE LET t == Resolve(cfg, imp.parts, imp.sym, from) IN
                IF t = 0 THEN [st EXCEPT !.err = "notfound"]
                ELSE LET s1 == LoadModule(cfg, t, st) IN
                     IF s1.err # "" THEN s1
                     ELSE IF Declared(cfg.files[t]) # imp.parts THEN [s1 EXCEPT !.err = "package"]
                     ELSE LoadImports(cfg, i, Tail(imps), s1)
LoadTargets(cfg, i, ts, pkgparts, st) ==
   IF ts = <<>> \/ st.err # "" THEN st
   ELSE IF ts[1] = i THEN LoadTargets(cfg, i, Tail(ts), pkgparts, st)      \* a wildcard never re-imports the importer itself
   ELSE LET s1 == LoadModule(cfg, ts[1], st) IN
        IF s1.err # "" THEN s1
        ELSE IF Declared(cfg.files[ts[1]]) # pkgparts THEN [s1 EXCEPT !.err = "package"]
        ELSE LoadTargets(cfg, i, Tail(ts), pkgparts, s1)

Mains(cfg, order) == Cardinality({k \in 1..Len(order) : cfg.files[order[k]].main})
Load(cfg) ==
   LET st == LoadModule(cfg, cfg.entry, [order |-> <<>>, stack |-> <<>>, err |-> ""]) IN
   IF st.err # "" THEN [ok |-> FALSE, order |-> <<>>, err |-> st.err]
   ELSE IF Mains(cfg, st.order) = 0 THEN [ok |-> FALSE, order |-> <<>>, err |-> "nomain"]
   ELSE IF Mains(cfg, st.order) > 1 THEN [ok |-> FALSE, order |-> <<>>, err |-> "manymain"]
   ELSE [ok |-> TRUE, order |-> st.order, err |-> ""]

(* ---- laws of the design, checked on every configuration ---- *)
LoadedOnce(r)  == \A a, b \in 1..Len(r.order) : a # b => r.order[a] # r.order[b]
\* a named import that resolved puts its target before the importer
DepsFirst(cfg, r) == r.ok => \A k \in 1..Len(r.order) :
   LET i == r.order[k] IN \A m \in 1..Len(cfg.files[i].imports) :
      LET imp == cfg.files[i].imports[m] IN
      imp.sym # "*" => LET t == Resolve(cfg, imp.parts, imp.sym, <<cfg.files[i].root, cfg.files[i].dir>>) IN
                       t > 0 /\ \E j \in 1..(k-1) : r.order[j] = t
ExactlyOneMain(cfg, r) == r.ok => Mains(cfg, r.order) = 1
EntryLast(cfg, r) == r.ok => r.order[Len(r.order)] = cfg.entry
=============================================================================
