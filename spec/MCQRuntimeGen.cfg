SPECIFICATION GenSpec
CONSTANTS MaxQ = 5
          MaxLen = 14
INVARIANTS AllInv DumpDone
