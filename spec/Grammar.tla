------------------------------- MODULE Grammar -------------------------------
(***************************************************************************)
(* C14: the documented expression grammar (docs/grammar.md) as two         *)
(* functions between syntax trees and token sequences:                     *)
(*   Render(t)  - tokens of t with the MINIMAL parentheses the precedence  *)
(*                and associativity rules require (RenderR adds redundant  *)
(*                ones around every binary sub-term),                      *)
(*   Parse(ts)  - the grammar's own precedence-climbing reading.           *)
(* TLC checks Parse(Render(t)) = t for every enumerated tree (a defect of  *)
(* this module, not of the implementation, if it fails) and hands the      *)
(* token sequences to the harness, which lets the real parser read them    *)
(* and compares the tree it builds.                                        *)
(*                                                                         *)
(* levels, loosest first:  =  ||  &&  |  ^  &  == !=  < > <= >=  + -       *)
(*                         * / %   unary - ! ~   postfix () [] . ++ --     *)
(* all binary operators are left-associative, '=' is right-associative.    *)
(***************************************************************************)
EXTENDS Integers, Sequences, FiniteSets, TLC

BinOps == <<"||", "&&", "|", "^", "&", "==", "!=", "<", ">", "<=", ">=", "+", "-", "*", "/", "%">>
Level(op) == CASE op = "=" -> 0 [] op = "||" -> 1 [] op = "&&" -> 2 [] op = "|" -> 3 [] op = "^" -> 4 [] op = "&" -> 5
               [] op \in {"==", "!="} -> 6 [] op \in {"<", ">", "<=", ">="} -> 7 [] op \in {"+", "-"} -> 8
               [] op \in {"*", "/", "%"} -> 9
UnaryLevel == 10
PostLevel  == 11
UnOps == {"-", "!", "~"}

Id(n)         == [k |-> "id", n |-> n]
Lit(v)        == [k |-> "lit", v |-> v]
Bin(op, l, r) == [k |-> "bin", op |-> op, l |-> l, r |-> r]
Un(op, e)     == [k |-> "un", op |-> op, e |-> e]
Post(op, e)   == [k |-> "post", op |-> op, e |-> e]
Call(f, a)    == [k |-> "call", f |-> f, a |-> a]
Idx(a, i)     == [k |-> "idx", a |-> a, i |-> i]
Member(o, m)  == [k |-> "member", o |-> o, m |-> m]
Asg(n, e)     == [k |-> "asg", n |-> n, e |-> e]

LevelOf(t) == CASE t.k = "bin" -> Level(t.op) [] t.k = "asg" -> 0 [] t.k = "un" -> UnaryLevel
                [] t.k \in {"post", "call", "idx", "member"} -> PostLevel [] OTHER -> 12

(* ---- rendering ---- *)
RECURSIVE Rnd(_,_,_), RndArgs(_,_)
Wrap(ts) == <<"(">> \o ts \o <<")">>
\* tokens of t where a sub-term of level >= need can stand; redundant = also parenthesise every binary sub-term
Rnd(t, need, redundant) ==
   LET body ==
       CASE t.k = "id"  -> <<t.n>>
         [] t.k = "lit" -> <<t.v>>
         [] t.k = "bin" -> Rnd(t.l, Level(t.op), redundant) \o <<t.op>> \o Rnd(t.r, Level(t.op) + 1, redundant)
         [] t.k = "asg" -> <<t.n, "=">> \o Rnd(t.e, 0, redundant)
         [] t.k = "un"  -> <<t.op>> \o Rnd(t.e, UnaryLevel, redundant)
         [] t.k = "post" -> Rnd(t.e, PostLevel, redundant) \o <<t.op>>
         [] t.k = "call" -> Rnd(t.f, PostLevel, redundant) \o <<"(">> \o RndArgs(t.a, redundant) \o <<")">>
         [] t.k = "idx"  -> Rnd(t.a, PostLevel, redundant) \o <<"[">> \o Rnd(t.i, 0, redundant) \o <<"]">>
         [] t.k = "member" -> Rnd(t.o, PostLevel, redundant) \o <<".", t.m>>
   IN IF LevelOf(t) < need \/ (redundant /\ t.k = "bin") THEN Wrap(body) ELSE body
RndArgs(as, redundant) == IF as = <<>> THEN <<>>
                          ELSE IF Len(as) = 1 THEN Rnd(as[1], 0, redundant)
                          ELSE Rnd(as[1], 0, redundant) \o <<",">> \o RndArgs(Tail(as), redundant)
Render(t)  == Rnd(t, 0, FALSE)
RenderR(t) == Rnd(t, 0, TRUE)

(* ---- parsing: the grammar of docs/grammar.md read literally ---- *)
\* every parser returns [t |-> tree, r |-> remaining tokens]
IsName(tok) == tok \in {"a", "b", "c", "d", "e", "f", "g", "m", "n", "x", "y"}
IsNum(tok)  == tok \in {"1", "2", "3"}
RECURSIVE PExpr(_), PLevel(_,_), PLoop(_,_,_), PUnary(_), PPostfix(_), PPostLoop(_,_), PArgs(_)
PExpr(ts) ==        \* assignmentExpression = logicalOr [ "=" assignmentExpression ]
   LET l == PLevel(ts, 1) IN
   IF l.r # <<>> /\ l.r[1] = "=" /\ l.t.k = "id"
   THEN LET rhs == PExpr(Tail(l.r)) IN [t |-> Asg(l.t.n, rhs.t), r |-> rhs.r]
   ELSE l
OpsAt(lv) == {BinOps[i] : i \in {j \in 1..Len(BinOps) : Level(BinOps[j]) = lv}}
PLevel(ts, lv) == IF lv > 9 THEN PUnary(ts)
                  ELSE LET first == PLevel(ts, lv + 1) IN PLoop(first.t, first.r, lv)
PLoop(left, ts, lv) ==   \* { op next-level }  - left-associative
   IF ts # <<>> /\ ts[1] \in OpsAt(lv)
   THEN LET rhs == PLevel(Tail(ts), lv + 1) IN PLoop(Bin(ts[1], left, rhs.t), rhs.r, lv)
   ELSE [t |-> left, r |-> ts]
PUnary(ts) == IF ts # <<>> /\ ts[1] \in UnOps THEN LET e == PUnary(Tail(ts)) IN [t |-> Un(ts[1], e.t), r |-> e.r]
              ELSE PPostfix(ts)
PPostfix(ts) ==
   LET prim == IF ts[1] = "(" THEN LET e == PExpr(Tail(ts)) IN [t |-> e.t, r |-> Tail(e.r)]        \* skips ")"
               ELSE IF IsNum(ts[1]) THEN [t |-> Lit(ts[1]), r |-> Tail(ts)]
               ELSE [t |-> Id(ts[1]), r |-> Tail(ts)]
   IN PPostLoop(prim.t, prim.r)
PPostLoop(left, ts) ==
   IF ts = <<>> THEN [t |-> left, r |-> ts]
   ELSE IF ts[1] = "(" THEN LET a == PArgs(Tail(ts)) IN PPostLoop(Call(left, a.t), a.r)
   ELSE IF ts[1] = "[" THEN LET i == PExpr(Tail(ts)) IN PPostLoop(Idx(left, i.t), Tail(i.r))       \* skips "]"
   ELSE IF ts[1] = "." THEN PPostLoop(Member(left, ts[2]), SubSeq(ts, 3, Len(ts)))
   ELSE IF ts[1] \in {"++", "--"} THEN PPostLoop(Post(ts[1], left), Tail(ts))
   ELSE [t |-> left, r |-> ts]
PArgs(ts) ==         \* after "(" : returns [t |-> Seq(tree), r |-> tokens after ")"]
   IF ts[1] = ")" THEN [t |-> <<>>, r |-> Tail(ts)]
   ELSE LET e == PExpr(ts) IN
        IF e.r[1] = "," THEN LET rest == PArgs(Tail(e.r)) IN [t |-> <<e.t>> \o rest.t, r |-> rest.r]
        ELSE [t |-> <<e.t>>, r |-> Tail(e.r)]
Parse(ts) == PExpr(ts).t

RoundTrips(t) == Parse(Render(t)) = t /\ Parse(RenderR(t)) = t /\ PExpr(Render(t)).r = <<>>

(* ---- enumerated families of trees ---- *)
Ops == {BinOps[i] : i \in 1..Len(BinOps)}
A == Id("a")  B == Id("b")  C == Id("c")  D == Id("d")
\* all adjacent operator pairs in both nestings (every ordered pair of the 16 operators per side)
Pairs == {Bin(o1, Bin(o2, A, B), C) : o1 \in Ops, o2 \in Ops} \cup {Bin(o1, A, Bin(o2, B, C)) : o1 \in Ops, o2 \in Ops}
\* three operators: left-deep, right-deep, balanced and the two zig-zags over a reduced alphabet (one operator per level + one extra)
Ops3 == {"||", "&&", "|", "^", "&", "==", "<", "+", "-", "*", "%"}
Triples == {Bin(o1, Bin(o2, Bin(o3, A, B), C), D) : o1 \in Ops3, o2 \in Ops3, o3 \in Ops3}
      \cup {Bin(o1, A, Bin(o2, B, Bin(o3, C, D))) : o1 \in Ops3, o2 \in Ops3, o3 \in Ops3}
      \cup {Bin(o1, Bin(o2, A, B), Bin(o3, C, D)) : o1 \in Ops3, o2 \in Ops3, o3 \in Ops3}
      \cup {Bin(o1, Bin(o2, A, Bin(o3, B, C)), D) : o1 \in Ops3, o2 \in Ops3, o3 \in Ops3}
      \cup {Bin(o1, A, Bin(o2, Bin(o3, B, C), D)) : o1 \in Ops3, o2 \in Ops3, o3 \in Ops3}
\* unary / postfix / call / index / member interplay with binary operators
OpsU == {"+", "-", "*", "<", "&&", "&"}
Atom == {A, Lit("1"), Call(Id("f"), <<>>), Idx(A, B), Member(A, "m"), Call(Member(A, "m"), <<B>>), Idx(Call(Id("f"), <<A>>), Lit("2")),
         Member(Idx(A, Lit("1")), "n"), Post("++", A), Post("--", Member(A, "m"))}
Unaries == {Un(u, t) : u \in UnOps, t \in Atom} \cup {Un(u1, Un(u2, A)) : u1 \in UnOps, u2 \in UnOps}
           \cup {Un(u, Bin(o, A, B)) : u \in UnOps, o \in OpsU}
Mixed == {Bin(o, l, r) : o \in OpsU, l \in Unaries \cup Atom, r \in {B, Un("-", B), Un("!", C), Call(Id("g"), <<Bin("+", A, B), C>>)}}
         \cup {Bin(o, A, Un(u, Bin(o2, B, C))) : o \in OpsU, u \in UnOps, o2 \in OpsU}
         \cup {Call(Id("f"), <<Bin(o, A, B), Un(u, C)>>) : o \in OpsU, u \in UnOps}
         \cup {Idx(Bin(o, A, B), Bin(o2, C, D)) : o \in OpsU, o2 \in OpsU}
         \cup {Member(Bin(o, A, B), "m") : o \in OpsU} \cup {Call(Bin(o, A, B), <<C>>) : o \in OpsU}
         \cup {Post("++", Bin(o, A, B)) : o \in OpsU} \cup {Un(u, Post("++", A)) : u \in UnOps}
         \* index expressions that START with a unary operator (the grammar allows any expression between the brackets)
         \cup {Idx(A, Un(u, t)) : u \in UnOps, t \in {B, Call(Id("f"), <<C>>), Idx(B, C), Member(B, "m"), Bin("-", B, C), Un("-", B)}}
         \cup {Idx(A, Bin(o, Un("-", B), C)) : o \in OpsU}
         \cup {Bin(o, Idx(A, Un("-", B)), Idx(C, Un("~", D))) : o \in OpsU}
\* assignment: right-associative, loosest
Assigns == {Asg("x", Bin(o, A, B)) : o \in Ops} \cup {Asg("x", Asg("y", Bin(o, A, B))) : o \in OpsU}
           \cup {Bin(o, A, Asg("x", B)) : o \in OpsU} \cup {Un(u, Asg("x", A)) : u \in UnOps}
=============================================================================
