---- MODULE MCQSimWide_TTrace_1790488429 ----
EXTENDS Sequences, TLCExt, MCQSimWide, Toolbox, Naturals, TLC

_expression ==
    LET MCQSimWide_TEExpression == INSTANCE MCQSimWide_TEExpression
    IN MCQSimWide_TEExpression!expression
----

_trace ==
    LET MCQSimWide_TETrace == INSTANCE MCQSimWide_TETrace
    IN MCQSimWide_TETrace!trace
----

_inv ==
    ~(
        TLCGet("level") = Len(_TETrace)
        /\
        st = ([vec |-> (0 :> <<1, 0, 0, 0, 0>> @@ 1 :> <<0, 0, 0, 0, 0>> @@ 2 :> <<0, 0, 0, 0, 0>> @@ 3 :> <<0, 0, 0, 0, 0>> @@ 4 :> <<0, 0, 0, 0, 0>> @@ 5 :> <<0, 0, 0, 0, 0>> @@ 6 :> <<0, 0, 0, 0, 0>> @@ 7 :> <<0, 0, 0, 0, 0>> @@ 8 :> <<0, 0, 0, 0, 0>> @@ 9 :> <<0, 0, 0, 0, 0>> @@ 10 :> <<0, 0, 0, 0, 0>> @@ 11 :> <<0, 0, 0, 0, 0>> @@ 12 :> <<0, 0, 0, 0, 0>> @@ 13 :> <<0, 0, 0, 0, 0>> @@ 14 :> <<0, 0, 0, 0, 0>> @@ 15 :> <<0, 0, 0, 0, 0>>), n |-> 4, meas |-> (0 :> FALSE @@ 1 :> FALSE @@ 2 :> FALSE @@ 3 :> FALSE)])
        /\
        prep = (<<0, 0>>)
    )
----

_init ==
    /\ prep = _TETrace[1].prep
    /\ st = _TETrace[1].st
----

_next ==
    /\ \E i,j \in DOMAIN _TETrace:
        /\ \/ /\ j = i + 1
              /\ i = TLCGet("level")
        /\ prep  = _TETrace[i].prep
        /\ prep' = _TETrace[j].prep
        /\ st  = _TETrace[i].st
        /\ st' = _TETrace[j].st

\* Uncomment the ASSUME below to write the states of the error trace
\* to the given file in Json format. Note that you can pass any tuple
\* to `JsonSerialize`. For example, a sub-sequence of _TETrace.
    \* ASSUME
    \*     LET J == INSTANCE Json
    \*         IN J!JsonSerialize("MCQSimWide_TTrace_1790488429.json", _TETrace)

=============================================================================

 Note that you can extract this module `MCQSimWide_TEExpression`
  to a dedicated file to reuse `expression` (the module in the 
  dedicated `MCQSimWide_TEExpression.tla` file takes precedence 
  over the module `MCQSimWide_TEExpression` below).

---- MODULE MCQSimWide_TEExpression ----
EXTENDS Sequences, TLCExt, MCQSimWide, Toolbox, Naturals, TLC

expression == 
    [
        \* To hide variables of the `MCQSimWide` spec from the error trace,
        \* remove the variables below.  The trace will be written in the order
        \* of the fields of this record.
        prep |-> prep
        ,st |-> st
        
        \* Put additional constant-, state-, and action-level expressions here:
        \* ,_stateNumber |-> _TEPosition
        \* ,_prepUnchanged |-> prep = prep'
        
        \* Format the `prep` variable as Json value.
        \* ,_prepJson |->
        \*     LET J == INSTANCE Json
        \*     IN J!ToJson(prep)
        
        \* Lastly, you may build expressions over arbitrary sets of states by
        \* leveraging the _TETrace operator.  For example, this is how to
        \* count the number of times a spec variable changed up to the current
        \* state in the trace.
        \* ,_prepModCount |->
        \*     LET F[s \in DOMAIN _TETrace] ==
        \*         IF s = 1 THEN 0
        \*         ELSE IF _TETrace[s].prep # _TETrace[s-1].prep
        \*             THEN 1 + F[s-1] ELSE F[s-1]
        \*     IN F[_TEPosition - 1]
    ]

=============================================================================



Parsing and semantic processing can take forever if the trace below is long.
 In this case, it is advised to uncomment the module below to deserialize the
 trace from a generated binary file.

\*
\*---- MODULE MCQSimWide_TETrace ----
\*EXTENDS IOUtils, MCQSimWide, TLC
\*
\*trace == IODeserialize("MCQSimWide_TTrace_1790488429.bin", TRUE)
\*
\*=============================================================================
\*

---- MODULE MCQSimWide_TETrace ----
EXTENDS MCQSimWide, TLC

trace == 
    <<
    ([st |-> [vec |-> (0 :> <<1, 0, 0, 0, 0>>), n |-> 0, meas |-> <<>>],prep |-> <<0, 0>>]),
    ([st |-> [vec |-> (0 :> <<1, 0, 0, 0, 0>> @@ 1 :> <<0, 0, 0, 0, 0>>), n |-> 1, meas |-> (0 :> FALSE)],prep |-> <<0, 0>>]),
    ([st |-> [vec |-> (0 :> <<1, 0, 0, 0, 0>> @@ 1 :> <<0, 0, 0, 0, 0>> @@ 2 :> <<0, 0, 0, 0, 0>> @@ 3 :> <<0, 0, 0, 0, 0>>), n |-> 2, meas |-> (0 :> FALSE @@ 1 :> FALSE)],prep |-> <<0, 0>>]),
    ([st |-> [vec |-> (0 :> <<1, 0, 0, 0, 0>> @@ 1 :> <<0, 0, 0, 0, 0>> @@ 2 :> <<0, 0, 0, 0, 0>> @@ 3 :> <<0, 0, 0, 0, 0>> @@ 4 :> <<0, 0, 0, 0, 0>> @@ 5 :> <<0, 0, 0, 0, 0>> @@ 6 :> <<0, 0, 0, 0, 0>> @@ 7 :> <<0, 0, 0, 0, 0>>), n |-> 3, meas |-> (0 :> FALSE @@ 1 :> FALSE @@ 2 :> FALSE)],prep |-> <<0, 0>>]),
    ([st |-> [vec |-> (0 :> <<1, 0, 0, 0, 0>> @@ 1 :> <<0, 0, 0, 0, 0>> @@ 2 :> <<0, 0, 0, 0, 0>> @@ 3 :> <<0, 0, 0, 0, 0>> @@ 4 :> <<0, 0, 0, 0, 0>> @@ 5 :> <<0, 0, 0, 0, 0>> @@ 6 :> <<0, 0, 0, 0, 0>> @@ 7 :> <<0, 0, 0, 0, 0>> @@ 8 :> <<0, 0, 0, 0, 0>> @@ 9 :> <<0, 0, 0, 0, 0>> @@ 10 :> <<0, 0, 0, 0, 0>> @@ 11 :> <<0, 0, 0, 0, 0>> @@ 12 :> <<0, 0, 0, 0, 0>> @@ 13 :> <<0, 0, 0, 0, 0>> @@ 14 :> <<0, 0, 0, 0, 0>> @@ 15 :> <<0, 0, 0, 0, 0>>), n |-> 4, meas |-> (0 :> FALSE @@ 1 :> FALSE @@ 2 :> FALSE @@ 3 :> FALSE)],prep |-> <<0, 0>>])
    >>
----


=============================================================================

---- CONFIG MCQSimWide_TTrace_1790488429 ----
CONSTANTS
    N = 5

INVARIANT
    _inv

CHECK_DEADLOCK
    \* CHECK_DEADLOCK off because of PROPERTY or INVARIANT above.
    FALSE

INIT
    _init

NEXT
    _next

CONSTANT
    _TETrace <- _trace

ALIAS
    _expression
=============================================================================
\* Generated on Sun Sep 27 05:53:50 UTC 2026