SPECIFICATION TSpec
CONSTANTS MaxB = 100000
 HasClasses = TRUE
INVARIANTS NotAccepted OnlyInterpreterCollects StoppedAtEnd
CHECK_DEADLOCK FALSE
