------------------------------- MODULE MCShots -------------------------------
(* Cases (flag / annotation / echo mode x per-shot tracked records produced by template programs) are read from
   SHOTS_CASES; TLC checks the laws on every case and serialises the expected CLI observables.                  *)
EXTENDS Shots, Json, IOUtils
Cases == ndJsonDeserialize(IOEnv.SHOTS_CASES)
VARIABLE cid
Init == cid \in 1..Len(Cases)
Spec == Init /\ [][UNCHANGED cid]_cid
C == Cases[cid]
Laws == CountsSum(C) /\ ProbIsDistribution(C) /\ AnnotationWins(C) /\ Len(C.recs) = NShots(C)
SetToSeq(S) == LET RECURSIVE F(_) F(T) == IF T = {} THEN <<>> ELSE LET x == CHOOSE x \in T : TRUE IN <<x>> \o F(T \ {x}) IN F(S)
Rows == SetToSeq({[key |-> k, outcome |-> o, count |-> Count(C, k, o), prob |-> ProbMilli(C, k, o)] : k \in Keys(C), o \in UNION {Outcomes(C, kk) : kk \in Keys(C)}}
                 \cap {[key |-> k, outcome |-> o, count |-> Count(C, k, o), prob |-> ProbMilli(C, k, o)] : k \in Keys(C), o \in UNION {Outcomes(C, kk) : kk \in Keys(C)}})
Expected == [id |-> C.id, shots |-> NShots(C), provided |-> Provided(C), echo_lines |-> EchoLines(C),
             rows |-> SelectSeq(Rows, LAMBDA r : r.count > 0)]
Dump == LET j == ToJson(Expected) IN Len(j) > 0 /\
        Serialize(j \o "\n", IOEnv.SHOTS_OUT, [format |-> "TXT", charset |-> "UTF-8", openOptions |-> <<"WRITE","CREATE","APPEND">>]).exitValue = 0
=============================================================================
