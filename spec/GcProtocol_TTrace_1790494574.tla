---- MODULE GcProtocol_TTrace_1790494574 ----
EXTENDS Sequences, TLCExt, Toolbox, Naturals, TLC, GcProtocol

_expression ==
    LET GcProtocol_TEExpression == INSTANCE GcProtocol_TEExpression
    IN GcProtocol_TEExpression!expression
----

_trace ==
    LET GcProtocol_TETrace == INSTANCE GcProtocol_TETrace
    IN GcProtocol_TETrace!trace
----

_inv ==
    ~(
        TLCGet("level") = Len(_TETrace)
        /\
        timer = ("running")
        /\
        hist = (<<FALSE, FALSE, FALSE>>)
        /\
        tpc = ("wait")
        /\
        stopGc = (FALSE)
        /\
        gcRequested = (FALSE)
        /\
        ipc = ("run")
        /\
        collectedBy = ({})
    )
----

_init ==
    /\ stopGc = _TETrace[1].stopGc
    /\ tpc = _TETrace[1].tpc
    /\ hist = _TETrace[1].hist
    /\ gcRequested = _TETrace[1].gcRequested
    /\ collectedBy = _TETrace[1].collectedBy
    /\ ipc = _TETrace[1].ipc
    /\ timer = _TETrace[1].timer
----

_next ==
    /\ \E i,j \in DOMAIN _TETrace:
        /\ \/ /\ j = i + 1
              /\ i = TLCGet("level")
        /\ stopGc  = _TETrace[i].stopGc
        /\ stopGc' = _TETrace[j].stopGc
        /\ tpc  = _TETrace[i].tpc
        /\ tpc' = _TETrace[j].tpc
        /\ hist  = _TETrace[i].hist
        /\ hist' = _TETrace[j].hist
        /\ gcRequested  = _TETrace[i].gcRequested
        /\ gcRequested' = _TETrace[j].gcRequested
        /\ collectedBy  = _TETrace[i].collectedBy
        /\ collectedBy' = _TETrace[j].collectedBy
        /\ ipc  = _TETrace[i].ipc
        /\ ipc' = _TETrace[j].ipc
        /\ timer  = _TETrace[i].timer
        /\ timer' = _TETrace[j].timer

\* Uncomment the ASSUME below to write the states of the error trace
\* to the given file in Json format. Note that you can pass any tuple
\* to `JsonSerialize`. For example, a sub-sequence of _TETrace.
    \* ASSUME
    \*     LET J == INSTANCE Json
    \*         IN J!JsonSerialize("GcProtocol_TTrace_1790494574.json", _TETrace)

=============================================================================

 Note that you can extract this module `GcProtocol_TEExpression`
  to a dedicated file to reuse `expression` (the module in the 
  dedicated `GcProtocol_TEExpression.tla` file takes precedence 
  over the module `GcProtocol_TEExpression` below).

---- MODULE GcProtocol_TEExpression ----
EXTENDS Sequences, TLCExt, Toolbox, Naturals, TLC, GcProtocol

expression == 
    [
        \* To hide variables of the `GcProtocol` spec from the error trace,
        \* remove the variables below.  The trace will be written in the order
        \* of the fields of this record.
        stopGc |-> stopGc
        ,tpc |-> tpc
        ,hist |-> hist
        ,gcRequested |-> gcRequested
        ,collectedBy |-> collectedBy
        ,ipc |-> ipc
        ,timer |-> timer
        
        \* Put additional constant-, state-, and action-level expressions here:
        \* ,_stateNumber |-> _TEPosition
        \* ,_stopGcUnchanged |-> stopGc = stopGc'
        
        \* Format the `stopGc` variable as Json value.
        \* ,_stopGcJson |->
        \*     LET J == INSTANCE Json
        \*     IN J!ToJson(stopGc)
        
        \* Lastly, you may build expressions over arbitrary sets of states by
        \* leveraging the _TETrace operator.  For example, this is how to
        \* count the number of times a spec variable changed up to the current
        \* state in the trace.
        \* ,_stopGcModCount |->
        \*     LET F[s \in DOMAIN _TETrace] ==
        \*         IF s = 1 THEN 0
        \*         ELSE IF _TETrace[s].stopGc # _TETrace[s-1].stopGc
        \*             THEN 1 + F[s-1] ELSE F[s-1]
        \*     IN F[_TEPosition - 1]
    ]

=============================================================================



Parsing and semantic processing can take forever if the trace below is long.
 In this case, it is advised to uncomment the module below to deserialize the
 trace from a generated binary file.

\*
\*---- MODULE GcProtocol_TETrace ----
\*EXTENDS IOUtils, TLC, GcProtocol
\*
\*trace == IODeserialize("GcProtocol_TTrace_1790494574.bin", TRUE)
\*
\*=============================================================================
\*

---- MODULE GcProtocol_TETrace ----
EXTENDS TLC, GcProtocol

trace == 
    <<
    ([timer |-> "none",hist |-> <<>>,tpc |-> "idle",stopGc |-> FALSE,gcRequested |-> FALSE,ipc |-> "init",collectedBy |-> {}]),
    ([timer |-> "running",hist |-> <<>>,tpc |-> "wait",stopGc |-> FALSE,gcRequested |-> FALSE,ipc |-> "run",collectedBy |-> {}]),
    ([timer |-> "running",hist |-> <<FALSE>>,tpc |-> "wait",stopGc |-> FALSE,gcRequested |-> FALSE,ipc |-> "run",collectedBy |-> {}]),
    ([timer |-> "running",hist |-> <<FALSE, FALSE>>,tpc |-> "wait",stopGc |-> FALSE,gcRequested |-> FALSE,ipc |-> "run",collectedBy |-> {}]),
    ([timer |-> "running",hist |-> <<FALSE, FALSE, FALSE>>,tpc |-> "wait",stopGc |-> FALSE,gcRequested |-> FALSE,ipc |-> "run",collectedBy |-> {}])
    >>
----


=============================================================================

---- CONFIG GcProtocol_TTrace_1790494574 ----
CONSTANTS
    MaxB = 3
    HasClasses = TRUE

INVARIANT
    _inv

CHECK_DEADLOCK
    \* CHECK_DEADLOCK off because of PROPERTY or INVARIANT above.
    FALSE

INIT
    _init

NEXT
    _next

CONSTANT
    _TETrace <- _trace

ALIAS
    _expression
=============================================================================
\* Generated on Sun Sep 27 07:36:14 UTC 2026