// Minimal JSON reader/writer for the conformance harnesses (objects, arrays, ints, doubles,
// strings, booleans, null). Not a general-purpose library: inputs are produced by TLC/Python.
#pragma once
#include <cstdint>
#include <cstdlib>
#include <map>
#include <memory>
#include <sstream>
#include <stdexcept>
#include <string>
#include <vector>

namespace mj {
    struct Val;
    using P = std::shared_ptr<Val>;
    struct Val {
        enum K { Null, Bool, Num, Str, Arr, Obj } k = Null;
        bool b = false;
        double d = 0;
        long long i = 0;
        bool isInt = false;
        std::string s;
        std::vector<P> a;
        std::vector<std::pair<std::string, P>> o;
        const Val* get(const std::string& key) const {
            for (auto& kv : o)
                if (kv.first == key)
                    return kv.second.get();
            return nullptr;
        }
        const Val& at(const std::string& key) const {
            auto* v = get(key);
            if (!v)
                throw std::runtime_error("json: missing key " + key);
            return *v;
        }
        bool has(const std::string& key) const { return get(key) != nullptr; }
        long long num() const { return isInt ? i : (long long)d; }
        double dbl() const { return isInt ? (double)i : d; }
        size_t size() const { return k == Arr ? a.size() : o.size(); }
        const Val& operator[](size_t idx) const { return *a.at(idx); }
    };
    struct Parser {
        const char* p;
        const char* e;
        explicit Parser(const std::string& s) : p(s.data()), e(s.data() + s.size()) {}
        void ws() {
            while (p < e && (*p == ' ' || *p == '\n' || *p == '\t' || *p == '\r')) ++p;
        }
        P parse() {
            ws();
            if (p >= e)
                throw std::runtime_error("json: eof");
            auto v = std::make_shared<Val>();
            char c = *p;
            if (c == '{') {
                v->k = Val::Obj;
                ++p;
                ws();
                if (*p == '}') {
                    ++p;
                    return v;
                }
                for (;;) {
                    ws();
                    std::string key = str();
                    ws();
                    if (*p != ':')
                        throw std::runtime_error("json: ':'");
                    ++p;
                    v->o.emplace_back(key, parse());
                    ws();
                    if (*p == ',') {
                        ++p;
                        continue;
                    }
                    if (*p == '}') {
                        ++p;
                        break;
                    }
                    throw std::runtime_error("json: obj");
                }
            } else if (c == '[') {
                v->k = Val::Arr;
                ++p;
                ws();
                if (*p == ']') {
                    ++p;
                    return v;
                }
                for (;;) {
                    v->a.push_back(parse());
                    ws();
                    if (*p == ',') {
                        ++p;
                        continue;
                    }
                    if (*p == ']') {
                        ++p;
                        break;
                    }
                    throw std::runtime_error("json: arr");
                }
            } else if (c == '"') {
                v->k = Val::Str;
                v->s = str();
            } else if (c == 't') {
                v->k = Val::Bool;
                v->b = true;
                p += 4;
            } else if (c == 'f') {
                v->k = Val::Bool;
                v->b = false;
                p += 5;
            } else if (c == 'n') {
                p += 4;
            } else {
                v->k = Val::Num;
                const char* st = p;
                bool isInt = true;
                if (*p == '-')
                    ++p;
                while (p < e && ((*p >= '0' && *p <= '9') || *p == '.' || *p == 'e' || *p == 'E' ||
                                 *p == '+' || *p == '-')) {
                    if (*p == '.' || *p == 'e' || *p == 'E')
                        isInt = false;
                    ++p;
                }
                std::string t(st, p);
                v->isInt = isInt;
                if (isInt)
                    v->i = std::strtoll(t.c_str(), nullptr, 10);
                else
                    v->d = std::strtod(t.c_str(), nullptr);
            }
            return v;
        }
        std::string str() {
            if (*p != '"')
                throw std::runtime_error("json: string expected");
            ++p;
            std::string out;
            while (p < e && *p != '"') {
                if (*p == '\\') {
                    ++p;
                    switch (*p) {
                        case 'n': out.push_back('\n'); break;
                        case 't': out.push_back('\t'); break;
                        case 'r': out.push_back('\r'); break;
                        case 'b': out.push_back('\b'); break;
                        case 'f': out.push_back('\f'); break;
                        case 'u': {
                            unsigned cp = std::strtoul(std::string(p + 1, p + 5).c_str(), nullptr, 16);
                            p += 4;
                            if (cp < 0x80)
                                out.push_back((char)cp);
                            else if (cp < 0x800) {
                                out.push_back((char)(0xC0 | (cp >> 6)));
                                out.push_back((char)(0x80 | (cp & 0x3F)));
                            } else {
                                out.push_back((char)(0xE0 | (cp >> 12)));
                                out.push_back((char)(0x80 | ((cp >> 6) & 0x3F)));
                                out.push_back((char)(0x80 | (cp & 0x3F)));
                            }
                            break;
                        }
                        default: out.push_back(*p);
                    }
                    ++p;
                } else
                    out.push_back(*p++);
            }
            ++p;
            return out;
        }
    };
    inline P parse(const std::string& s) {
        Parser ps(s);
        return ps.parse();
    }
    inline std::string esc(const std::string& s) {
        std::string o = "\"";
        for (unsigned char c : s) {
            switch (c) {
                case '"': o += "\\\""; break;
                case '\\': o += "\\\\"; break;
                case '\n': o += "\\n"; break;
                case '\t': o += "\\t"; break;
                case '\r': o += "\\r"; break;
                default:
                    if (c < 0x20) {
                        char buf[8];
                        snprintf(buf, sizeof buf, "\\u%04x", c);
                        o += buf;
                    } else
                        o.push_back((char)c);
            }
        }
        o += "\"";
        return o;
    }
}  // namespace mj
