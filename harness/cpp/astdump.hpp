// Implementation AST -> the shared JSON syntax (structure only, positions ignored). Used by the grammar
// round-trip check (C14): what the parser built is compared with the tree the specification rendered.
#pragma once
#include <string>

#include "bloch/compiler/ast/ast.hpp"
#include "mini_json.hpp"

namespace astdump {
    using namespace bloch::compiler;

    inline std::string type(Type* t) {
        if (!t)
            return "{\"t\":\"none\"}";
        if (auto p = dynamic_cast<PrimitiveType*>(t))
            return "{\"t\":\"prim\",\"n\":" + mj::esc(p->name) + "}";
        if (dynamic_cast<VoidType*>(t))
            return "{\"t\":\"prim\",\"n\":\"void\"}";
        if (auto a = dynamic_cast<ArrayType*>(t))
            return "{\"t\":\"arr\",\"e\":" + type(a->elementType.get()) + ",\"size\":" + std::to_string(a->size) +
                   ",\"sizeexpr\":" + (a->sizeExpression ? "true" : "false") + "}";
        if (auto n = dynamic_cast<NamedType*>(t)) {
            std::string s = "{\"t\":\"named\",\"n\":" + mj::esc(n->nameParts.empty() ? "" : n->nameParts.back()) + ",\"args\":[";
            for (size_t i = 0; i < n->typeArguments.size(); ++i) s += (i ? "," : "") + type(n->typeArguments[i].get());
            return s + "]}";
        }
        return "{\"t\":\"?\"}";
    }

    inline std::string expr(Expression* e);
    inline std::string exprs(const std::vector<std::unique_ptr<Expression>>& v) {
        std::string s = "[";
        for (size_t i = 0; i < v.size(); ++i) s += (i ? "," : "") + expr(v[i].get());
        return s + "]";
    }
    inline std::string expr(Expression* e) {
        if (!e)
            return "{\"k\":\"none\"}";
        if (auto x = dynamic_cast<BinaryExpression*>(e))
            return "{\"k\":\"bin\",\"op\":" + mj::esc(x->op) + ",\"l\":" + expr(x->left.get()) + ",\"r\":" + expr(x->right.get()) + "}";
        if (auto x = dynamic_cast<UnaryExpression*>(e))
            return "{\"k\":\"un\",\"op\":" + mj::esc(x->op) + ",\"e\":" + expr(x->right.get()) + "}";
        if (auto x = dynamic_cast<PostfixExpression*>(e))
            return "{\"k\":\"post\",\"op\":" + mj::esc(x->op) + ",\"e\":" + expr(x->left.get()) + "}";
        if (auto x = dynamic_cast<CastExpression*>(e))
            return "{\"k\":\"cast\",\"t\":" + type(x->targetType.get()) + ",\"e\":" + expr(x->expression.get()) + "}";
        if (auto x = dynamic_cast<LiteralExpression*>(e))
            return "{\"k\":\"lit\",\"t\":" + mj::esc(x->literalType) + ",\"v\":" + mj::esc(x->value) + "}";
        if (dynamic_cast<NullLiteralExpression*>(e))
            return "{\"k\":\"null\"}";
        if (auto x = dynamic_cast<VariableExpression*>(e))
            return "{\"k\":\"id\",\"n\":" + mj::esc(x->name) + "}";
        if (auto x = dynamic_cast<CallExpression*>(e))
            return "{\"k\":\"call\",\"f\":" + expr(x->callee.get()) + ",\"a\":" + exprs(x->arguments) + "}";
        if (auto x = dynamic_cast<MemberAccessExpression*>(e))
            return "{\"k\":\"member\",\"o\":" + expr(x->object.get()) + ",\"m\":" + mj::esc(x->member) + "}";
        if (auto x = dynamic_cast<NewExpression*>(e))
            return "{\"k\":\"new\",\"t\":" + type(x->classType.get()) + ",\"a\":" + exprs(x->arguments) + "}";
        if (dynamic_cast<ThisExpression*>(e))
            return "{\"k\":\"this\"}";
        if (dynamic_cast<SuperExpression*>(e))
            return "{\"k\":\"super\"}";
        if (auto x = dynamic_cast<IndexExpression*>(e))
            return "{\"k\":\"idx\",\"a\":" + expr(x->collection.get()) + ",\"i\":" + expr(x->index.get()) + "}";
        if (auto x = dynamic_cast<ArrayLiteralExpression*>(e))
            return "{\"k\":\"arr\",\"es\":" + exprs(x->elements) + "}";
        if (auto x = dynamic_cast<ParenthesizedExpression*>(e))
            return "{\"k\":\"paren\",\"e\":" + expr(x->expression.get()) + "}";
        if (auto x = dynamic_cast<MeasureExpression*>(e))
            return "{\"k\":\"measure\",\"e\":" + expr(x->qubit.get()) + "}";
        if (auto x = dynamic_cast<AssignmentExpression*>(e))
            return "{\"k\":\"asg\",\"n\":" + mj::esc(x->name) + ",\"e\":" + expr(x->value.get()) + "}";
        if (auto x = dynamic_cast<MemberAssignmentExpression*>(e))
            return "{\"k\":\"masg\",\"o\":" + expr(x->object.get()) + ",\"m\":" + mj::esc(x->member) + ",\"e\":" + expr(x->value.get()) + "}";
        if (auto x = dynamic_cast<ArrayAssignmentExpression*>(e))
            return "{\"k\":\"aasg\",\"a\":" + expr(x->collection.get()) + ",\"i\":" + expr(x->index.get()) + ",\"e\":" + expr(x->value.get()) + "}";
        return "{\"k\":\"?\"}";
    }

    inline std::string stmt(Statement* s);
    inline std::string anns(const std::vector<std::unique_ptr<AnnotationNode>>& a) {
        std::string s = "[";
        for (size_t i = 0; i < a.size(); ++i) s += (i ? "," : "") + mj::esc(a[i] ? a[i]->name : "");
        return s + "]";
    }
    inline std::string block(BlockStatement* b) {
        std::string s = "[";
        if (b)
            for (size_t i = 0; i < b->statements.size(); ++i) s += (i ? "," : "") + stmt(b->statements[i].get());
        return s + "]";
    }
    inline std::string stmt(Statement* s) {
        if (!s)
            return "{\"k\":\"none\"}";
        if (auto x = dynamic_cast<VariableDeclaration*>(s))
            return "{\"k\":\"decl\",\"n\":" + mj::esc(x->name) + ",\"t\":" + type(x->varType.get()) + ",\"init\":" + expr(x->initializer.get()) +
                   ",\"final\":" + (x->isFinal ? "true" : "false") + ",\"tracked\":" + (x->isTracked ? "true" : "false") + ",\"ann\":" + anns(x->annotations) + "}";
        if (auto x = dynamic_cast<BlockStatement*>(s))
            return "{\"k\":\"block\",\"b\":" + block(x) + "}";
        if (auto x = dynamic_cast<ExpressionStatement*>(s))
            return "{\"k\":\"expr\",\"e\":" + expr(x->expression.get()) + "}";
        if (auto x = dynamic_cast<ReturnStatement*>(s))
            return "{\"k\":\"ret\",\"e\":" + expr(x->value.get()) + "}";
        if (auto x = dynamic_cast<IfStatement*>(s))
            return "{\"k\":\"if\",\"c\":" + expr(x->condition.get()) + ",\"t\":" + stmt(x->thenBranch.get()) + ",\"e\":" + stmt(x->elseBranch.get()) + "}";
        if (auto x = dynamic_cast<ForStatement*>(s))
            return "{\"k\":\"for\",\"init\":" + stmt(x->initializer.get()) + ",\"c\":" + expr(x->condition.get()) + ",\"upd\":" + expr(x->increment.get()) +
                   ",\"b\":" + stmt(x->body.get()) + "}";
        if (auto x = dynamic_cast<WhileStatement*>(s))
            return "{\"k\":\"while\",\"c\":" + expr(x->condition.get()) + ",\"b\":" + stmt(x->body.get()) + "}";
        if (auto x = dynamic_cast<EchoStatement*>(s))
            return "{\"k\":\"echo\",\"e\":" + expr(x->value.get()) + "}";
        if (auto x = dynamic_cast<ResetStatement*>(s))
            return "{\"k\":\"reset\",\"e\":" + expr(x->target.get()) + "}";
        if (auto x = dynamic_cast<MeasureStatement*>(s))
            return "{\"k\":\"measure\",\"e\":" + expr(x->qubit.get()) + "}";
        if (auto x = dynamic_cast<DestroyStatement*>(s))
            return "{\"k\":\"destroy\",\"e\":" + expr(x->target.get()) + "}";
        if (auto x = dynamic_cast<TernaryStatement*>(s))
            return "{\"k\":\"tern\",\"c\":" + expr(x->condition.get()) + ",\"t\":" + stmt(x->thenBranch.get()) + ",\"e\":" + stmt(x->elseBranch.get()) + "}";
        if (auto x = dynamic_cast<AssignmentStatement*>(s))
            return "{\"k\":\"assign\",\"n\":" + mj::esc(x->name) + ",\"e\":" + expr(x->value.get()) + "}";
        return "{\"k\":\"?\"}";
    }
    inline std::string params(const std::vector<std::unique_ptr<Parameter>>& ps) {
        std::string s = "[";
        for (size_t i = 0; i < ps.size(); ++i) s += (i ? "," : "") + std::string("{\"n\":") + mj::esc(ps[i]->name) + ",\"t\":" + type(ps[i]->type.get()) + "}";
        return s + "]";
    }
    inline std::string program(Program& p) {
        std::string s = "{\"funcs\":[";
        for (size_t i = 0; i < p.functions.size(); ++i) {
            auto& f = p.functions[i];
            s += (i ? "," : "") + std::string("{\"name\":") + mj::esc(f->name) + ",\"params\":" + params(f->params) + ",\"ret\":" + type(f->returnType.get()) +
                 ",\"ann\":" + anns(f->annotations) + ",\"quantum\":" + (f->hasQuantumAnnotation ? "true" : "false") + ",\"body\":" + block(f->body.get()) + "}";
        }
        s += "],\"classes\":[";
        for (size_t i = 0; i < p.classes.size(); ++i) {
            auto& c = p.classes[i];
            s += (i ? "," : "") + std::string("{\"name\":") + mj::esc(c->name) + ",\"static\":" + (c->isStatic ? "true" : "false") + ",\"abstract\":" +
                 (c->isAbstract ? "true" : "false") + ",\"base\":" + mj::esc(c->baseName.empty() ? "" : c->baseName.back()) + ",\"members\":[";
            for (size_t j = 0; j < c->members.size(); ++j) {
                ClassMember* m = c->members[j].get();
                std::string vis = m->visibility == Visibility::Public ? "public" : m->visibility == Visibility::Private ? "private" : "protected";
                s += (j ? "," : "");
                if (auto x = dynamic_cast<FieldDeclaration*>(m))
                    s += "{\"k\":\"field\",\"vis\":" + mj::esc(vis) + ",\"n\":" + mj::esc(x->name) + ",\"t\":" + type(x->fieldType.get()) + ",\"init\":" +
                         expr(x->initializer.get()) + ",\"final\":" + (x->isFinal ? "true" : "false") + ",\"static\":" + (x->isStatic ? "true" : "false") +
                         ",\"tracked\":" + (x->isTracked ? "true" : "false") + "}";
                else if (auto x = dynamic_cast<MethodDeclaration*>(m))
                    s += "{\"k\":\"method\",\"vis\":" + mj::esc(vis) + ",\"n\":" + mj::esc(x->name) + ",\"params\":" + params(x->params) + ",\"ret\":" +
                         type(x->returnType.get()) + ",\"static\":" + (x->isStatic ? "true" : "false") + ",\"virtual\":" + (x->isVirtual ? "true" : "false") +
                         ",\"override\":" + (x->isOverride ? "true" : "false") + ",\"quantum\":" + (x->hasQuantumAnnotation ? "true" : "false") +
                         ",\"hasbody\":" + (x->body ? "true" : "false") + ",\"body\":" + block(x->body.get()) + "}";
                else if (auto x = dynamic_cast<ConstructorDeclaration*>(m))
                    s += "{\"k\":\"ctor\",\"vis\":" + mj::esc(vis) + ",\"params\":" + params(x->params) + ",\"default\":" + (x->isDefault ? "true" : "false") +
                         ",\"body\":" + block(x->body.get()) + "}";
                else if (auto x = dynamic_cast<DestructorDeclaration*>(m))
                    s += "{\"k\":\"dtor\",\"vis\":" + mj::esc(vis) + ",\"default\":" + (x->isDefault ? "true" : "false") + ",\"body\":" + block(x->body.get()) + "}";
                else
                    s += "{\"k\":\"?\"}";
            }
            s += "]}";
        }
        return s + "]}";
    }
}  // namespace astdump
