// In-process driver for the real lexer / parser / module loader / analyser / evaluator.
// Reads one JSON job per line from the file given as argv[1], appends one JSON result per line to argv[2]
// (flushed per job, so a crash loses only the job in flight; the Python side restarts after it).
//
// job:   {"id":..., "src":"...", "files":{"rel/path.bloch":"..."}, "entry":"main.bloch",
//         "draws":[...], "gc":"none|all|at:..|pressure|real|timer:N", "shots":N, "stage":"run|front|lex",
//         "want":["events","final","qasm","tokens"], "reuse_analyser":bool, "echo":bool, "timeout_ms":N}
// result:{"id":..., "status":"ok|lexical|parse|semantic|runtime|generic|other|timeout", "line","col","msg","what",
//         "stdout","stderr","shots":[{"echo":[..],"tracked":{..},"qasm":"..","events":[..],"final":{..}}]}
#include <unistd.h>

#include <csignal>
#include <cstdio>
#include <cstring>
#include <filesystem>
#include <fstream>
#include <iostream>
#include <map>
#include <memory>
#include <mutex>
#include <sstream>
#include <string>
#include <vector>

#include "bloch/compiler/import/module_loader.hpp"
#include "bloch/compiler/lexer/lexer.hpp"
#include "bloch/compiler/parser/parser.hpp"
#include "bloch/compiler/semantics/semantic_analyser.hpp"
#include "bloch/runtime/runtime_evaluator.hpp"
#include "bloch/runtime/verif_hooks.hpp"
#include "bloch/support/error/bloch_error.hpp"
#include "mini_json.hpp"
#include "astdump.hpp"

namespace fs = std::filesystem;
using namespace bloch;
using support::BlochError;
using support::ErrorCategory;

static FILE* g_out = nullptr;
static std::string g_curId;

static std::string stripAnsi(const std::string& s) {
    std::string o;
    for (size_t i = 0; i < s.size(); ++i) {
        if (s[i] == '\033') {
            while (i < s.size() && s[i] != 'm') ++i;
            continue;
        }
        o.push_back(s[i]);
    }
    return o;
}
static const char* catName(ErrorCategory c) {
    switch (c) {
        case ErrorCategory::Lexical: return "lexical";
        case ErrorCategory::Parse: return "parse";
        case ErrorCategory::Semantic: return "semantic";
        case ErrorCategory::Runtime: return "runtime";
        default: return "generic";
    }
}
static void onAlarm(int) {
    // watchdog: report and leave without unwinding
    if (g_out) {
        std::string r = "{\"id\":" + g_curId + ",\"status\":\"timeout\"}\n";
        fputs(r.c_str(), g_out);
        fflush(g_out);
    }
    _exit(0);
}
static void onTerminate() {
    if (g_out) {
        std::string what = "terminate";
        try {
            if (auto e = std::current_exception())
                std::rethrow_exception(e);
        } catch (const std::exception& ex) {
            what = ex.what();
        } catch (...) {
        }
        std::string r = "{\"id\":" + g_curId + ",\"status\":\"terminate\",\"what\":" + mj::esc(what) + "}\n";
        fputs(r.c_str(), g_out);
        fflush(g_out);
    }
    _exit(0);
}

struct Capture {
    std::streambuf* oldOut;
    std::streambuf* oldErr;
    std::ostringstream out, err;
    Capture() {
        oldOut = std::cout.rdbuf(out.rdbuf());
        oldErr = std::cerr.rdbuf(err.rdbuf());
    }
    ~Capture() {
        std::cout.rdbuf(oldOut);
        std::cerr.rdbuf(oldErr);
    }
};

static std::string jsonLines(const std::string& text) {
    std::string o = "[";
    std::istringstream is(text);
    std::string l;
    bool first = true;
    while (std::getline(is, l)) {
        o += (first ? "" : ",") + mj::esc(l);
        first = false;
    }
    return o + "]";
}

static compiler::SemanticAnalyser* g_sharedAnalyser = nullptr;

static std::string tokenDump(const std::string& src) {
    compiler::Lexer lx(src);
    auto toks = lx.tokenize();
    std::string o = "[";
    for (size_t i = 0; i < toks.size(); ++i) {
        o += (i ? "," : "");
        o += "{\"t\":" + std::to_string((int)toks[i].type) + ",\"v\":" + mj::esc(toks[i].value) +
             ",\"l\":" + std::to_string(toks[i].line) + ",\"c\":" + std::to_string(toks[i].column) + "}";
    }
    return o + "]";
}

// The lexer's input is a view: what it returns may depend on the bytes of the view only. The source is lexed from a buffer of
// exactly its size (a read past the end is then a heap overflow the sanitizer reports) and from the front of larger buffers
// whose remaining bytes are '/', '"', quotes, letters, digits or newlines; all results must be the one obtained from a
// NUL-terminated std::string.
struct ViewDependence : std::runtime_error {
    using std::runtime_error::runtime_error;
};
static std::string lexOutcome(std::string_view view) {
    try {
        compiler::Lexer lx(view);
        auto toks = lx.tokenize();
        std::string o;
        for (auto& t : toks)
            o += std::to_string((int)t.type) + ":" + t.value + "@" + std::to_string(t.line) + ":" + std::to_string(t.column) + "\n";
        return o;
    } catch (const BlochError& e) {
        return std::string("error ") + std::to_string(e.line) + ":" + std::to_string(e.column);
    }
}
static void viewCheck(const std::string& src) {
    const std::string ref = lexOutcome(std::string_view(src));
    {
        std::unique_ptr<char[]> exact(new char[src.size() ? src.size() : 1]);
        std::memcpy(exact.get(), src.data(), src.size());
        if (lexOutcome(std::string_view(exact.get(), src.size())) != ref)
            throw ViewDependence("lexing an exact-size buffer differs from lexing the same text in a std::string");
    }
    static const char* tails[] = {"////////", "\"\"\"\"\"\"\"\"", "abcdefgh", "\'\'\'\'\'\'\'\'", "99999999", "\n\n\n\n"};
    for (const char* tail : tails) {
        std::string big = src + tail;
        if (lexOutcome(std::string_view(big.data(), src.size())) != ref)
            throw ViewDependence(std::string("lexing depends on bytes beyond the end of the source view (followed by ") + tail + ")");
    }
}

int main(int argc, char** argv) {
    if (argc < 3) {
        fprintf(stderr, "usage: prog_runner jobs.ndjson results.ndjson [workdir] [stdlib]\n");
        return 2;
    }
    std::ifstream in(argv[1]);
    g_out = fopen(argv[2], "a");
    std::string work = argc > 3 ? argv[3] : "/tmp";
    std::string stdlib = argc > 4 ? argv[4] : "";
    signal(SIGALRM, onAlarm);
    std::set_terminate(onTerminate);
    std::string line;
    long jobNo = 0;
    while (std::getline(in, line)) {
        if (line.empty())
            continue;
        ++jobNo;
        auto job = mj::parse(line);
        const mj::Val* idv = job->get("id");
        g_curId = idv ? (idv->k == mj::Val::Str ? mj::esc(idv->s) : std::to_string(idv->num())) : "0";
        // "begin" marker so the driver can tell which job was in flight when the process died
        fprintf(g_out, "{\"begin\":%s}\n", g_curId.c_str());
        fflush(g_out);
        std::string stage = job->has("stage") ? job->at("stage").s : "run";
        int shots = job->has("shots") ? (int)job->at("shots").num() : 1;
        bool echoOn = job->has("echo") ? job->at("echo").b : true;
        bool logOn = job->has("log") ? job->at("log").b : true;
        bool wantEvents = false, wantFinal = false, wantQasm = false, allEvents = false;
        if (job->has("want"))
            for (auto& w : job->at("want").a) {
                if (w->s == "events") wantEvents = true;
                if (w->s == "events_all") { wantEvents = true; allEvents = true; }
                if (w->s == "final") wantFinal = true;
                if (w->s == "qasm") wantQasm = true;
            }
        int timeoutMs = job->has("timeout_ms") ? (int)job->at("timeout_ms").num() : 20000;
        std::vector<double> draws;
        if (job->has("draws"))
            for (auto& d : job->at("draws").a) draws.push_back(d->dbl());
        // "draws_by_shot": [[...], ...] gives every shot its own list (the draw position restarts with each shot)
        std::vector<std::vector<double>> drawsByShot;
        if (job->has("draws_by_shot"))
            for (auto& l : job->at("draws_by_shot").a) {
                drawsByShot.emplace_back();
                for (auto& d : l->a) drawsByShot.back().push_back(d->dbl());
            }
        size_t drawPos = 0;
        bool drawsExhausted = false;
        if (job->has("draws") || job->has("draws_by_shot"))
            runtime::verif::drawProvider() = [&]() {
                if (drawPos < draws.size())
                    return draws[drawPos++];
                drawsExhausted = true;
                return 0.5;
            };
        else
            runtime::verif::drawProvider() = nullptr;
        runtime::verif::gc().loaded = true;
        runtime::verif::gc().parse(job->has("gc") ? job->at("gc").s : "none");

        std::string res = "{\"id\":" + g_curId;
        std::string status = "ok", what, msg;
        int eline = 0, ecol = 0;
        std::string shotsJson = "[";
        std::string extra;
        std::vector<std::string> events;
        static std::mutex evMutex;   // events arrive from the interpreter and from the timer thread
        if (wantEvents)
            runtime::verif::sink() = [&](const std::string& l) {
                std::lock_guard<std::mutex> g(evMutex);
                events.push_back(l);
            };
        else
            runtime::verif::sink() = nullptr;
        ualarm(0, 0);
        alarm((timeoutMs + 999) / 1000);
        Capture cap;
        try {
            if (job->has("view_check") && job->at("view_check").b && job->has("src"))
                viewCheck(job->at("src").s);
            if (stage == "lex") {
                extra = ",\"tokens\":" + tokenDump(job->at("src").s);
            } else if (stage == "ast") {
                // lexer + parser only (no loader, no analysis): the tree the parser built
                compiler::Lexer lx(job->at("src").s);
                auto toks = lx.tokenize();
                compiler::Parser ps(std::move(toks));
                auto prog = ps.parse();
                extra = ",\"ast\":" + astdump::program(*prog);
            } else {
                // materialise files
                fs::path dir = fs::path(work) / ("job" + std::to_string(getpid()));
                std::error_code ec;
                fs::remove_all(dir, ec);
                fs::create_directories(dir);
                std::string entry = "main.bloch";
                if (job->has("files")) {
                    for (auto& kv : job->at("files").o) {
                        fs::path p = dir / kv.first;
                        fs::create_directories(p.parent_path());
                        std::ofstream f(p);
                        f << kv.second->s;
                    }
                    if (job->has("entry"))
                        entry = job->at("entry").s;
                } else {
                    std::ofstream f(dir / entry, std::ios::binary);
                    if (job->has("src_hex")) {
                        // arbitrary bytes (not necessarily valid UTF-8), two hex digits per byte
                        const std::string& hx = job->at("src_hex").s;
                        for (size_t hi = 0; hi + 1 < hx.size(); hi += 2)
                            f.put((char)std::strtol(hx.substr(hi, 2).c_str(), nullptr, 16));
                    } else
                        f << job->at("src").s;
                }
                std::vector<std::string> search;
                if (!stdlib.empty())
                    search.push_back(stdlib);
                if (job->has("search"))
                    for (auto& s : job->at("search").a) search.push_back((dir / s->s).string());
                if (job->has("no_stdlib") && job->at("no_stdlib").b && !search.empty() && !stdlib.empty())
                    search.erase(search.begin());
                fs::path oldCwd = fs::current_path();
                if (job->has("cwd"))
                    fs::current_path(dir / job->at("cwd").s);
                compiler::ModuleLoader loader(search);
                std::unique_ptr<compiler::Program> program;
                // "preload": earlier requests served by the same loader object (their outcome is ignored); "late_files" are
                // written only after them, i.e. were missing while the earlier requests ran
                if (job->has("preload")) {
                    for (auto& pe : job->at("preload").a) {
                        try {
                            (void)loader.load((dir / pe->s).string());
                        } catch (const std::exception&) {
                        }
                    }
                }
                if (job->has("late_files")) {
                    for (auto& kv : job->at("late_files").o) {
                        fs::path p = dir / kv.first;
                        fs::create_directories(p.parent_path());
                        std::ofstream f(p);
                        f << kv.second->s;
                    }
                }
                // "entry_style": how the host spells the entry path - absolute (default), relative to the working directory, or relative
                // with redundant './' and 'x/../' components. Which file that is does not depend on the spelling.
                std::string entryPath = (dir / entry).string();
                if (job->has("entry_style")) {
                    const std::string& st = job->at("entry_style").s;
                    fs::path rel = fs::relative(dir / entry, fs::current_path());
                    if (st == "relative")
                        entryPath = rel.string();
                    else if (st == "dotted")
                        entryPath = (fs::path(".") / rel.parent_path() / "." / rel.filename()).string();
                }
                try {
                    program = loader.load(entryPath);
                } catch (...) {
                    fs::current_path(oldCwd);
                    throw;
                }
                fs::current_path(oldCwd);
                extra += ",\"funcs\":[";
                for (size_t fi = 0; fi < program->functions.size(); ++fi)
                    extra += std::string(fi ? "," : "") + mj::esc(program->functions[fi]->name);
                extra += "]";
                compiler::SemanticAnalyser local;
                compiler::SemanticAnalyser* an = &local;
                if (job->has("reuse_analyser") && job->at("reuse_analyser").b) {
                    if (!g_sharedAnalyser)
                        g_sharedAnalyser = new compiler::SemanticAnalyser();
                    an = g_sharedAnalyser;
                }
                an->analyse(*program);
                extra += ",\"ann_shots\":[" + std::string(program->shots.first ? "1" : "0") + "," +
                         std::to_string(program->shots.second) + "]";
                if (stage == "run") {
                    bool reanalyse = job->has("reanalyse") && job->at("reanalyse").b;
                    for (int s = 0; s < shots + (reanalyse ? 1 : 0); ++s) {
                        if (!drawsByShot.empty()) {
                            draws = drawsByShot[std::min<size_t>(s, drawsByShot.size() - 1)];
                            drawPos = 0;
                        }
                        if (reanalyse && s == shots)
                            an->analyse(*program);   // analysing an already analysed and executed tree must change nothing
                        {
                            std::lock_guard<std::mutex> lk(evMutex);
                            events.clear();
                        }
                        runtime::verif::gc().counter = 0;
                        cap.out.str("");
                        std::string shot = "{";
                        std::string sstatus = "ok";
                        std::string swhat;
                        int sl = 0, sc = 0;
                        size_t nEvents = 0;
                        long stmtCount = 0;
                        {
                            runtime::RuntimeEvaluator ev(logOn);
                            ev.setEcho(echoOn);
                            try {
                                ev.execute(*program);
                            } catch (const BlochError& e) {
                                sstatus = catName(e.category);
                                swhat = stripAnsi(e.what());
                                sl = e.line;
                                sc = e.column;
                            }
                            {
                                std::lock_guard<std::mutex> lk(evMutex);   // the timer thread may still be emitting
                                nEvents = events.size();  // teardown events are not part of the run
                            }
                            stmtCount = runtime::verif::gc().counter;
                            shot += "\"status\":\"" + sstatus + "\"";
                            shot += ",\"echo\":" + jsonLines(cap.out.str());
                            shot += ",\"tracked\":{";
                            bool f1 = true;
                            std::map<std::string, std::map<std::string, int>> sorted;
                            for (auto& kv : ev.trackedCounts())
                                for (auto& kv2 : kv.second) sorted[kv.first][kv2.first] = kv2.second;
                            for (auto& kv : sorted) {
                                shot += (f1 ? "" : ",") + mj::esc(kv.first) + ":{";
                                f1 = false;
                                bool f2 = true;
                                for (auto& kv2 : kv.second) {
                                    shot += (f2 ? "" : ",") + mj::esc(kv2.first) + ":" + std::to_string(kv2.second);
                                    f2 = false;
                                }
                                shot += "}";
                            }
                            shot += "}";
                            if (wantQasm)
                                shot += ",\"qasm\":" + mj::esc(ev.getQasm());
                            if (wantFinal) {
                                auto& sim = ev.verifSim();
                                shot += ",\"final\":{\"n\":" + std::to_string(sim.verifQubits()) + ",\"amp\":[";
                                auto& st = sim.verifState();
                                char buf[80];
                                for (size_t i = 0; i < st.size(); ++i) {
                                    snprintf(buf, sizeof buf, "%s[%.17g,%.17g]", i ? "," : "", st[i].real(), st[i].imag());
                                    shot += buf;
                                }
                                shot += "],\"simmeas\":[";
                                for (int q = 0; q < sim.verifQubits(); ++q)
                                    shot += std::string(q ? "," : "") + ((q < (int)sim.verifMeasured().size() && sim.verifMeasured()[q]) ? "1" : "0");
                                shot += "],\"evmeas\":[";
                                auto em = ev.verifMeasuredFlags();
                                for (size_t q = 0; q < em.size(); ++q) shot += std::string(q ? "," : "") + std::to_string(em[q]);
                                shot += "],\"free\":[";
                                auto& fl = ev.verifFreeList();
                                for (size_t q = 0; q < fl.size(); ++q) shot += std::string(q ? "," : "") + std::to_string(fl[q]);
                                shot += "],\"last\":[";
                                auto& lm = ev.verifLastMeasurement();
                                for (size_t q = 0; q < lm.size(); ++q) shot += std::string(q ? "," : "") + std::to_string(lm[q]);
                                shot += "]}";
                            }
                        }  // evaluator destroyed here (teardown is part of the run)
                        if (wantEvents) {
                            shot += ",\"events\":[";
                            for (size_t i = 0; i < (allEvents ? events.size() : nEvents) && i < events.size(); ++i) shot += (i ? "," : "") + events[i];
                            shot += "]";
                        }
                        shot += ",\"stmts\":" + std::to_string(stmtCount);
                        if (sstatus != "ok") {
                            shot += ",\"what\":" + mj::esc(swhat) + ",\"line\":" + std::to_string(sl) + ",\"col\":" + std::to_string(sc);
                            status = sstatus;
                            what = swhat;
                            eline = sl;
                            ecol = sc;
                        }
                        shot += "}";
                        shotsJson += (s ? "," : "") + shot;
                        // "keep_going": a host that executes one analysed program repeatedly carries on after an execution that
                        // ended in a runtime error (the CLI stops at the first one)
                        if (sstatus != "ok" && !(job->has("keep_going") && job->at("keep_going").b))
                            break;
                    }
                }
                fs::remove_all(dir, ec);
            }
        } catch (const BlochError& e) {
            status = catName(e.category);
            what = stripAnsi(e.what());
            eline = e.line;
            ecol = e.column;
        } catch (const ViewDependence& e) {
            status = "view_dependence";
            what = e.what();
        } catch (const std::exception& e) {
            status = "other";
            what = e.what();
        } catch (...) {
            status = "other";
            what = "non-std exception";
        }
        alarm(0);
        shotsJson += "]";
        res += ",\"status\":\"" + status + "\"";
        if (status != "ok")
            res += ",\"what\":" + mj::esc(what) + ",\"line\":" + std::to_string(eline) + ",\"col\":" + std::to_string(ecol);
        res += ",\"stderr\":" + mj::esc(stripAnsi(cap.err.str()));
        if (drawsExhausted)
            res += ",\"draws_exhausted\":true";
        res += ",\"draws_used\":" + std::to_string(drawPos);
        res += extra;
        res += ",\"shots\":" + shotsJson + "}\n";
        fputs(res.c_str(), g_out);
        fflush(g_out);
    }
    fclose(g_out);
    return 0;
}
