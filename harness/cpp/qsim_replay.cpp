// B1 graph replay: walks TLC's successor tables for MCQSim (one ndjson line per spec state, written
// by the DumpInv invariant) and executes EVERY transition on the real QasmSimulator, keeping one
// implementation object per spec state (objects are plain copyable values, so every object the
// harness uses was produced by real public calls from the empty simulator).
//
// usage: qsim_replay <dump.ndjson> <out.json> [maxViolations]
#include <algorithm>
#include <cmath>
#include <complex>
#include <cstdio>
#include <deque>
#include <fstream>
#include <iostream>
#include <map>
#include <set>
#include <string>
#include <unordered_map>
#include <vector>

#include "bloch/runtime/qasm_simulator.hpp"
#include "bloch/runtime/verif_hooks.hpp"
#include "mini_json.hpp"

using bloch::runtime::QasmSimulator;
using cd = std::complex<double>;
static const double PI = 3.14159265358979323846;
static const double TOL = 1e-9;

static cd ringToC(const mj::Val& z) {
    static const cd w(std::sqrt(0.5), std::sqrt(0.5));
    static const cd w2(0, 1), w3(-std::sqrt(0.5), std::sqrt(0.5));
    cd v = (double)z[0].num() + (double)z[1].num() * w + (double)z[2].num() * w2 +
           (double)z[3].num() * w3;
    return v / std::pow(std::sqrt(2.0), (double)z[4].num());
}
static std::vector<cd> vecOf(const mj::Val& st) {
    std::vector<cd> v;
    for (auto& z : st.at("v").a) v.push_back(ringToC(*z));
    return v;
}
static std::vector<cd> vecOfNormalised(const mj::Val& st) {
    auto v = vecOf(st);
    double n = 0;
    for (auto& a : v) n += std::norm(a);
    n = std::sqrt(n);
    if (n > 0)
        for (auto& a : v) a /= n;
    return v;
}
static bool g_log = true;
static std::string keyOf(const mj::Val& st) {
    std::string k = std::to_string(st.at("n").num()) + "|";
    for (auto& m : st.at("m").a) k += (m->num() ? '1' : '0');
    k += "|";
    for (auto& z : st.at("v").a) {
        for (auto& c : z->a) {
            k += std::to_string(c->num());
            k += ',';
        }
        k += ';';
    }
    return k;
}

// compare implementation state with spec state up to one global phase
static bool sameUpToPhase(const std::vector<cd>& impl, const std::vector<cd>& spec, double& err) {
    err = 1e9;
    if (impl.size() != spec.size())
        return false;
    size_t big = 0;
    for (size_t i = 0; i < spec.size(); ++i)
        if (std::abs(spec[i]) > std::abs(spec[big]))
            big = i;
    if (std::abs(spec[big]) < 1e-12)
        return false;
    cd ph = impl[big] / spec[big];
    if (std::abs(std::abs(ph) - 1.0) > TOL) {
        err = std::abs(std::abs(ph) - 1.0);
        return false;
    }
    err = 0;
    for (size_t i = 0; i < spec.size(); ++i) {
        if (!std::isfinite(impl[i].real()) || !std::isfinite(impl[i].imag()))
            return false;
        err = std::max(err, std::abs(impl[i] - ph * spec[i]));
    }
    return err < TOL;
}
static bool flagsMatch(const QasmSimulator& s, const mj::Val& st) {
    auto& m = s.verifMeasured();
    auto& sm = st.at("m").a;
    for (size_t q = 0; q < sm.size(); ++q) {
        bool f = q < m.size() ? (bool)m[q] : false;
        if (f != (sm[q]->num() != 0))
            return false;
    }
    return true;
}
static std::string lastLine(const std::string& qasm) {
    if (qasm.empty())
        return "";
    size_t end = qasm.size();
    if (qasm[end - 1] == '\n')
        --end;
    size_t st = qasm.rfind('\n', end - 1);
    return qasm.substr(st == std::string::npos ? 0 : st + 1, end - (st == std::string::npos ? 0 : st + 1));
}

struct Stats {
    std::map<std::string, long> edges;  // per action
    long nodes = 0, edgesTotal = 0, refusedChecked = 0, measureDraws = 0, resetDraws = 0;
    long nonStandardReset = 0;
    std::vector<std::string> violations;
    std::vector<std::string> samples;
    size_t maxViol = 20;
    std::map<std::string, long> violByProp;
};
static Stats S;

static void violation(const std::string& prop, const std::string& what, const std::string& stateKey,
                      const std::string& act) {
    S.violByProp[prop]++;
    if (S.violations.size() < S.maxViol) {
        S.violations.push_back("{\"property\":" + mj::esc(prop) + ",\"what\":" + mj::esc(what) +
                               ",\"state\":" + mj::esc(stateKey) + ",\"action\":" + mj::esc(act) + "}");
    }
}

static void applyGate(QasmSimulator& v, const std::string& a, int p, int k, double theta) {
    if (a == "h")
        v.h(p);
    else if (a == "x")
        v.x(p);
    else if (a == "y")
        v.y(p);
    else if (a == "z")
        v.z(p);
    else if (a == "rx")
        v.rx(p, theta);
    else if (a == "ry")
        v.ry(p, theta);
    else if (a == "rz")
        v.rz(p, theta);
    else if (a == "t")
        v.rz(p, PI / 4);  // T up to a global phase
    else if (a == "cx")
        v.cx(p, k);
    else
        throw std::runtime_error("unknown action " + a);
}
static std::string expectedLine(const std::string& a, int p, int k, double theta) {
    if (a == "cx")
        return "cx q[" + std::to_string(p) + "],q[" + std::to_string(k) + "];";
    if (a == "rx" || a == "ry" || a == "rz")
        return a + "(" + std::to_string(theta) + ") q[" + std::to_string(p) + "];";
    if (a == "t")
        return "rz(" + std::to_string(PI / 4) + ") q[" + std::to_string(p) + "];";
    if (a == "measure")
        return "measure q[" + std::to_string(p) + "] -> c[" + std::to_string(p) + "];";
    if (a == "reset")
        return "reset q[" + std::to_string(p) + "];";
    return a + " q[" + std::to_string(p) + "];";
}

// reduced density matrix of all qubits except q
static std::vector<cd> reduced(const std::vector<cd>& v, int q) {
    size_t dim = v.size(), bit = size_t{1} << q;
    std::vector<size_t> z;
    for (size_t i = 0; i < dim; ++i)
        if (!(i & bit))
            z.push_back(i);
    std::vector<cd> rho(z.size() * z.size());
    for (size_t a = 0; a < z.size(); ++a)
        for (size_t b = 0; b < z.size(); ++b)
            rho[a * z.size() + b] = v[z[a]] * std::conj(v[z[b]]) + v[z[a] | bit] * std::conj(v[z[b] | bit]);
    return rho;
}

int main(int argc, char** argv) {
    if (argc < 3) {
        std::fprintf(stderr, "usage: qsim_replay dump.ndjson out.json [maxViol]\n");
        return 2;
    }
    if (argc > 3)
        S.maxViol = std::atoi(argv[3]);
    if (argc > 4)
        g_log = std::string(argv[4]) != "nolog";
    std::ifstream in(argv[1]);
    if (!in) {
        std::fprintf(stderr, "cannot open %s\n", argv[1]);
        return 2;
    }
    double curDraw = 0.5;
    bloch::runtime::verif::drawProvider() = [&]() { return curDraw; };

    // spec state key -> up to K implementation objects with different recent histories (an object is the
    // result of real public calls along one path; hidden per-object state such as caches or extra flags can
    // depend on the path, so one object per node would only ever exercise one history)
    struct Obj {
        std::string tag;
        QasmSimulator sim;
    };
    const size_t K = 3;
    std::unordered_map<std::string, std::vector<Obj>> impl;
    impl[std::string("0||1,0,0,0,0,;")].push_back({"init", QasmSimulator(g_log)});
    std::string curTag = "init";
    auto kindOf = [](const std::string& a) -> std::string {
        if (a == "measure") return "m";
        if (a == "reset") return "r";
        if (a == "rx" || a == "ry" || a == "rz" || a == "t") return "rot";
        if (a == "alloc") return "a";
        return "g";
    };
    auto reg = [&](const std::string& key, const std::string& act, const QasmSimulator& V) {
        std::string prev = curTag.substr(curTag.rfind('>') == std::string::npos ? 0 : curTag.rfind('>') + 1);
        std::string tag = prev + ">" + kindOf(act);
        auto& vec = impl[key];
        if (vec.size() >= K)
            return;
        for (auto& o : vec)
            if (o.tag == tag)
                return;
        vec.push_back({tag, V});
    };
    std::deque<std::string> pending;
    std::set<std::string> seenNodes;
    long totalLines = 0;

    // draw grid: the 16 midpoints (2j+1)/32, plus draws close to both ends of [0,1). The end
    // draws stay 1e-9 away from 0 and 1: a draw inside the floating-point noise of p1 (|p1 - exact|
    // ~ 1e-16) may legitimately fall on either side, and the property is stated "within
    // floating-point tolerance", so such draws would raise false alarms.
    std::vector<double> mids;
    for (int j = 0; j < 16; ++j) mids.push_back((2 * j + 1) / 32.0);
    std::vector<double> extra = {1e-9, 1.0 - 1e-9};

    auto process = [&](const std::string& line) -> bool {
        auto doc = mj::parse(line);
        const mj::Val& s = doc->at("s");
        std::string ukey = keyOf(s);
        auto it = impl.find(ukey);
        if (it == impl.end())
            return false;
        const std::vector<Obj> objs = it->second;
        S.nodes++;
        seenNodes.insert(ukey);
        for (const Obj& uo : objs) {
        const QasmSimulator U = uo.sim;
        curTag = uo.tag;
        // node-level checks: the object registered for this node must match the node
        {
            double err;
            if (!sameUpToPhase(U.verifState(), vecOf(s), err))
                violation("C03", "registered object does not match node", ukey, "node");
            double nrm = 0;
            for (auto& a : U.verifState()) nrm += std::norm(a);
            if (std::abs(nrm - 1.0) > 1e-9 || U.stateSize() != (size_t{1} << s.at("n").num()))
                violation("C03", "not a unit 2^n vector", ukey, "node");
        }
        std::map<int, const mj::Val*> p1;                       // q -> exact P1
        std::map<std::pair<int, int>, const mj::Val*> mTo, rTo;  // (q,o) -> post state
        bool unnorm = false;  // probe model: post states are unnormalised projections
        for (auto& ep : doc->at("succ").a) {
            const mj::Val& e = *ep;
            std::string a = e.at("a").s;
            int p = (int)e.at("p").num();
            if (a == "p1") {
                p1[p] = &e.at("pr");
                continue;
            }
            if (e.has("o")) {
                int o = (int)e.at("o").num();
                (a == "measure" ? mTo : rTo)[{p, o}] = &e.at("t");
                if (e.has("u"))
                    unnorm = true;
                continue;
            }
            int k = (int)e.at("k").num();
            std::string act = a + "(" + std::to_string(p) + "," + std::to_string(k) + ")";
            if (e.has("refused")) {
                // spec: operation is refused (measured operand, or cx naming one qubit twice)
                QasmSimulator V = U;
                bool threw = false;
                try {
                    if (a == "measure")
                        V.measure(p);
                    else
                        applyGate(V, a, p, k, k * PI / 2);
                } catch (const bloch::support::BlochError& ex) {
                    threw = true;
                }
                S.refusedChecked++;
                double err;
                if (!threw)
                    violation("C06", "operation on measured qubit not refused by simulator", ukey, act);
                else if (!sameUpToPhase(V.verifState(), U.verifState(), err) ||
                         V.verifOpCount() != U.verifOpCount() || V.verifMeasured() != U.verifMeasured())
                    violation("C06", "refused operation changed the simulator state or log", ukey, act);
                continue;
            }
            const mj::Val& t = e.at("t");
            std::string prop = (a == "alloc") ? "C03" : "C01";
            std::vector<double> thetas = {0};
            bool rot = (a == "rx" || a == "ry" || a == "rz");
            if (rot)
                thetas = {k * PI / 2, k * PI / 2 - 4 * PI};  // same unitary, different representative
            bool first = true;
            for (double theta : thetas) {
                QasmSimulator V = U;
                try {
                    if (a == "alloc") {
                        int idx = V.allocateQubit();
                        if (idx != (int)s.at("n").num())
                            violation("C03", "allocateQubit returned wrong index", ukey, act);
                    } else
                        applyGate(V, a, p, k, theta);
                } catch (const std::exception& ex) {
                    violation(prop, std::string("enabled action threw: ") + ex.what(), ukey, act);
                    continue;
                }
                double err = 0;
                if (!sameUpToPhase(V.verifState(), vecOf(t), err))
                    violation(prop, "post-state differs from spec (err=" + std::to_string(err) + ")", ukey,
                              act + (rot ? " theta=" + std::to_string(theta) : ""));
                else if (!flagsMatch(V, t) || V.verifQubits() != (int)t.at("n").num() ||
                         V.stateSize() != (size_t{1} << t.at("n").num()))
                    violation(prop, "flags / register size differ from spec", ukey, act);
                else {
                    if (!g_log) {
                        if (V.verifOpCount() != 0)
                            violation("C05", "operation logged although logging is switched off", ukey, act);
                    } else if (a != "alloc") {
                        // C05 (simulator half): exactly one log line, after the mutation, right text
                        if (V.verifOpCount() != U.verifOpCount() + 1 ||
                            lastLine(V.getQasm()) != expectedLine(a, p, k, theta))
                            violation("C05", "log line missing or wrong: '" + lastLine(V.getQasm()) + "'", ukey,
                                      act);
                    } else if (V.verifOpCount() != U.verifOpCount())
                        violation("C05", "allocation wrote to the op log", ukey, act);
                    if (first)
                        reg(keyOf(t), a, V);
                }
                first = false;
                S.edges[a]++;
                S.edgesTotal++;
            }
            if (rot) {
                // composition law of the defining unitaries: R(a) R(b) = R(a + b). The same edge applied in parts -
                // a very small part first / last (its output has components far below 1e-6), 1000 equal parts and,
                // for a few edges per gate, two million equal parts - must end in the same exact state.
                const double theta = k * PI / 2;
                auto parts = [&](const std::vector<double>& ds, size_t reps, const std::string& what, double tol) {
                    QasmSimulator V = U;
                    try {
                        for (size_t r = 0; r < reps; ++r)
                            for (double d : ds) applyGate(V, a, p, k, d);
                    } catch (const std::exception& ex) {
                        violation("C01", std::string("enabled action threw: ") + ex.what(), ukey, act + " " + what);
                        return;
                    }
                    {
                        double nrm = 0;
                        for (auto& amp : V.verifState()) nrm += std::norm(amp);
                        if (!(std::abs(nrm - 1.0) < 1e-7))
                            violation("C03", "after " + std::to_string(reps * ds.size()) + " gates the state has norm^2 = " + std::to_string(nrm), ukey, act + " " + what);
                    }
                    double err = 0;
                    if (!sameUpToPhase(V.verifState(), vecOf(t), err) && !(err < tol))
                        violation("C01", "rotation applied in parts does not compose to the whole rotation (err=" +
                                             [&] { char b[32]; snprintf(b, sizeof b, "%.3g", err); return std::string(b); }() + ")", ukey, act + " " + what);
                    S.edges["rot-in-parts"]++;
                };
                static size_t rotSeen = 0;
                ++rotSeen;
                if (rotSeen % 3 == 0)
                    parts({1e-7, theta - 1e-7}, 1, "as R(1e-7) then R(theta-1e-7)", 0);
                else if (rotSeen % 3 == 1)
                    parts({theta - 1e-7, 1e-7}, 1, "as R(theta-1e-7) then R(1e-7)", 0);
                else
                    parts({theta + 3e-8, -3e-8}, 1, "as R(theta+3e-8) then R(-3e-8)", 0);
                if (rotSeen % 1499 == 0)
                    parts({theta / 1100}, 1100, "as 1100 equal parts", 0);
                static std::map<std::string, int> longRuns;
                if (!g_log && (k == 1 || k == 2) && longRuns[a + std::to_string(k)]++ < 2)
                    parts({theta / 2000000}, 2000000, "as 2000000 equal parts", 1e-7);
            }
            if (S.samples.size() < 8 && S.edgesTotal % 200003 < 3 && S.nodes > 50)
                S.samples.push_back("{\"state\":" + mj::esc(ukey) + ",\"action\":" + mj::esc(act) + "}");
        }
        int n = (int)s.at("n").num();
        if (mTo.empty() && rTo.empty())
            n = 0;  // probe model below full width: no measure/reset probes dumped for this node
        auto gridFor = [&](int q) {
            // 16 midpoints when P1 is dyadic (exact frequency), 128 otherwise
            const mj::Val& pr = *p1.at(q);
            int G = pr[1].num() == 0 ? 16 : 128;
            std::vector<double> g;
            for (int j = 0; j < G; ++j) g.push_back((2 * j + 1) / (2.0 * G));
            return g;
        };
        // ---- measure: Born rule on the draw grid + collapse to the normalised projection ----
        for (int q = 0; q < n; ++q) {
            if (s.at("m")[q].num() != 0)
                continue;  // refused case handled above through the k-indexed entries
            std::string act = "measure(" + std::to_string(q) + ")";
            int ones = 0;
            std::set<int> hit;
            auto runOne = [&](double r, bool count) {
                curDraw = r;
                QasmSimulator V = U;
                int o = -1;
                try {
                    o = V.measure(q);
                } catch (const std::exception& ex) {
                    violation("C02", std::string("measure threw: ") + ex.what(), ukey, act);
                    return;
                }
                S.measureDraws++;
                auto f = mTo.find({q, o});
                if (f == mTo.end()) {
                    violation("C02", "outcome " + std::to_string(o) + " has probability 0 (draw " +
                                         std::to_string(r) + ")", ukey, act);
                    return;
                }
                double err;
                {
                    // C03: whatever else is wrong with it, the state after a measurement is a unit vector
                    double nrm = 0;
                    for (auto& a : V.verifState()) nrm += std::norm(a);
                    if (!(std::abs(nrm - 1.0) < 1e-9))
                        violation("C03", "after measure (outcome " + std::to_string(o) + ", draw " + std::to_string(r) + "): norm^2 = " + std::to_string(nrm), ukey, act);
                }
                if (!sameUpToPhase(V.verifState(), unnorm ? vecOfNormalised(*f->second) : vecOf(*f->second), err))
                    violation("C02", "collapsed state is not the normalised projection (err=" +
                                         std::to_string(err) + ", outcome " + std::to_string(o) + ")",
                              ukey, act);
                else if (!flagsMatch(V, *f->second))
                    violation("C06", "measure did not set exactly the measured flag", ukey, act);
                else {
                    if (g_log && (V.verifOpCount() != U.verifOpCount() + 1 ||
                        lastLine(V.getQasm()) != expectedLine("measure", q, 0, 0)))
                        violation("C05", "measure log line missing or wrong", ukey, act);
                    if (!unnorm)
                        reg(keyOf(*f->second), "measure", V);
                    // immediate re-read is impossible (flag set); repeatability is checked through
                    // the registered object: its P1 is 0/1 by the spec node it matches.
                }
                hit.insert(o);
                if (count && o == 1)
                    ++ones;
            };
            auto grid = gridFor(q);
            double G = (double)grid.size();
            for (double r : grid) runOne(r, true);
            for (double r : extra) runOne(r, false);
            // frequency on the midpoints equals P1 = (x + y*sqrt2)/2^k (exactly when P1 is a multiple of 1/G)
            const mj::Val& pr = *p1.at(q);
            double P1 = ((double)pr[0].num() + (double)pr[1].num() * std::sqrt(2.0)) /
                        std::pow(2.0, (double)pr[2].num());
            if (std::abs(ones / G - P1) > 0.5 / G + 1e-12)
                violation("C02", "frequency of outcome 1 over the draw grid is " + std::to_string(ones) +
                                     "/" + std::to_string((int)G) + " but P1=" + std::to_string(P1), ukey, act);
            for (auto& kv : mTo)
                if (kv.first.first == q && !hit.count(kv.first.second))
                    violation("C02", "possible outcome " + std::to_string(kv.first.second) +
                                         " never produced on the draw grid", ukey, act);
            S.edges["measure"] += (long)hit.size();
            S.edgesTotal += (long)hit.size();
        }
        // ---- reset: target to |0>, flag cleared, other qubits' reduced state preserved on average
        for (int q = 0; q < n; ++q) {
            std::string act = "reset(" + std::to_string(q) + ")";
            auto rhoPre = reduced(U.verifState(), q);
            std::vector<cd> rhoAvg(rhoPre.size());
            auto grid = gridFor(q);
            double G = (double)grid.size();
            bool ok = true;
            std::set<std::string> posts;
            auto runOne = [&](double r, bool count) {
                curDraw = r;
                QasmSimulator V = U;
                try {
                    V.reset(q);
                } catch (const std::exception& ex) {
                    violation("C04", std::string("reset threw: ") + ex.what(), ukey, act);
                    ok = false;
                    return;
                }
                S.resetDraws++;
                auto& v = V.verifState();
                double nrm = 0, on1 = 0;
                for (size_t i = 0; i < v.size(); ++i) {
                    nrm += std::norm(v[i]);
                    if (i & (size_t{1} << q))
                        on1 += std::norm(v[i]);
                }
                if (!(std::abs(nrm - 1.0) < 1e-9) || on1 > 1e-18) {
                    violation(on1 > 1e-18 ? "C04" : "C03", "after reset: norm=" + std::to_string(nrm) +
                                                           " weight on target=1: " + std::to_string(on1),
                              ukey, act);
                    ok = false;
                    return;
                }
                if (q < (int)V.verifMeasured().size() && V.verifMeasured()[q])
                    violation("C06", "reset left the measured flag set", ukey, act);
                for (int q2 = 0; q2 < n; ++q2)
                    if (q2 != q && V.verifMeasured()[q2] != U.verifMeasured()[q2])
                        violation("C06", "reset changed another qubit's flag", ukey, act);
                if (g_log && (V.verifOpCount() != U.verifOpCount() + 1 ||
                    lastLine(V.getQasm()) != expectedLine("reset", q, 0, 0)))
                    violation("C05", "reset log line missing or wrong", ukey, act);
                // which spec post-state is it?
                bool member = false;
                for (int o = 0; o < 2; ++o) {
                    auto f = rTo.find({q, o});
                    double err;
                    if (f != rTo.end() && sameUpToPhase(v, unnorm ? vecOfNormalised(*f->second) : vecOf(*f->second), err)) {
                        member = true;
                        if (!unnorm)
                            reg(keyOf(*f->second), "reset", V);
                        posts.insert(keyOf(*f->second));
                        break;
                    }
                }
                if (!member)
                    S.nonStandardReset++;
                if (count) {
                    auto rr = reduced(v, q);
                    for (size_t i = 0; i < rr.size(); ++i) rhoAvg[i] += rr[i] / G;
                }
            };
            for (double r : grid) runOne(r, true);
            for (double r : extra) runOne(r, false);
            if (ok) {
                double worst = 0;
                for (size_t i = 0; i < rhoPre.size(); ++i) worst = std::max(worst, std::abs(rhoPre[i] - rhoAvg[i]));
                // exact on the grid whenever P1 is a multiple of 1/16; allow one grid cell otherwise
                const mj::Val& pr = *p1.at(q);
                bool dyadic = pr[1].num() == 0;
                if (worst > (dyadic ? 1e-9 : 1.0 / G))
                    violation("C04", "reset changed the reduced state of the other qubits (max entry diff " +
                                         std::to_string(worst) + ")", ukey, act);
            }
            S.edges["reset"] += (long)posts.size();
            S.edgesTotal += (long)posts.size();
        }
        }  // objects of this node
        return true;
    };

    std::string line;
    while (std::getline(in, line)) {
        if (line.empty())
            continue;
        ++totalLines;
        if (!process(line))
            pending.push_back(line);
        // retry deferred lines whose node now has an object
        bool progress = true;
        while (progress && !pending.empty() && pending.size() < 64) {
            progress = false;
            for (size_t i = 0; i < pending.size();) {
                if (process(pending[i])) {
                    pending.erase(pending.begin() + i);
                    progress = true;
                } else
                    ++i;
            }
        }
    }
    bool progress = true;
    while (progress && !pending.empty()) {
        progress = false;
        for (size_t i = 0; i < pending.size();) {
            if (process(pending[i])) {
                pending.erase(pending.begin() + i);
                progress = true;
            } else
                ++i;
        }
    }
    if (!pending.empty())
        violation("C03", std::to_string(pending.size()) +
                             " spec states were never reached by the implementation along verified edges",
                  "", "bfs");

    std::ofstream out(argv[2]);
    out << "{\"lines\":" << totalLines << ",\"nodes\":" << S.nodes << ",\"edges\":" << S.edgesTotal
        << ",\"refused_checked\":" << S.refusedChecked << ",\"measure_draws\":" << S.measureDraws
        << ",\"reset_draws\":" << S.resetDraws << ",\"nonstandard_reset_poststates\":" << S.nonStandardReset
        << ",\"unreached\":" << pending.size() << ",\"per_action\":{";
    bool f = true;
    for (auto& kv : S.edges) {
        out << (f ? "" : ",") << mj::esc(kv.first) << ":" << kv.second;
        f = false;
    }
    out << "},\"viol_by_prop\":{";
    f = true;
    for (auto& kv : S.violByProp) {
        out << (f ? "" : ",") << mj::esc(kv.first) << ":" << kv.second;
        f = false;
    }
    out << "},\"violations\":[";
    for (size_t i = 0; i < S.violations.size(); ++i) out << (i ? "," : "") << S.violations[i];
    out << "],\"samples\":[";
    for (size_t i = 0; i < S.samples.size(); ++i) out << (i ? "," : "") << S.samples[i];
    out << "]}\n";
    return 0;
}
