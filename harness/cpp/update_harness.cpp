// C20 conformance harness. Includes the updater's translation unit to reach its file-local helpers and the
// BLOCH_VERIF hooks (clock, network, stop-before-download), then replays TLC's case dumps:
//   {"k":"parse", "s":[chars], "valid":b, "t":[M,m,p]}
//   {"k":"pair",  "cur":[chars], "lat":[chars], "cmp":-1|0|1, "dec":"install|already|refuse", "notice":b}
//   {"k":"check", "names":[...], "expect":"hash|none"}
//   {"k":"throttle", "now":h, "cache":{exists,checked,notified,latest}, "succ":[{dt,net,dis,r:{cache,printed}}]}
// usage: update_harness dump.ndjson out.json workdir
#include "bloch/update/update_manager.cpp"

#include <unistd.h>

#include <csetjmp>
#include <csignal>
#include <fstream>
#include <map>

#include "mini_json.hpp"

using namespace bloch::update;

static std::string strOf(const mj::Val& chars) {
    std::string s;
    for (auto& c : chars.a) s += c->s;
    return s;
}
static const char* tagVersion(const std::string& tag) {
    if (tag == "older") return "v1.2.2";
    if (tag == "same") return "v1.2.3";
    if (tag == "newer") return "v1.3.0";
    if (tag == "garbage") return "latest-build";
    if (tag == "newersp") return "v1.3.0 beta";
    return "";
}
static std::string versionTag(const std::string& v) {
    if (v == "v1.2.2") return "older";
    if (v == "v1.2.3") return "same";
    if (v == "v1.3.0") return "newer";
    if (v == "latest-build") return "garbage";
    if (v == "v1.3.0 beta") return "newersp";
    return v.empty() ? "" : "?" + v;
}
static const char* CURRENT = "v1.2.3";

struct Stats {
    long parse = 0, pair = 0, check = 0, thrStates = 0, thrEdges = 0;
    std::vector<std::string> violations;
    long nviol = 0;
    std::vector<std::string> samples;
};
static Stats S;
static void violation(const std::string& part, const std::string& what, const std::string& caseJson) {
    S.nviol++;
    if (S.violations.size() < 25)
        S.violations.push_back("{\"part\":" + mj::esc(part) + ",\"what\":" + mj::esc(what) + ",\"case\":" + caseJson + "}");
}

struct CoutCapture {
    std::streambuf* o;
    std::streambuf* e;
    std::streambuf* i;
    std::ostringstream out, err;
    std::istringstream in;
    CoutCapture() : in("y\n") {
        o = std::cout.rdbuf(out.rdbuf());
        e = std::cerr.rdbuf(err.rdbuf());
        i = std::cin.rdbuf(in.rdbuf());
    }
    ~CoutCapture() {
        std::cout.rdbuf(o);
        std::cerr.rdbuf(e);
        std::cin.rdbuf(i);
    }
};

static std::string decide(const std::string& cur, const std::string& lat, std::string& thrown) {
    // the decision gate of `bloch --update` with the network stubbed
    verif::fetchLatest = [&](std::string&) { return std::optional<std::string>(lat); };
    verif::stopBeforeDownload = true;
    verif::lastDecision.clear();
    CoutCapture cap;
    bool rc = false;
    try {
        rc = performSelfUpdate(cur, "/nonexistent/bloch");
    } catch (const std::exception& ex) {
        thrown = ex.what();
        return "exception";
    }
    if (verif::lastDecision == "install")
        return "install";
    if (cap.out.str().find("already have the latest") != std::string::npos)
        return "already";
    (void)rc;
    return "refuse";
}

// one time unit of spec/Update.tla (20 minutes) in seconds
static const long long kUnitSeconds = 1200;

int main(int argc, char** argv) {
    if (argc < 4)
        return 2;
    std::ifstream in(argv[1]);
    std::string work = argv[3];
    setenv("XDG_CACHE_HOME", work.c_str(), 1);
    unsetenv("CI");
    unsetenv("BLOCH_NO_UPDATE_CHECK");
    unsetenv("BLOCH_OFFLINE");
    std::filesystem::path cacheFile = std::filesystem::path(work) / "bloch" / "update_cache.txt";
    std::filesystem::create_directories(cacheFile.parent_path());
    const char* disNames[3] = {"CI", "BLOCH_NO_UPDATE_CHECK", "BLOCH_OFFLINE"};
    long disRot = 0;
    std::string line;
    while (std::getline(in, line)) {
        if (line.empty())
            continue;
        auto doc = mj::parse(line);
        std::string k = doc->at("k").s;
        if (k == "parse") {
            S.parse++;
            std::string s = strOf(doc->at("s"));
            try {
                SemVer v = parseSemVer(s);
                bool ev = doc->at("valid").b;
                if (v.valid != ev)
                    violation("parse", std::string("parseSemVer('") + s + "').valid = " + (v.valid ? "true" : "false"), line);
                else if (ev && (v.major != doc->at("t")[0].num() || v.minor != doc->at("t")[1].num() ||
                                v.patch != doc->at("t")[2].num()))
                    violation("parse", "parseSemVer('" + s + "') = " + std::to_string(v.major) + "." +
                                           std::to_string(v.minor) + "." + std::to_string(v.patch), line);
            } catch (const std::exception& ex) {
                violation("parse", "parseSemVer('" + s + "') threw " + ex.what() + " (a version string must never crash the updater)", line);
            }
            if (S.samples.size() < 3 && S.parse % 9001 == 7)
                S.samples.push_back(line);
        } else if (k == "pair") {
            S.pair++;
            std::string cur = strOf(doc->at("cur")), lat = strOf(doc->at("lat"));
            int ecmp = (int)doc->at("cmp").num();
            std::string edec = doc->at("dec").s;
            bool enotice = doc->at("notice").b;
            try {
                SemVer c = parseSemVer(cur), l = parseSemVer(lat);
                int cmp = compareSemVer(c, l);
                if (cmp != ecmp)
                    violation("pair", "compareSemVer('" + cur + "','" + lat + "') = " + std::to_string(cmp) + ", expected " + std::to_string(ecmp), line);
            } catch (const std::exception& ex) {
                violation("pair", "comparing '" + cur + "' with '" + lat + "' threw " + ex.what(), line);
            }
            std::string thrown;
            std::string dec = decide(cur, lat, thrown);
            if (dec != edec)
                violation("pair", "--update with running version '" + cur + "' and latest tag '" + lat + "': " + dec +
                                      (thrown.empty() ? "" : " (" + thrown + ")") + ", expected " + edec, line);
            // notice path
            try {
                UpdateCache cache = emptyCache();
                CoutCapture cap;
                bool printed = maybePrintNotice(lat, cur, Clock::time_point(std::chrono::seconds(1800000000)), cache);
                if (printed != enotice)
                    violation("pair", std::string("update notice for running '") + cur + "', latest '" + lat + "': " +
                                          (printed ? "printed" : "not printed"), line);
            } catch (const std::exception& ex) {
                violation("pair", "notice for '" + cur + "' / '" + lat + "' threw " + ex.what(), line);
            }
            if (S.samples.size() < 5 && S.pair % 20011 == 3)
                S.samples.push_back(line);
        } else if (k == "check") {
            S.check++;
            std::string content;
            const char* hashes[3] = {"aaaa", "bbbb", "cccc"};
            size_t i = 0;
            for (auto& n : doc->at("names").a) {
                const char* h = hashes[i++];
                if (n->s == "<blank>")
                    content += (i % 2 ? "\n" : "   \n");          // a line that lists nothing
                else if (n->s == "<onecol>")
                    content += "--------\n";
                else
                    content += std::string(h) + "  " + n->s + "\n";
            }
            auto got = parseChecksum(content, "X.tar.gz");
            std::string g = got ? *got : "none";
            if (g != doc->at("expect").s)
                violation("check", "checksum chosen for X.tar.gz is '" + g + "', the line listed for exactly that asset says '" +
                                       doc->at("expect").s + "'", line);
            if (S.samples.size() < 7 && S.check % 50 == 3)
                S.samples.push_back(line);
        } else if (k == "throttle") {
            S.thrStates++;
            long now = doc->at("now").num();
            const mj::Val& c = doc->at("cache");
            for (auto& ep : doc->at("succ").a) {
                const mj::Val& e = *ep;
                S.thrEdges++;
                // install the source state: the cache file IS the persistent state
                std::error_code ec;
                std::filesystem::remove(cacheFile, ec);
                if (c.at("exists").b) {
                    std::ofstream f(cacheFile);
                    f << c.at("checked").num() * kUnitSeconds << "\n" << tagVersion(c.at("latest").s) << "\n" << c.at("notified").num() * kUnitSeconds << "\n";
                }
                long t = now + e.at("dt").num();
                verif::nowSeconds = [t]() { return (long long)t * kUnitSeconds; };
                std::string net = e.at("net").s;
                verif::fetchLatest = [net](std::string& err) -> std::optional<std::string> {
                    if (net == "fail") {
                        err = "connection error";
                        return std::nullopt;
                    }
                    return std::string(tagVersion(net));
                };
                bool dis = e.at("dis").b;
                const char* dn = disNames[(disRot++) % 3];
                if (dis)
                    setenv(dn, "1", 1);
                std::string outText;
                bool threw = false;
                {
                    CoutCapture cap;
                    try {
                        checkForUpdatesIfDue(CURRENT);
                    } catch (const std::exception& ex) {
                        threw = true;
                        outText = ex.what();
                    }
                    if (!threw)
                        outText = cap.out.str();
                }
                if (dis)
                    unsetenv(dn);
                std::string edge = "{\"now\":" + std::to_string(now) + ",\"dt\":" + std::to_string(e.at("dt").num()) + ",\"net\":" + mj::esc(net) +
                                   ",\"disabled\":" + (dis ? "true" : "false") + ",\"cache\":{\"exists\":" + (c.at("exists").b ? "true" : "false") +
                                   ",\"checked\":" + std::to_string(c.at("checked").num()) + ",\"notified\":" + std::to_string(c.at("notified").num()) +
                                   ",\"latest\":" + mj::esc(c.at("latest").s) + "}}";
                if (threw) {
                    violation("throttle", "checkForUpdatesIfDue threw " + outText, edge);
                    continue;
                }
                bool printed = outText.find("There is a new") != std::string::npos;
                const mj::Val& r = e.at("r");
                if (printed != r.at("printed").b)
                    violation("throttle", std::string("update notice ") + (printed ? "printed" : "not printed") + ", spec says " +
                                              (r.at("printed").b ? "printed" : "not printed"), edge);
                // resulting persistent state
                const mj::Val& rc = r.at("cache");
                bool exists = std::filesystem::exists(cacheFile);
                if (exists != rc.at("exists").b) {
                    violation("throttle", std::string("cache file ") + (exists ? "exists" : "absent") + " after the call, spec says otherwise", edge);
                } else if (exists) {
                    std::ifstream f(cacheFile);
                    std::string l1, l2, l3;
                    std::getline(f, l1);
                    std::getline(f, l2);
                    std::getline(f, l3);
                    long chk = std::atol(l1.c_str()), ntf = std::atol(l3.c_str());
                    if (chk != rc.at("checked").num() * kUnitSeconds || ntf != rc.at("notified").num() * kUnitSeconds || versionTag(l2) != rc.at("latest").s)
                        violation("throttle", "cache after the call is (checked=" + l1 + ", latest=" + l2 + ", notified=" + l3 + "), spec: checked=" +
                                                  std::to_string(rc.at("checked").num() * kUnitSeconds) + " latest=" + rc.at("latest").s + " notified=" +
                                                  std::to_string(rc.at("notified").num() * kUnitSeconds), edge);
                }
            }
        }
    }
    std::ofstream out(argv[2]);
    out << "{\"parse\":" << S.parse << ",\"pair\":" << S.pair << ",\"check\":" << S.check << ",\"throttle_states\":" << S.thrStates
        << ",\"throttle_edges\":" << S.thrEdges << ",\"nviol\":" << S.nviol << ",\"violations\":[";
    for (size_t i = 0; i < S.violations.size(); ++i) out << (i ? "," : "") << S.violations[i];
    out << "],\"samples\":[";
    for (size_t i = 0; i < S.samples.size(); ++i) out << (i ? "," : "") << S.samples[i];
    out << "]}\n";
    return 0;
}
