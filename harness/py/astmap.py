"""Maps the shared syntax (bsyntax trees, and Grammar.tla trees) to the shape harness/cpp/astdump.hpp produces,
so that 'what the parser built' can be compared structurally with 'what was rendered'."""
from bsyntax import PRIM


def strip_paren(n):
    if isinstance(n, list):
        return [strip_paren(x) for x in n]
    if isinstance(n, dict):
        if n.get("k") == "paren":
            return strip_paren(n["e"])
        return {k: strip_paren(v) for k, v in n.items()}
    return n


# ---- Grammar.tla trees -> astdump shape
def gtree(t):
    k = t["k"]
    if k == "id":
        return {"k": "id", "n": t["n"]}
    if k == "lit":
        return {"k": "lit", "t": "int", "v": t["v"]}
    if k == "bin":
        return {"k": "bin", "op": t["op"], "l": gtree(t["l"]), "r": gtree(t["r"])}
    if k == "un":
        return {"k": "un", "op": t["op"], "e": gtree(t["e"])}
    if k == "post":
        return {"k": "post", "op": t["op"], "e": gtree(t["e"])}
    if k == "call":
        return {"k": "call", "f": gtree(t["f"]), "a": [gtree(x) for x in t["a"]]}
    if k == "idx":
        return {"k": "idx", "a": gtree(t["a"]), "i": gtree(t["i"])}
    if k == "member":
        return {"k": "member", "o": gtree(t["o"]), "m": t["m"]}
    if k == "asg":
        return {"k": "asg", "n": t["n"], "e": gtree(t["e"])}
    raise ValueError(k)


# ---- bsyntax trees -> astdump shape
def btype(t):
    if "p" in t:
        if t["p"] in PRIM:
            return {"t": "prim", "n": PRIM[t["p"]]}
        return {"t": "named", "n": t["p"], "args": []}
    if "arr" in t:
        sz = t["size"]
        elem = {"t": "prim", "n": PRIM[t["arr"]]} if t["arr"] in PRIM else {"t": "named", "n": t["arr"], "args": []}
        return {"t": "arr", "e": elem, "size": sz["v"] if sz["k"] == "int" else -1, "sizeexpr": sz["k"] == "var"}
    return {"t": "named", "n": t["cls"], "args": [btype(a) for a in t.get("targs", [])]}


def bexpr(e):
    k = e["k"]
    if k == "none":
        return {"k": "none"}
    if k in ("int", "long", "bit"):
        v = e.get("v")
        suffix = {"int": "", "long": "L", "bit": "b"}[k]
        if k == "long" and "w" in e:
            if e["neg"] and e["text"] == "9223372036854775808":
                return {"k": "bin", "op": "-", "l": {"k": "un", "op": "-", "e": {"k": "lit", "t": "long", "v": "9223372036854775807L"}},
                        "r": {"k": "lit", "t": "long", "v": "1L"}}
            lit = {"k": "lit", "t": "long", "v": e["text"] + "L"}
            return {"k": "un", "op": "-", "e": lit} if e["neg"] else lit
        lit = {"k": "lit", "t": k, "v": "%d%s" % (abs(v), suffix)}
        return {"k": "un", "op": "-", "e": lit} if v < 0 else lit
    if k == "float":
        from bsyntax import rfloat
        lit = {"k": "lit", "t": "float", "v": rfloat(abs(e["n"]), e["d"])}
        return {"k": "un", "op": "-", "e": lit} if e["n"] < 0 else lit
    if k == "bool":
        return {"k": "lit", "t": "boolean", "v": "true" if e["v"] else "false"}
    if k == "str":
        return {"k": "lit", "t": "string", "v": '"%s"' % e["v"]}
    if k == "char":
        return {"k": "lit", "t": "char", "v": "'%s'" % e["v"]}
    if k == "null":
        return {"k": "null"}
    if k == "this":
        return {"k": "this"}
    if k == "var":
        return {"k": "id", "n": e["n"]}
    if k == "paren":
        return bexpr(e["e"])
    if k == "bin":
        return {"k": "bin", "op": e["op"], "l": bexpr(e["l"]), "r": bexpr(e["r"])}
    if k == "un":
        return {"k": "un", "op": e["op"], "e": bexpr(e["e"])}
    if k == "post":
        return {"k": "post", "op": e["op"], "e": {"k": "id", "n": e["n"]}}
    if k == "cast":
        return {"k": "cast", "t": {"t": "prim", "n": PRIM[e["t"]]}, "e": bexpr(e["e"])}
    if k == "call":
        return {"k": "call", "f": {"k": "id", "n": e["f"]}, "a": [bexpr(a) for a in e["a"]]}
    if k == "idx":
        return {"k": "idx", "a": bexpr(e["a"]), "i": bexpr(e["i"])}
    if k == "arr":
        return {"k": "arr", "es": [bexpr(x) for x in e["es"]]}
    if k == "asg":
        return {"k": "asg", "n": e["n"], "e": bexpr(e["e"])}
    if k == "aasg":
        return {"k": "aasg", "a": {"k": "id", "n": e["n"]}, "i": bexpr(e["i"]), "e": bexpr(e["e"])}
    if k == "new":
        targs = [] if e.get("diamond") else [btype(a) for a in e.get("targs", [])]
        return {"k": "new", "t": {"t": "named", "n": e["c"], "args": targs}, "a": [bexpr(a) for a in e["a"]]}
    if k == "fld":
        return {"k": "member", "o": bexpr(e["o"]), "m": e["f"]}
    if k == "sfld":
        return {"k": "member", "o": {"k": "id", "n": e["c"]}, "m": e["f"]}
    if k == "fasg":
        return {"k": "masg", "o": bexpr(e["o"]), "m": e["f"], "e": bexpr(e["e"])}
    if k == "sfasg":
        return {"k": "masg", "o": {"k": "id", "n": e["c"]}, "m": e["f"], "e": bexpr(e["e"])}
    if k == "mcall":
        if e.get("bare") and e["o"]["k"] == "this":
            return {"k": "call", "f": {"k": "id", "n": e["m"]}, "a": [bexpr(a) for a in e["a"]]}
        return {"k": "call", "f": {"k": "member", "o": bexpr(e["o"]), "m": e["m"]}, "a": [bexpr(a) for a in e["a"]]}
    if k == "scall":
        return {"k": "call", "f": {"k": "member", "o": {"k": "id", "n": e["c"]}, "m": e["m"]}, "a": [bexpr(a) for a in e["a"]]}
    if k == "supercall":
        return {"k": "call", "f": {"k": "member", "o": {"k": "super"}, "m": e["m"]}, "a": [bexpr(a) for a in e["a"]]}
    raise ValueError("bexpr " + k)


def bblock(ss):
    return {"k": "block", "b": [bstmt(s) for s in ss]}


def bstmt(s):
    k = s["k"]
    if k == "decl":
        return {"k": "decl", "n": s["n"], "t": btype(s["t"]), "init": bexpr(s["init"]), "final": bool(s.get("final")), "tracked": False, "ann": []}
    if k == "expr":
        e = s["e"]
        if e["k"] == "asg":
            return {"k": "assign", "n": e["n"], "e": bexpr(e["e"])}      # 'x = e;' is the assignment STATEMENT
        return {"k": "expr", "e": bexpr(e)}
    if k == "echo":
        return {"k": "echo", "e": bexpr(s["e"])}
    if k == "if":
        return {"k": "if", "c": bexpr(s["c"]), "t": bblock(s["t"]), "e": bblock(s["e"]) if s["e"] else {"k": "none"}}
    if k == "tern":
        return {"k": "tern", "c": bexpr(s["c"]), "t": bstmt(s["t"]), "e": bstmt(s["e"])}
    if k == "while":
        return {"k": "while", "c": bexpr(s["c"]), "b": bblock(s["b"])}
    if k == "for":
        init = bstmt(s["init"]) if s["init"]["k"] != "none" else {"k": "none"}
        return {"k": "for", "init": init, "c": bexpr(s["c"]), "upd": bexpr(s["upd"]), "b": bblock(s["b"])}
    if k == "block":
        return bblock(s["b"])
    if k == "ret":
        return {"k": "ret", "e": bexpr(s["e"])}
    if k == "destroy":
        return {"k": "destroy", "e": {"k": "id", "n": s["n"]}}
    if k == "super":
        return {"k": "expr", "e": {"k": "call", "f": {"k": "super"}, "a": [bexpr(a) for a in s["a"]]}}
    raise ValueError("bstmt " + k)


def bparams(ps):
    return [{"n": p["n"], "t": btype(p["t"])} for p in ps]


def bprogram(p, ctor_return_this=False, order=None):
    funcs = []
    for f in p["funcs"]:
        ann = (["quantum"] if f.get("quantum") else []) + (["shots"] if f.get("shots") else [])
        funcs.append({"name": f["name"], "params": bparams(f["params"]), "ret": btype(f["ret"]), "ann": ann, "quantum": bool(f.get("quantum")),
                      "body": [bstmt(s) for s in f["body"]]})
    classes = []
    for c in p["classes"]:
        members = []
        for f in c["fields"]:
            members.append({"k": "field", "vis": f.get("vis", "public"), "n": f["n"], "t": btype(f["t"]), "init": bexpr(f["init"]),
                            "final": bool(f.get("final")), "static": f["static"], "tracked": False})
        for ct in c["ctors"]:
            body = [bstmt(s) for s in ct["body"]]
            if ctor_return_this and not ct.get("default"):
                body.append({"k": "ret", "e": {"k": "this"}})
            members.append({"k": "ctor", "vis": ct.get("vis", "public"), "params": bparams(ct["params"]), "default": bool(ct.get("default")), "body": body})
        if c["dtor"]:
            members.append({"k": "dtor", "vis": "public", "default": False, "body": [bstmt(s) for s in c["dtor"]]})
        for m in c["methods"]:
            members.append({"k": "method", "vis": m.get("vis", "public"), "n": m["name"], "params": bparams(m["params"]), "ret": btype(m["ret"]),
                            "static": m["static"], "virtual": m["virtual"], "override": m["override"], "quantum": False,
                            "hasbody": not m.get("abstract_body"), "body": [] if m.get("abstract_body") else [bstmt(s) for s in m["body"]]})
        classes.append({"name": c["name"], "static": bool(c.get("static")), "abstract": bool(c.get("abstract")), "base": c.get("base", ""), "members": members})
    return {"funcs": funcs, "classes": classes}


def first_diff(a, b, path=""):
    """human-readable location of the first structural difference, or None"""
    if type(a) != type(b):
        return "%s: %r vs %r" % (path, a if not isinstance(a, (dict, list)) else type(a).__name__, b if not isinstance(b, (dict, list)) else type(b).__name__)
    if isinstance(a, dict):
        for k in sorted(set(a) | set(b)):
            if k not in a or k not in b:
                return "%s.%s: missing on one side" % (path, k)
            d = first_diff(a[k], b[k], path + "." + k)
            if d:
                return d
        return None
    if isinstance(a, list):
        if len(a) != len(b):
            return "%s: %d vs %d elements" % (path, len(a), len(b))
        for i, (x, y) in enumerate(zip(a, b)):
            d = first_diff(x, y, "%s[%d]" % (path, i))
            if d:
                return d
        return None
    return None if a == b else "%s: %r vs %r" % (path, a, b)
