"""Configurations for C19: module trees over three roots (the entry file's project root, one configured search
path, the working directory), with shadowing copies, right / wrong / missing package lines, named and wildcard
imports, bloch.* packages (search path first), diamonds, cycles, self-imports and 0 / 1 / 2 mains."""
import random

ROOTS = ["proj", "lib", "cwd"]
PKGS = [[], ["p"], ["bloch", "u"], ["p", "sub"]]
NAMES = ["Xa", "Yb", "Zc", "Wd"]


def mkfile(root, d, name, pkg, imports=(), main=False):
    return {"root": root, "dir": list(d), "name": name, "pkg": list(pkg), "imports": list(imports), "main": main}


def finish(files, entry, cwd="cwd", search=("lib",)):
    names = sorted({f["name"] for f in files})
    for f in files:
        f["rank"] = names.index(f["name"])
    return {"files": files, "entry": entry, "search": list(search), "cwd": cwd}


def random_config(rnd):
    nmod = rnd.randint(1, 3)
    mods = NAMES[:nmod]
    pk = {m: rnd.choice(PKGS) for m in mods}
    files = []
    entry_imports = []
    entry_pkg_dir = rnd.choice([[], [], ["app"]])
    # placement of each module: copies in a subset of roots (shadowing candidates); relative to the importer's directory the
    # project copy lives under the ENTRY's directory
    for m in mods:
        roots = [r for r in ROOTS if rnd.random() < 0.45]
        if not roots and rnd.random() < 0.8:
            roots = [rnd.choice(ROOTS)]
        decl = rnd.choice(["right", "right", "right", "wrong", "absent"])
        for r in roots:
            base = entry_pkg_dir if r == "proj" else []
            if decl == "right":
                pkg = pk[m] if pk[m] else ["?"]
            elif decl == "wrong":
                pkg = ["q"]
            else:
                pkg = ["?"]
            files.append(mkfile(r, base + pk[m], m, pkg))
    def imp(target, wildcard=False):
        return {"parts": pk[target], "sym": "*" if wildcard else target}
    # import edges
    for m in mods:
        if rnd.random() < 0.75:
            entry_imports.append(imp(m, rnd.random() < 0.25 and bool(pk[m])))
    for f in files:
        for t in mods:
            if rnd.random() < 0.22:
                f["imports"].append(imp(t, rnd.random() < 0.2 and bool(pk[t])))     # includes self-imports and cycles
        if rnd.random() < 0.06:
            f["imports"].append({"parts": [], "sym": "main"})                      # back to the entry (resolves only via some roots)
        if rnd.random() < 0.12:
            f["main"] = True
    entry = mkfile("proj", entry_pkg_dir, "main", ["?"], entry_imports, main=rnd.random() < 0.85)
    files.append(entry)
    cwd = rnd.choice(["cwd", "cwd", "proj", "lib"])
    search = rnd.choice([["lib"], ["lib"], [], ["lib", "cwd"]])
    return finish(files, len(files), cwd, search)


def structured():
    out = []
    # diamond: main -> A, B ; A -> C ; B -> C
    for pkg in ([], ["p"]):
        P = pkg if pkg else ["?"]
        out.append(finish([mkfile("proj", pkg, "Zc", P), mkfile("proj", pkg, "Xa", P, [{"parts": pkg, "sym": "Zc"}]),
                           mkfile("proj", pkg, "Yb", P, [{"parts": pkg, "sym": "Zc"}]),
                           mkfile("proj", [], "main", ["?"], [{"parts": pkg, "sym": "Xa"}, {"parts": pkg, "sym": "Yb"}], True)], 4))
    # cycles of length 1, 2, 3
    out.append(finish([mkfile("proj", [], "Xa", ["?"], [{"parts": [], "sym": "Xa"}]), mkfile("proj", [], "main", ["?"], [{"parts": [], "sym": "Xa"}], True)], 2))
    out.append(finish([mkfile("proj", [], "Xa", ["?"], [{"parts": [], "sym": "Yb"}]), mkfile("proj", [], "Yb", ["?"], [{"parts": [], "sym": "Xa"}]),
                       mkfile("proj", [], "main", ["?"], [{"parts": [], "sym": "Xa"}], True)], 3))
    out.append(finish([mkfile("proj", [], "Xa", ["?"], [{"parts": [], "sym": "main"}]), mkfile("proj", [], "main", ["?"], [{"parts": [], "sym": "Xa"}], True)], 2))
    # wildcard directory with one wrong package, and the importer inside its own wildcard
    out.append(finish([mkfile("proj", ["p"], "Xa", ["p"]), mkfile("proj", ["p"], "Yb", ["q"]), mkfile("proj", [], "main", ["?"], [{"parts": ["p"], "sym": "*"}], True)], 3))
    out.append(finish([mkfile("proj", ["p"], "Xa", ["p"], [{"parts": ["p"], "sym": "*"}]), mkfile("proj", ["p"], "Yb", ["p"]),
                       mkfile("proj", [], "main", ["?"], [{"parts": ["p"], "sym": "Xa"}], True)], 3))
    # the same file reached under two import names (one of them with the wrong package expectation), both orders
    for order in (0, 1):
        imps = [{"parts": ["a", "b"], "sym": "Zc"}, {"parts": ["a"], "sym": "Wd"}]
        if order:
            imps.reverse()
        out.append(finish([mkfile("proj", ["a", "b"], "Zc", ["a", "b"]), mkfile("proj", ["a"], "Wd", ["a"], [{"parts": ["b"], "sym": "Zc"}]),
                           mkfile("proj", [], "main", ["?"], imps, True)], 3))
    # bloch.* : search path wins over the project copy, for named imports, sub-packages and the top-level wildcard
    for parts, sym in ((["bloch"], "Xa"), (["bloch", "u"], "*"), (["bloch"], "*"), (["bloch", "u"], "Yb")):
        d = parts
        nm = "Xa" if sym in ("Xa", "*") else "Yb"
        out.append(finish([mkfile("proj", d, nm, d), mkfile("lib", d, nm, d), mkfile("proj", [], "main", ["?"], [{"parts": parts, "sym": sym}], True)], 3))
    # the entry file inside a package importing its own package wholesale (it must not be loaded a second time), with the package
    # root as working directory / as search path
    for cwd, search in (("proj", ("lib",)), ("cwd", ("proj",)), ("proj", ())):
        out.append(finish([mkfile("proj", ["p"], "Xa", ["p"]), mkfile("proj", ["p"], "main", ["p"], [{"parts": ["p"], "sym": "*"}], True)], 2, cwd, search))
        out.append(finish([mkfile("proj", ["p"], "Xa", ["p"], [{"parts": ["p"], "sym": "*"}]), mkfile("proj", ["p"], "main", ["p"], [{"parts": ["p"], "sym": "Xa"}], True)], 2, cwd, search))
    # packages whose first component merely STARTS with "bloch" are ordinary packages: the importing file's directory comes first
    for parts, sym in ((["blochx"], "Xa"), (["blochx", "u"], "*"), (["blochx"], "*"), (["blochlabs", "u"], "Yb"), (["bloc"], "Xa"), (["xbloch", "bloch"], "Yb")):
        d = parts
        nm = "Xa" if sym in ("Xa", "*") else "Yb"
        out.append(finish([mkfile("proj", d, nm, d), mkfile("lib", d, nm, d), mkfile("proj", [], "main", ["?"], [{"parts": parts, "sym": sym}], True)], 3))
        out.append(finish([mkfile("lib", d, nm, d), mkfile("cwd", d, nm, d), mkfile("proj", [], "main", ["?"], [{"parts": parts, "sym": sym}], True)], 3))
    # one file importing two modules with the same simple name from different packages: both are resolved, loaded and package-checked
    # (second one right / declaring the wrong package / missing / reached by a wildcard)
    two = [{"parts": ["a"], "sym": "Zc"}, {"parts": ["b"], "sym": "Zc"}]
    for imps in (two, list(reversed(two)), [{"parts": ["a"], "sym": "Zc"}, {"parts": ["b"], "sym": "*"}]):
        out.append(finish([mkfile("proj", ["a"], "Zc", ["a"]), mkfile("proj", ["b"], "Zc", ["b"]), mkfile("proj", [], "main", ["?"], imps, True)], 3))
        out.append(finish([mkfile("proj", ["a"], "Zc", ["a"]), mkfile("proj", ["b"], "Zc", ["c"]), mkfile("proj", [], "main", ["?"], imps, True)], 3))
        out.append(finish([mkfile("proj", ["a"], "Zc", ["a"]), mkfile("lib", ["b"], "Zc", ["b"]), mkfile("proj", [], "main", ["?"], imps, True)], 3))
        out.append(finish([mkfile("proj", ["a"], "Zc", ["a"]), mkfile("proj", [], "main", ["?"], imps, True)], 2))
    # two mains / no main
    out.append(finish([mkfile("proj", [], "Xa", ["?"], [], True), mkfile("proj", [], "main", ["?"], [{"parts": [], "sym": "Xa"}], True)], 2))
    out.append(finish([mkfile("proj", [], "Xa", ["?"]), mkfile("proj", [], "main", ["?"], [{"parts": [], "sym": "Xa"}], False)], 2))
    return out


def configs(seed, n):
    rnd = random.Random(seed)
    return structured() + [random_config(rnd) for _ in range(n)]


def materialise(cfg):
    """-> (files dict relpath -> text, entry relpath, search list, cwd rel)"""
    files = {}
    for i, f in enumerate(cfg["files"], start=1):
        rel = "/".join([f["root"]] + f["dir"] + [f["name"] + ".bloch"])
        lines = []
        if f["pkg"] != ["?"]:
            lines.append("package %s;" % ".".join(f["pkg"]))
        for imp in f["imports"]:
            lines.append("import %s;" % ".".join(imp["parts"] + [imp["sym"]]))
        lines.append("function f%d() -> void { }" % i)
        if f["main"]:
            lines.append("function main() -> void { }")
        files[rel] = "\n".join(lines) + "\n"
    for r in ROOTS:
        files.setdefault(r + "/.keep", "")
    e = cfg["files"][cfg["entry"] - 1]
    entry = "/".join([e["root"]] + e["dir"] + [e["name"] + ".bloch"])
    return files, entry, cfg["search"], cfg["cwd"]
