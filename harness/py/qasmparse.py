"""Independent, strictly syntactic reader for the OpenQASM 2.0 subset Bloch emits.
parse(text) -> (ops, problems): ops is a list of dicts {g,a,b,theta}; problems lists well-formedness
violations (header, single qreg/creg before any operation, operand range, distinct cx operands...)."""
import math
import re

_NUM = r"[-+]?(?:\d+\.?\d*(?:[eE][-+]?\d+)?|\.\d+(?:[eE][-+]?\d+)?|inf|nan)"
_Q = r"q\s*\[\s*(\d+)\s*\]"
PATTERNS = [
    ("g1", re.compile(r"^(h|x|y|z)\s+" + _Q + r"\s*;$")),
    ("rot", re.compile(r"^(rx|ry|rz)\s*\(\s*(" + _NUM + r")\s*\)\s*" + _Q + r"\s*;$")),
    ("cx", re.compile(r"^cx\s+" + _Q + r"\s*,\s*" + _Q + r"\s*;$")),
    ("measure", re.compile(r"^measure\s+" + _Q + r"\s*->\s*c\s*\[\s*(\d+)\s*\]\s*;$")),
    ("reset", re.compile(r"^reset\s+" + _Q + r"\s*;$")),
]


def parse(text):
    problems = []
    ops = []
    lines = [l.strip() for l in text.split("\n")]
    if text and not text.endswith("\n"):
        problems.append("text does not end with a newline")
    lines = [l for l in lines if l != ""]
    if len(lines) < 4:
        return ops, ["fewer than 4 lines (header, include, qreg, creg)"]
    if lines[0] != "OPENQASM 2.0;":
        problems.append("first line is not 'OPENQASM 2.0;': %r" % lines[0])
    if lines[1] != 'include "qelib1.inc";':
        problems.append("second line is not the qelib1 include: %r" % lines[1])
    m = re.match(r"^qreg\s+q\s*\[\s*(\d+)\s*\]\s*;$", lines[2])
    n = None
    if not m:
        problems.append("third line is not 'qreg q[n];': %r" % lines[2])
    else:
        n = int(m.group(1))
    m = re.match(r"^creg\s+c\s*\[\s*(\d+)\s*\]\s*;$", lines[3])
    nc = None
    if not m:
        problems.append("fourth line is not 'creg c[n];': %r" % lines[3])
    else:
        nc = int(m.group(1))
    if n is not None and nc is not None and n != nc:
        problems.append("qreg size %d != creg size %d" % (n, nc))
    for ln, l in enumerate(lines[4:], start=5):
        if l.startswith("qreg") or l.startswith("creg") or l.startswith("OPENQASM") or l.startswith("include"):
            problems.append("line %d: declaration after operations: %r" % (ln, l))
            continue
        hit = False
        for kind, pat in PATTERNS:
            m = pat.match(l)
            if not m:
                continue
            hit = True
            if kind == "g1":
                op = {"g": m.group(1), "a": int(m.group(2)), "b": -1}
            elif kind == "rot":
                th = float(m.group(2))
                if not math.isfinite(th):
                    problems.append("line %d: non-finite angle" % ln)
                op = {"g": m.group(1), "theta": th, "a": int(m.group(3)), "b": -1}
            elif kind == "cx":
                op = {"g": "cx", "a": int(m.group(1)), "b": int(m.group(2))}
                if op["a"] == op["b"]:
                    problems.append("line %d: cx on identical operands q[%d]" % (ln, op["a"]))
            elif kind == "measure":
                op = {"g": "measure", "a": int(m.group(1)), "b": -1, "c": int(m.group(2))}
                if nc is not None and op["c"] >= nc:
                    problems.append("line %d: classical index %d out of range" % (ln, op["c"]))
            else:
                op = {"g": "reset", "a": int(m.group(1)), "b": -1}
            for key in ("a", "b"):
                if n is not None and op[key] >= n:
                    problems.append("line %d: operand q[%d] out of range (qreg q[%d])" % (ln, op[key], n))
            ops.append(op)
            break
        if not hit:
            problems.append("line %d: not a well-formed statement of the subset: %r" % (ln, l))
    return {"n": n, "ops": ops}, problems
