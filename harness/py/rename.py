"""alpha-renaming of one function's / method's / constructor's local or parameter (C09), and enumeration of
top-level declaration orders (C10), over the shared JSON syntax."""
import copy
import itertools
import random


def _walk(node, fn):
    if isinstance(node, list):
        for x in node:
            _walk(x, fn)
    elif isinstance(node, dict):
        fn(node)
        for v in node.values():
            _walk(v, fn)


def bound_names(params, body):
    names = [p["n"] for p in params]

    def f(n):
        if n.get("k") == "decl":
            names.append(n["n"])
    _walk(body, f)
    return names


def used_names(body):
    names = set()

    def f(n):
        k = n.get("k")
        if k in ("var", "post", "asg", "aasg", "destroy"):
            names.add(n["n"])
        if k == "decl":
            names.add(n["n"])
        if k == "call":
            names.add(n["f"])
        if k == "mcall" and n.get("bare"):
            names.add(n["m"])
    _walk(body, f)
    return names


def rename_in(params, body, old, new):
    params = copy.deepcopy(params)
    body = copy.deepcopy(body)
    for p in params:
        if p["n"] == old:
            p["n"] = new

    def f(n):
        k = n.get("k")
        if k in ("var", "post", "asg", "aasg", "destroy", "decl") and n.get("n") == old:
            n["n"] = new
        if "size" in n and isinstance(n["size"], dict) and n["size"].get("k") == "var" and n["size"].get("n") == old:
            n["size"]["n"] = new
    _walk(body, f)
    return params, body


def units(prog):
    """every renaming unit: (path, params, body) where path locates it in the program tree"""
    out = []
    for i, f in enumerate(prog["funcs"]):
        out.append((("funcs", i), f["params"], f["body"]))
    for ci, c in enumerate(prog["classes"]):
        for mi, m in enumerate(c["methods"]):
            out.append((("classes", ci, "methods", mi), m["params"], m["body"]))
        for ki, ct in enumerate(c["ctors"]):
            if not ct.get("default"):
                out.append((("classes", ci, "ctors", ki), ct["params"], ct["body"]))
    return out


def all_names(prog):
    names = set()
    for path, params, body in units(prog):
        names.update(bound_names(params, body))
    for c in prog["classes"]:
        for f in c["fields"]:
            names.add(f["n"])
    return names


def variants(prog, rnd, limit):
    """list of (description, renamed program)"""
    pool = sorted(all_names(prog)) + ["fresh9"]
    cands = []
    for path, params, body in units(prog):
        bn = bound_names(params, body)
        used = used_names(body) | {p["n"] for p in params}
        for old in sorted(set(bn)):
            for new in pool:
                if new == old or new in used:
                    continue
                cands.append((path, old, new))
    rnd.shuffle(cands)
    out = []
    for path, old, new in cands[:limit]:
        p2 = copy.deepcopy(prog)
        node = p2
        for key in path:
            node = node[key]
        node["params"], node["body"] = rename_in(node["params"], node["body"], old, new)
        out.append(("%s: %s -> %s" % ("/".join(str(x) for x in path), old, new), p2))
    return out


def orders(prog, rnd, limit):
    """top-level declaration orders: all permutations when there are at most 4 declarations, else a sample"""
    decls = [("c", i) for i in range(len(prog["classes"]))] + [("f", i) for i in range(len(prog["funcs"]))]
    if len(decls) <= 4:
        perms = list(itertools.permutations(decls))
        rnd.shuffle(perms)
        return [list(p) for p in perms[:limit]]
    out = [list(reversed(decls))]
    # derived classes before their bases, functions before/after classes
    seen = {tuple(decls), tuple(out[0])}
    tries = 0
    while len(out) < limit and tries < limit * 10:
        tries += 1
        p = decls[:]
        rnd.shuffle(p)
        if tuple(p) not in seen:
            seen.add(tuple(p))
            out.append(p)
    return out
