"""bin/vcheck <ID> --replay <artefact>: re-executes a stored violation artefact against the current tree.
Supported artefact kinds: reference-semantics disagreements (program + reference), static-rule disagreements
(program + specification verdict), front-end inputs (input), handle-route probes (route + program).
Other kinds (graph edges, traces, CLI cases) are printed; the check itself has to be re-run for them."""
import binascii
import json

import runner
import semrun


def replay(pid, path):
    doc = json.load(open(path))
    print("artefact: %s" % path)
    print("recorded: %s" % str(doc.get("what", ""))[:600])
    if "program" in doc and isinstance(doc.get("reference"), dict) and "status" in doc["reference"]:
        job = {"id": 0, "src": doc["program"], "gc": doc.get("gc", "none")}
        if doc.get("draws"):
            job["draws"] = doc["draws"]
        res = runner.run_jobs([job], variant=doc.get("variant", "plain"))[0]
        msg = semrun.compare(doc["reference"], res)
        print("now: %s" % (msg or "interpreter agrees with the reference"))
        return 1 if msg else 0
    if "program" in doc and isinstance(doc.get("specification"), dict) and "v" in doc["specification"]:
        res = runner.run_jobs([{"id": 0, "stage": "front", "src": doc["program"]}])[0]
        impl = {"ok": "accept", "semantic": "reject"}.get(res["status"], res["status"])
        print("now: specification %s (%s), analyser %s %s" % (doc["specification"]["v"], doc["specification"].get("rule", ""), impl,
                                                              res.get("what", "").strip()))
        return 0 if impl == doc["specification"]["v"] else 1
    if "input" in doc:
        job = {"id": 0, "stage": "front", "timeout_ms": 5000}
        if doc.get("hex"):
            job["src_hex"] = doc["input"]
        else:
            job["src"] = doc["input"]
        res = runner.run_jobs([job], variant="asan")[0]
        print("now: front end ends with '%s' %s" % (res["status"], (res.get("what") or res.get("stderr", ""))[-300:].strip()))
        return 0 if res["status"] in ("ok", "lexical", "parse", "semantic") else 1
    if "program" in doc:
        res = runner.run_jobs([{"id": 0, "src": doc["program"], "gc": doc.get("gc", "none")}], variant=doc.get("variant", "plain"))[0]
        shot = (res.get("shots") or [{}])[0]
        print("now: status %s / %s, output %s %s" % (res["status"], shot.get("status"), shot.get("echo"), (shot.get("what") or res.get("what") or "").strip()))
        print("(this artefact kind carries no machine-checkable expectation; compare with 'recorded' above)")
        return 2
    print(json.dumps(doc, indent=1)[:4000])
    print("(artefact kind not re-executable by --replay: re-run the check)")
    return 2
