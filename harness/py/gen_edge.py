"""Edge-value programs for C12: every arithmetic / comparison / cast operator on the extreme int and long values
(computed, so the analyser's constant folding does not pre-empt them), division and modulo by 0 and by -1,
out-of-range and computed indices, null receivers, deep hierarchies, overloaded virtual methods declared in every
order, out-of-range literals, runtime errors raised while objects (with and without qubit fields) are alive in
0-3 frames. The value computed is NOT predicted (overflow is undocumented): only the outcome envelope applies."""
import itertools

from bsyntax import *

INT_MAX, INT_MIN = 2147483647, -2147483648
LONG_MAX, LONG_MIN = 9223372036854775807, -9223372036854775808


def raw(text):
    """an expression given as source text (for values that cannot be written as literals)"""
    return {"k": "raw", "text": text}


def programs():
    out = []
    ints = {"imax": "2147483647", "imin": "(-2147483647 - 1)", "m1": "(0 - 1)", "zero": "(1 - 1)", "one": "1", "two": "2"}
    longs = {"lmax": "9223372036854775807L", "lmin": "(-9223372036854775807L - 1L)", "lm1": "(0L - 1L)", "lzero": "(1L - 1L)", "lone": "1L"}
    ops = ["+", "-", "*", "/", "%", "<", "==", ">="]
    head = "function main() -> void {\n" + "".join("  int %s = %s;\n" % kv for kv in ints.items()) + \
           "".join("  long %s = %s;\n" % kv for kv in longs.items())
    # one program per cell: an error in one cell must not hide the others
    for table, names in (("int", list(ints)), ("long", list(longs))):
        for op in ops:
            for a, b in itertools.product(names, names):
                out.append(("edge %s %s %s %s" % (table, a, op, b), head + "  echo(%s %s %s);\n}\n" % (a, op, b)))
    # mixed widths (long op int, int op long), through variables and with the extreme operand written in place
    for op in ops:
        for a, b in list(itertools.product(longs, ints)) + list(itertools.product(ints, longs)):
            out.append(("edge mixed-width %s %s %s" % (a, op, b), head + "  echo(%s %s %s);\n}\n" % (a, op, b)))
    lit = dict(ints)
    lit.update(longs)
    for op in ("/", "%", "*", "-"):
        for a, b in (("lmin", "m1"), ("lmin", "lm1"), ("imin", "m1"), ("imin", "lm1"), ("m1", "lmin"), ("lm1", "imin"), ("lmax", "m1"), ("imin", "zero"), ("lmin", "lzero")):
            out.append(("edge in-place %s %s %s" % (a, op, b), "function main() -> void { echo(%s %s %s); long w = %s; int n = %s; echo(w %s n); echo(w %s (-1)); echo(%s %s (-1)); }\n"
                        % (lit[a], op, lit[b], longs["lmin"], ints["m1"], op, op, lit[a], op)))
    for a in list(ints) + list(longs):
        out.append(("edge neg " + a, head + "  echo(-%s);\n  echo((float)%s);\n  echo((long)%s);\n  echo((int)%s);\n  echo((bit)%s);\n}\n" % (a, a, a, a, a)))
        out.append(("edge mixed " + a, head + "  echo(%s + 0.5f);\n  echo(%s / 3);\n  echo(\"v=\" + %s);\n}\n" % (a, a, a)))
    out.append(("edge float->int", "function main() -> void { float big = 100000.0f * 100000.0f * 100000.0f; echo((int)big); echo((long)(big * big)); float z = 0.0f; float q = 1.0f / (z + 1.0f); echo(q); }\n"))
    # literals out of range
    for lit in ["99999999999", "2147483648", "9223372036854775808L", "99999999999999999999999L", "1e40f"]:
        out.append(("literal " + lit, "function main() -> void { echo(%s); }\n" % lit))
    # float literals beyond the float / double range (the language has no exponent syntax: written out in digits)
    for digits, frac in ((39, 0), (40, 0), (46, 0), (310, 0), (400, 0), (1, 46), (1, 60), (1, 330), (1, 400)):
        lit = ("4" + "0" * (digits - 1) + ".0f") if not frac else ("0." + "0" * (frac - 1) + "1f")
        out.append(("float literal %d digits %d fraction" % (digits, frac), "function main() -> void { float x = %s; echo(x); echo(x * 2.0f); }\n" % lit))
        out.append(("float literal in expression %d/%d" % (digits, frac), "function main() -> void { echo(1.0f + %s); }\n" % lit))
    out.append(("shots literal", "@shots(99999999999)\nfunction main() -> void { echo(1); }\n"))
    # indices
    arr = "function main() -> void {\n  int[] xs = {1, 2, 3};\n  int k = %s;\n  %s\n}\n"
    for k in ["(0 - 1)", "3", "2147483647", "(-2147483647 - 1)", "1000000"]:
        out.append(("index read " + k, arr % (k, "echo(xs[k]);")))
        out.append(("index write " + k, arr % (k, "xs[k] = 5; echo(xs);")))
    out.append(("long index", "function main() -> void { int[] xs = {1,2,3}; long k = 4294967296L; echo(xs[k]); }\n"))
    out.append(("array size", "function main() -> void { final int n = 0; int[n] xs; echo(xs); }\n"))
    # null receivers / fields / arguments
    cls = "class P { public int v; public P next; public constructor(int x) -> P { this.v = x; } public function get() -> int { return v; } public function chain() -> P { return next; } }\n"
    for body in ["P p = null; echo(p.v);", "P p = null; echo(p.get());", "P p = new P(1); echo(p.next.v);", "P p = new P(1); echo(p.chain().get());",
                 "P p = new P(1); p.next.v = 3;", "P p = null; destroy p; echo(1);", "P p = new P(2); destroy p; echo(p.v);",
                 "P p = new P(2); p = null; p = null; echo(p == null);"]:
        out.append(("null " + body[:30], cls + "function main() -> void { %s }\n" % body))
    # null receivers of VIRTUAL / overridden / static / inherited methods, the null held in a typed variable, field, parameter, array
    # element or returned by a function (the receiver carries a static class but no object)
    vcls = ("class Shape { public Shape peer; public constructor() -> Shape { this.peer = null; return this; } public virtual function area() -> int { return 0; } "
            "public function name() -> int { return 1; } public static function kind() -> int { return 9; } }\n"
            "class Square extends Shape { public constructor() -> Square { super(); return this; } public override function area() -> int { return 4; } }\n"
            "function pick(boolean some) -> Shape { if (some) { return new Square(); } return null; }\nfunction areaOf(Shape s) -> int { return s.area(); }\n")
    for body in ["Shape b = pick(false); echo(b.area());", "Shape b = pick(false); echo(b.name());", "echo(pick(false).area());", "Square q = null; echo(q.area());",
                 "Shape a = pick(true); echo(a.area()); echo(a.peer.area());", "echo(areaOf(null));", "Shape b = null; echo(areaOf(b));",
                 "Shape a = pick(true); a.peer = pick(false); echo(areaOf(a.peer));", "Square q = null; Shape s = q; echo(s.area());",
                 "Shape a = pick(true); a = null; echo(a.area());", "Shape b = pick(false); b.peer = b; echo(1);"]:
        out.append(("null virtual " + body[:40], vcls + "function main() -> void { %s }\n" % body))
    # element assignment whose value / index expression replaces the target field array by a shorter (or longer) one: the index is
    # checked against the array that is stored into
    scls = ("class Buf { public int[] data = {1, 2, 3, 4, 5, 6, 7, 8}; public float[] fs = {1.0f, 2.0f, 3.0f}; public constructor() -> Buf = default;\n"
            "  public function shrink() -> int { data = {7}; return 3; }\n  public function shrinkf() -> float { fs = {0.5f}; return 1.5f; }\n  public function grow() -> int { int[4000] big; data = big; return 5; }\n"
            "  public function a() -> void { data[7] = shrink(); echo(data); }\n  public function b() -> void { data[shrink()] = 1; echo(data); }\n"
            "  public function c() -> void { data[3000] = grow(); echo(data[3000]); }\n  public function d() -> void { fs[2] = shrinkf(); echo(fs); }\n"
            "  public function e() -> void { data[grow() - 5 + 7] = shrink(); echo(data); }\n}\n")
    for m in "abcde":
        out.append(("element assignment into a replaced field array " + m, scls + "function main() -> void { Buf u = new Buf(); u.%s(); echo(\"end\"); }\n" % m))
    # deep hierarchy with overloaded virtual methods, every declaration order of the overloads
    overloads = ["public virtual function f(int a) -> string { return \"%s.f(int)\"; }",
                 "public virtual function f(long a) -> string { return \"%s.f(long)\"; }",
                 "public virtual function f(string a) -> string { return \"%s.f(string)\"; }"]
    for perm in itertools.permutations(range(3)):
        src = "class L0 { public constructor() -> L0 {} %s }\n" % " ".join(overloads[i] % "L0" for i in perm)
        for d in range(1, 7):
            ov = " ".join((overloads[i] % ("L%d" % d)).replace("virtual", "virtual override") for i in perm if (d + i) % 2 == 0)
            src += "class L%d extends L%d { public constructor() -> L%d { super(); } %s }\n" % (d, d - 1, d, ov)
        src += "function main() -> void { L0 o = new L6(); echo(o.f(1)); echo(o.f(2L)); echo(o.f(\"s\")); L3 m = new L5(); echo(m.f(1)); echo(m.f(\"t\")); }\n"
        out.append(("deep hierarchy %s" % (perm,), src))
    # the same with generic classes (specialisations are built lazily by a separate code path)
    for perm in itertools.permutations(range(3)):
        src = "class G0<T> { public T t; public constructor(T x) -> G0<T> { this.t = x; } %s }\n" % " ".join(overloads[i] % "G0" for i in perm)
        for d in range(1, 4):
            ov = " ".join((overloads[i] % ("G%d" % d)).replace("virtual", "virtual override") for i in perm if (d + i) % 2 == 0)
            src += "class G%d<T> extends G%d<T> { public constructor(T x) -> G%d<T> { super(x); } %s }\n" % (d, d - 1, d, ov)
        src += ("function main() -> void { G0<int> o = new G3<int>(7); echo(o.f(1)); echo(o.f(2L)); echo(o.f(\"s\")); G1<string> m = new G2<string>(\"q\"); "
                "echo(m.f(1)); echo(m.f(\"t\")); G0<int> p = new G0<int>(1); echo(p.f(1)); echo(p.f(3L)); echo(p.f(\"u\")); echo(o.t); }\n")
        out.append(("generic hierarchy %s" % (perm,), src))
        for k in range(3):
            solo = "class S<T> { public T t; public constructor(T x) -> S<T> { this.t = x; } %s }\n" % " ".join(overloads[i] % "S" for i in perm[:k + 1])
            calls = "".join("echo(s.f(%s)); " % {0: "1", 1: "2L", 2: "\"z\""}[i] for i in perm[:k + 1])
            out.append(("generic solo %s/%d" % (perm, k), solo + "function main() -> void { S<int> s = new S<int>(3); %s S<string> u = new S<string>(\"a\"); echo(u.f(%s)); }\n"
                        % (calls, {0: "1", 1: "2L", 2: "\"z\""}[perm[0]])))
    # runtime errors while objects are alive in 0..3 frames (with and without qubit fields, with destructors)
    for qfield in (False, True):
        for dtor in (False, True):
            for depth in range(0, 4):
                for err in ("int z = 0; echo(1 % z);", "int[] a = {1}; int k = 5; echo(a[k]);", "H n = null; echo(n.v);"):
                    c = "class H { public int v = 1; %s public constructor() -> H {} %s }\n" % (
                        "public qubit q;" if qfield else "", "public destructor() -> void { echo(\"~H\"); }" if dtor else "")
                    fns = ""
                    for i in range(depth, 0, -1):
                        inner = err if i == depth else "lvl%d();" % (i + 1)
                        fns += "function lvl%d() -> void { H h%d = new H(); %s %s }\n" % (i, i, "h(h%d.q);" % i if qfield else "", inner)
                    main = "function main() -> void { H h0 = new H(); %s %s }\n" % ("measure h0.q;" if qfield else "", "lvl1();" if depth else err)
                    out.append(("error with live objects q=%s d=%s depth=%d" % (qfield, dtor, depth), c + fns + main))
    # a destructor that itself fails, and a destructor that allocates
    out.append(("failing destructor", "class D { public constructor() -> D {} public destructor() -> void { int z = 0; echo(1 / z); } }\nfunction main() -> void { { D d = new D(); } echo(\"after\"); }\n"))
    out.append(("allocating destructor", "class E { public constructor() -> E {} }\nclass D { public constructor() -> D {} public destructor() -> void { E e = new E(); echo(\"~D\"); } }\nfunction main() -> void { for (int i = 0; i < 30; i = i + 1) { D d = new D(); } echo(\"done\"); }\n"))
    # a destructor that lets 'this' escape (static field, field of a longer-lived object, array element, parameter object), the
    # reference being used after the object died: by refcount drop at scope exit, by reassignment, inside a loop under allocation
    zcls = ("class Keep { public static Z last; public static int n = 0; public Z slot; public Z[] many = {null, null}; public constructor() -> Keep = default; }\n"
            "class Z { public int v = 7; public Z other; public Keep home; public constructor() -> Z {} public function get() -> int { return v; }\n"
            "  public destructor() -> void { %s Keep.n = Keep.n + 1; } }\n")
    uses = ["echo(Keep.last.v);", "echo(Keep.last.get());", "Keep.last.v = 3; echo(Keep.last.v);", "Z a = Keep.last; Keep.last = null; echo(a == null); a = null; echo(Keep.n);",
            "Keep.last.other = new Z(); echo(Keep.n);", "for (int i = 0; i < 40; i = i + 1) { Z t = new Z(); } echo(Keep.n); echo(Keep.last.get());"]
    for use in uses:
        out.append(("destructor leaks this to a static: " + use[:40], zcls % "Keep.last = this;" + "function main() -> void { { Z z = new Z(); z.v = 9; } %s }\n" % use))
        out.append(("destructor leaks this on reassignment: " + use[:40], zcls % "Keep.last = this;" + "function main() -> void { Z z = new Z(); z = new Z(); %s }\n" % use))
    out.append(("destructor leaks this to a live object", zcls % "if (home != null) { home.slot = this; home.many[1] = this; }" +
                "function main() -> void { Keep k = new Keep(); { Z z = new Z(); z.home = k; } echo(Keep.n); echo(k.slot.v); echo(k.many[1].get()); k.slot = null; echo(Keep.n); }\n"))
    out.append(("destructor leaks this into itself", zcls % "this.other = this;" + "function main() -> void { { Z z = new Z(); } for (int i = 0; i < 40; i = i + 1) { Z t = new Z(); } echo(Keep.n); }\n"))
    # statically dispatched calls that land on a virtual method without a body (only 'super.m()' can)
    for ret, body_use in (("int", "return super.area() + this.s * this.s;"), ("int", "int v = this.s; super.area(); return v;"), ("void", "super.area(); echo(this.s);"),
                          ("string", "return \"sq\" + super.area();"), ("float", "return super.area() + 1.5f;")):
        call = "q.twice();" if ret == "void" else "echo(q.twice());"
        twice = "area(); area();" if ret == "void" else ("return area();" if ret == "string" else "return area() + area();")
        out.append(("super call of a bodyless virtual (%s)" % ret,
                    "abstract class Shape { public constructor() -> Shape = default; public virtual function area() -> %s; public function twice() -> %s { %s } }\n"
                    "class Sq extends Shape { public int s; public constructor(int s) -> Sq { super(); this.s = s; } public virtual override function area() -> %s { %s } }\n"
                    "class Sq2 extends Sq { public constructor() -> Sq2 { super(4); } public override function area() -> %s { %s } }\n"
                    "function main() -> void { Shape q = new Sq(3); %s Shape r = new Sq2(); %s }\n"
                    % (ret, ret, twice, ret, body_use, ret, body_use.replace("this.s * this.s", "1"), call, call.replace("q.", "r."))))
    # user declarations named like the built-ins, with the built-in's arity and with others: rejected by the front end or run
    # normally - never treated as the gate with the wrong number of arguments
    for gname in ("h", "x", "y", "z", "rx", "ry", "rz", "cx", "echo"):
        for params, args in (("", ""), ("int a", "1"), ("int a, int b", "1, 2"), ("qubit q", "t"), ("qubit q, float a", "t, 0.5f"), ("qubit a, qubit b", "t, u")):
            out.append(("function named %s(%s)" % (gname, params), "function %s(%s) -> int { return 26; }\nfunction main() -> void { qubit t; qubit u; int total = 0; total = total + %s(%s); echo(total); }\n"
                        % (gname, params, gname, args)))
        out.append(("method named " + gname, "class G { public constructor() -> G = default; public function %s() -> int { return 7; } public function use() -> int { return %s() + this.%s(); } }\n"
                    "function main() -> void { G g = new G(); echo(g.use()); echo(g.%s()); }\n" % (gname, gname, gname, gname)))
        out.append(("variable named " + gname, "function main() -> void { int %s = 3; echo(%s + 1); qubit t; }\n" % (gname, gname)))
    # plain classes over one to three generic layers over a plain root with initialised fields, in every declaration order of the four
    # (the layout of every class in the chain must exist before anything above it is laid out)
    chain = ["class Inventory extends Tagged<int> { public int count = 3; public constructor() -> Inventory { super(); } public function total() -> int { return count + code + id; } }\n",
             "class Tagged<T> extends Stored<T> { public T tag; public constructor() -> Tagged<T> { super(); } }\n",
             "class Stored<T> extends Record { public int code = 6; public constructor() -> Stored<T> { super(); } }\n",
             "class Record { public int id = 700; public string name = \"rec\"; public constructor() -> Record = default; public function label() -> string { return name + id; } }\n"]
    bare = ["class Inventory extends Tagged<int> { public constructor() -> Inventory { super(); } }\n",
            "class Tagged<T> extends Stored<T> { public constructor() -> Tagged<T> { super(); } }\n",
            "class Stored<T> extends Record { public constructor() -> Stored<T> { super(); } }\n",
            "class Record { public int id = 7; public int version = 9; public constructor() -> Record = default; public function stamp() -> int { return this.id * 100 + this.version; } }\n"]
    for perm in itertools.permutations(range(4)):
        out.append(("generic layers over a plain root %s" % (perm,), "".join(chain[i] for i in perm) +
                    "function main() -> void { Inventory v = new Inventory(); echo(v.total()); echo(v.label()); Stored<string> s = new Stored<string>(); echo(s.code + s.id); }\n"))
        out.append(("field-less generic layers over a plain root %s" % (perm,), "".join(bare[i] for i in perm) +
                    "function main() -> void { Inventory v = new Inventory(); echo(v.stamp()); Tagged<string> t = new Tagged<string>(); echo(t.stamp()); }\n"))
    # a generic class whose static initialiser needs a specialisation of the same class (directly, through a function, through a
    # second generic class), reached first through that specialisation and through another one
    selfs = ["class Box<T> { public static Box<int> zero = new Box<int>(0); public T v; public constructor(T x) -> Box<T> { this.v = x; } public function get() -> T { return v; } }\n",
             "function warmUp() -> int { Pool<int> p = new Pool<int>(4); return p.size; }\nclass Pool<T> { public static int warmed = warmUp(); public int size; public constructor(int n) -> Pool<T> { this.size = n; } }\n",
             "class Ping<T> { public static Pong<T> other = new Pong<T>(); public constructor() -> Ping<T> = default; }\nclass Pong<T> { public static Ping<T> back = null; public int tag = 3; public constructor() -> Pong<T> = default; }\n"]
    uses = ["Box<string> s = new Box<string>(\"a\"); echo(s.get()); Box<int> i = new Box<int>(2); echo(i.get());", "Box<int> i = new Box<int>(2); echo(i.get());",
            "Pool<int> a = new Pool<int>(1); echo(a.size); Pool<string> b = new Pool<string>(2); echo(b.size);", "Pool<string> b = new Pool<string>(2); echo(b.size);",
            "Ping<int> p = new Ping<int>(); echo(1); Pong<string> q = new Pong<string>(); echo(q.tag);"]
    for ui, use in enumerate(uses):
        out.append(("self-referential generic static %d" % ui, "".join(selfs) + "function main() -> void { %s echo(\"done\"); }\n" % use))
        out.append(("self-referential generic static %d (main first)" % ui, "function main() -> void { %s echo(\"done\"); }\n" % use + "".join(reversed(selfs))))
    # element-wise operators on bit arrays of equal and of different lengths (both ways round), literal and sized
    for op in ("&", "|", "^"):
        for la, lb in ((1, 1), (3, 3), (1, 3), (3, 1), (2, 9), (9, 2), (64, 1), (1, 64), (0, 2), (2, 0)):
            mk = lambda nm, n: ("bit[] %s = {%s};" % (nm, ", ".join("1b" if i % 2 else "0b" for i in range(n)))) if 0 < n <= 9 else "bit[%d] %s;" % (n, nm)
            out.append(("bit arrays %s lengths %d,%d" % (op, la, lb), "function main() -> void { %s %s bit[] out = a %s b; echo(out); }\n" % (mk("a", la), mk("b", lb), op)))
            out.append(("bit arrays %s lengths %d,%d in place" % (op, la, lb), "function main() -> void { %s %s a = a %s b; echo(a); echo(~a); }\n" % (mk("a", la), mk("b", lb), op)))
    # deep recursion within the documented bound
    out.append(("recursion 200", "function down(int n) -> int { if (n <= 0) { return 0; } return 1 + down(n - 1); }\nfunction main() -> void { echo(down(200)); }\n"))
    # cx on one qubit
    out.append(("cx same qubit", "function main() -> void { qubit a; cx(a, a); echo(1); }\n"))
    out.append(("cx same qubit via array", "@quantum function link(qubit a, qubit b) -> void { h(a); cx(a, b); }\nfunction main() -> void { qubit[3] r; int i = 1; int j = 1; link(r[i], r[j]); echo(2); }\n"))
    return out
