"""Shared plumbing for the bloch verification checks: build of /repo's current working tree with the
verification hooks on, TLC runs, evidence files, known findings."""
import concurrent.futures as cf
import glob
import hashlib
import json
import os
import re
import shutil
import subprocess
import sys
import tempfile
import threading
import time

_BUILD_LOCK = threading.RLock()

VERIF = os.path.dirname(os.path.dirname(os.path.dirname(os.path.abspath(__file__))))
REPO = os.environ.get("VERIF_REPO", "/repo")
BUILD = os.path.join(VERIF, ".build")
SPEC = os.path.join(VERIF, "spec")
HARNESS = os.path.join(VERIF, "harness", "cpp")
# evidence/ describes runs against /repo itself; runs against a scratch copy (VERIF_REPO, used to try the
# checks on seeded changes) write elsewhere so that committed evidence is never produced from another tree
_EVROOT = os.path.join(VERIF, "evidence") if os.path.realpath(REPO) == "/repo" else \
    os.path.join(os.environ.get("VERIF_TMP", "/tmp"), "verif-evidence-" + hashlib.sha256(REPO.encode()).hexdigest()[:8])
EVID = _EVROOT
REPLAYS = os.path.join(_EVROOT, "replays")
GUARD = "BLOCH_VERIF"
JOBS = int(os.environ.get("VERIF_JOBS", "16"))

VARIANTS = {
    "plain": ["-O1", "-g0"],
    "asan": ["-O1", "-g", "-fsanitize=address,undefined", "-fno-sanitize=signed-integer-overflow,shift", "-fno-omit-frame-pointer",
             "-fno-sanitize-recover=undefined"],
    "tsan": ["-O1", "-g", "-fsanitize=thread"],
}
CORE_SRC = [
    "bloch/compiler/import/module_loader.cpp", "bloch/compiler/lexer/lexer.cpp",
    "bloch/compiler/parser/parser.cpp", "bloch/compiler/semantics/built_ins.cpp",
    "bloch/compiler/semantics/semantic_analyser.cpp", "bloch/compiler/semantics/type_system.cpp",
    "bloch/runtime/qasm_simulator.cpp", "bloch/runtime/runtime_evaluator.cpp",
]
CLI_SRC = ["bloch/cli/cli.cpp", "bloch/update/update_manager.cpp", "bloch/http/http_client.cpp"]


class Infra(Exception):
    """Infrastructure failure (build, TLC model error, timeout of our own tools): exit 2, no VIOLATION."""


def log(*a):
    print(*a, file=sys.stderr, flush=True)


def sh(cmd, timeout=None, env=None, cwd=None, input=None, check=False):
    e = dict(os.environ)
    if env:
        e.update(env)
    p = subprocess.run(cmd, shell=isinstance(cmd, str), stdout=subprocess.PIPE, stderr=subprocess.PIPE,
                       timeout=timeout, env=e, cwd=cwd, input=input)
    if check and p.returncode != 0:
        raise Infra("command failed (%d): %s\n%s" % (p.returncode, cmd, p.stderr.decode(errors="replace")[-2000:]))
    return p


def sha(*parts):
    h = hashlib.sha256()
    for p in parts:
        h.update(p if isinstance(p, bytes) else str(p).encode())
        h.update(b"\0")
    return h.hexdigest()[:16]


def _tree_hash(root, pats):
    h = hashlib.sha256()
    files = []
    for pat in pats:
        files += glob.glob(os.path.join(root, pat), recursive=True)
    for f in sorted(set(files)):
        if os.path.isfile(f):
            h.update(f.encode())
            h.update(open(f, "rb").read())
    return h.hexdigest()[:16]


def repo_hash():
    return _tree_hash(os.path.join(REPO, "src"), ["**/*.cpp", "**/*.hpp", "**/*.h"])


def _compile(src, obj, flags):
    if os.path.exists(obj):
        return
    import threading
    tmp = obj + ".tmp%d.%d" % (os.getpid(), threading.get_ident())
    cmd = ["g++", "-std=gnu++20", "-D" + GUARD, "-I" + os.path.join(REPO, "src"), "-I" + HARNESS,
           "-Wno-error", "-w"] + flags + ["-c", src, "-o", tmp]
    p = subprocess.run(cmd, stdout=subprocess.PIPE, stderr=subprocess.PIPE)
    if p.returncode != 0:
        raise Infra("compile failed: %s\n%s" % (src, p.stderr.decode(errors="replace")[-3000:]))
    os.replace(tmp, obj)


def build_objs(variant="plain", with_cli=False, extra_defs=()):
    """Compile /repo's current sources (hooks on). Objects are cached by a hash of every source and
    header under src/ plus the flags, so an edited tree is always rebuilt."""
    flags = VARIANTS[variant] + ["-D" + d for d in extra_defs]
    key = sha(repo_hash(), variant, " ".join(flags))
    d = os.path.join(BUILD, "obj", key)
    os.makedirs(d, exist_ok=True)
    srcs = CORE_SRC + (CLI_SRC if with_cli else [])
    jobs = []
    objs = []
    for s in srcs:
        obj = os.path.join(d, s.replace("/", "_") + ".o")
        objs.append(obj)
        fl = list(flags)
        if s in CLI_SRC:
            fl += ["-DCPPHTTPLIB_OPENSSL_SUPPORT", '-DBLOCH_VERSION="verif"', '-DBLOCH_COMMIT_HASH="unknown"']
        jobs.append((os.path.join(REPO, "src", s), obj, fl))
    with cf.ThreadPoolExecutor(max_workers=JOBS) as ex:
        for f in [ex.submit(_compile, *j) for j in jobs]:
            f.result()
    _gc_build()
    return objs, key


def _gc_build(keep=6, min_age_s=6 * 3600):
    """Bound disk use: drop cache directories beyond the most recent ones - but never one used within the last hours
    (several checks, seeded-change runs and background runs share these caches; a directory is touched on every use)."""
    now = time.time()
    for sub in ("obj", "bin", "tlc"):
        root = os.path.join(BUILD, sub)
        if not os.path.isdir(root):
            continue
        try:
            ds = sorted((os.path.join(root, x) for x in os.listdir(root)), key=os.path.getmtime, reverse=True)
        except OSError:
            continue
        for old in ds[keep * 3:]:
            try:
                if now - os.path.getmtime(old) > min_age_s:
                    shutil.rmtree(old, ignore_errors=True)
            except OSError:
                pass


def cache_dir(kind, key):
    """path of a TLC-result cache directory; touching it marks it as in use"""
    d = os.path.join(BUILD, "tlc", "%s-%s" % (kind, key))
    if os.path.isdir(d):
        try:
            os.utime(d)
        except OSError:
            pass
    return d


def link(name, harness_srcs, variant="plain", with_cli=False, libs=(), extra_defs=(), repo_srcs_override=None):
    """Build harness executable `name` from harness sources + repo objects. Returns its path."""
    with _BUILD_LOCK:
        return _link(name, harness_srcs, variant, with_cli, libs, extra_defs, repo_srcs_override)


def _link(name, harness_srcs, variant="plain", with_cli=False, libs=(), extra_defs=(), repo_srcs_override=None):
    objs, key = build_objs(variant, with_cli, extra_defs)
    if repo_srcs_override is not None:
        objs = [o for o in objs if any(o.endswith(s.replace("/", "_") + ".o") for s in repo_srcs_override)]
    hs = [os.path.join(HARNESS, s) for s in harness_srcs]
    hkey = sha(key, *[open(h, "rb").read() for h in hs], *[open(x, "rb").read() for x in glob.glob(os.path.join(HARNESS, "*.hpp"))], name, " ".join(libs))
    d = os.path.join(BUILD, "bin", hkey)
    exe = os.path.join(d, name)
    if os.path.exists(exe):
        os.utime(d)
        return exe
    os.makedirs(d, exist_ok=True)
    flags = VARIANTS[variant] + ["-D" + x for x in extra_defs]
    cmd = ["g++", "-std=gnu++20", "-D" + GUARD, "-I" + os.path.join(REPO, "src"), "-I" + HARNESS, "-w"] + flags + hs + objs + \
          ["-o", exe + ".tmp", "-lpthread"] + list(libs)
    if with_cli:
        cmd += ["-lssl", "-lcrypto"]
    p = subprocess.run(cmd, stdout=subprocess.PIPE, stderr=subprocess.PIPE)
    if p.returncode != 0:
        raise Infra("link failed: %s\n%s" % (name, p.stderr.decode(errors="replace")[-3000:]))
    os.replace(exe + ".tmp", exe)
    return exe


def link_standalone(name, harness_srcs, variant="plain", defs=(), libs=()):
    """Harness that #includes repo translation units itself (no pre-built repo objects)."""
    hs = [os.path.join(HARNESS, s) for s in harness_srcs]
    flags = VARIANTS[variant] + ["-D" + d for d in defs]
    hkey = sha(repo_hash(), variant, " ".join(flags), " ".join(libs), name, *[open(h, "rb").read() for h in hs],
               *[open(x, "rb").read() for x in glob.glob(os.path.join(HARNESS, "*.hpp"))])
    d = os.path.join(BUILD, "bin", hkey)
    exe = os.path.join(d, name)
    if os.path.exists(exe):
        os.utime(d)
        return exe
    os.makedirs(d, exist_ok=True)
    cmd = ["g++", "-std=gnu++20", "-D" + GUARD, "-I" + os.path.join(REPO, "src"), "-I" + HARNESS, "-w"] + flags + hs + \
          ["-o", exe + ".tmp", "-lpthread"] + list(libs)
    p = subprocess.run(cmd, stdout=subprocess.PIPE, stderr=subprocess.PIPE)
    if p.returncode != 0:
        raise Infra("build failed: %s\n%s" % (name, p.stderr.decode(errors="replace")[-3000:]))
    os.replace(exe + ".tmp", exe)
    _gc_build()
    return exe


def build_cli(variant="plain"):
    """The real `bloch` CLI binary from the current tree with hooks on."""
    with _BUILD_LOCK:
        return _build_cli(variant)


def _build_cli(variant="plain"):
    main = os.path.join(REPO, "src", "main.cpp")
    objs, key = build_objs(variant, with_cli=True)
    d = os.path.join(BUILD, "bin", sha(key, "cli", variant))
    exe = os.path.join(d, "bloch")
    if os.path.exists(exe):
        os.utime(d)
        return exe
    os.makedirs(d, exist_ok=True)
    cmd = ["g++", "-std=gnu++20", "-D" + GUARD, "-I" + os.path.join(REPO, "src"), "-w",
           '-DBLOCH_VERSION="verif"', '-DBLOCH_COMMIT_HASH="unknown"'] + VARIANTS[variant] + [main] + objs + \
          ["-o", exe + ".tmp", "-lpthread", "-lssl", "-lcrypto"]
    p = subprocess.run(cmd, stdout=subprocess.PIPE, stderr=subprocess.PIPE)
    if p.returncode != 0:
        raise Infra("cli link failed\n" + p.stderr.decode(errors="replace")[-3000:])
    os.replace(exe + ".tmp", exe)
    return exe


# ------------------------------------------------------------------ TLC
class TlcResult:
    def __init__(self):
        self.exit = None
        self.out = ""
        self.generated = 0
        self.distinct = 0
        self.depth = 0
        self.violated = None      # name of violated invariant / property
        self.error = None         # model error text (exit 2-class)
        self.wall = 0.0
        self.coverage = {}


def scratch(prefix="bv"):
    return tempfile.mkdtemp(prefix=prefix + "-", dir=os.environ.get("VERIF_TMP", "/tmp"))


def tlc(module, cfg, env=None, workers=None, timeout=1800, extra=(), simulate=None, deadlock=True,
        java_opts=None, cwd=None, heap="8g"):
    """Run TLC on spec/<module>.tla with spec/<cfg>. Own metadir, removed afterwards."""
    md = scratch("tlcmeta")
    r = TlcResult()
    t0 = time.time()
    try:
        cmd = ["java", "-Xmx" + heap, "-Xss128m", "-XX:+UseParallelGC"]
        if java_opts:
            cmd += java_opts
        cmd += ["-cp", "/opt/veriftools/tla/tla2tools.jar:/opt/veriftools/tla/CommunityModules-deps.jar",
                "tlc2.TLC", "-noGenerateSpecTE", "-metadir", md, "-workers", str(workers or JOBS), "-config", cfg]
        if not deadlock:
            cmd += ["-deadlock"]
        if simulate:
            cmd += ["-simulate", simulate]
        cmd += list(extra) + [module]
        try:
            p = sh(cmd, timeout=timeout, env=env, cwd=cwd or SPEC)
        except subprocess.TimeoutExpired:
            raise Infra("TLC timed out after %ss: %s %s" % (timeout, module, cfg))
        r.exit = p.returncode
        r.out = p.stdout.decode(errors="replace") + p.stderr.decode(errors="replace")
    finally:
        shutil.rmtree(md, ignore_errors=True)
    r.wall = time.time() - t0
    m = re.search(r"(\d[\d,]*) states generated, (\d[\d,]*) distinct states found", r.out)
    if m:
        r.generated = int(m.group(1).replace(",", ""))
        r.distinct = int(m.group(2).replace(",", ""))
    m = re.search(r"depth of the complete state graph search is (\d+)", r.out)
    if m:
        r.depth = int(m.group(1))
    m = re.search(r"Invariant (\S+) is violated", r.out)
    if m:
        r.violated = m.group(1)
    m = re.search(r"(Temporal properties were violated|Action property \S+ is violated|Assumption .* is false|property (\S+) is violated)", r.out)
    if m and not r.violated:
        r.violated = m.group(0)
    if r.exit not in (0, 12, 13) and not r.violated:
        r.error = r.out[-3000:]
    return r


def tlc_ok(r, what):
    """A spec-level failure is an infrastructure error of the *specification*, never a VIOLATION."""
    if r.error or r.violated:
        raise Infra("TLC %s: %s\n%s" % (what, r.violated or "model error", r.out[-3000:]))


def spec_hash(*files):
    return sha(*[open(os.path.join(SPEC, f), "rb").read() for f in files])


# ------------------------------------------------------------------ evidence / findings
def write_evidence(pid, tier, seed, level, coverage, assumptions, wall_s, violations):
    os.makedirs(EVID, exist_ok=True)
    # the keys /root/.vp/EVIDENCE.schema.json requires per level (a file that does not validate is no evidence)
    if level in ("exploration", "fault_enumeration"):
        need = ("evaluations", "distinct_nontrivial", "rule", "samples")
    elif level == "model_checking":
        need = ("states", "transitions", "traces_validated_against_impl", "samples")
    else:
        need = ()
    missing = [k for k in need if k not in coverage or coverage[k] is None]
    if missing:
        raise Infra("evidence for %s (%s) lacks %s" % (pid, level, missing))
    doc = {"property_id": pid, "tier": tier, "seed": int(seed), "level": level, "coverage": coverage,
           "assumptions": assumptions, "wall_s": round(wall_s, 2), "violations": int(violations),
           "repo_hash": repo_hash(), "repo": REPO}
    path = os.path.join(EVID, pid + ".json")
    with open(path + ".tmp", "w") as f:
        json.dump(doc, f, indent=1, sort_keys=False)
        f.write("\n")
    os.replace(path + ".tmp", path)
    return path


def load_findings():
    """known_findings.txt, committed, never written at run time. Line formats:
         fixed: property=<id> <commit> <what failed>
         known: property=<id> id=<slug> <what fails>   ## <json signature used by the check to match it>
    """
    path = os.path.join(VERIF, "known_findings.txt")
    out = []
    if os.path.exists(path):
        for l in open(path):
            l = l.strip()
            if not l or l.startswith("#"):
                continue
            m = re.match(r"fixed: property=(\S+) (\S+) (.*)$", l)
            if m:
                out.append({"status": "fixed", "property": m.group(1), "commit": m.group(2), "what": m.group(3)})
                continue
            m = re.match(r"known: property=(\S+) id=(\S+) (.*?)(?:\s+## (\{.*\}))?$", l)
            if m:
                out.append({"status": "known", "property": m.group(1), "id": m.group(2), "what": m.group(3),
                            "sig": json.loads(m.group(4)) if m.group(4) else {}})
    return out


def known_for(pid):
    return [f for f in load_findings() if f.get("property") == pid and f.get("status") == "known"]


def save_replay(pid, name, doc):
    os.makedirs(REPLAYS, exist_ok=True)
    path = os.path.join(REPLAYS, "%s-%s.json" % (pid, name))
    with open(path, "w") as f:
        json.dump(doc, f, indent=1)
        f.write("\n")
    return path


class Outcome:
    """Collects violations / known findings for one check run and produces the exit status."""

    def __init__(self, pid):
        self.pid = pid
        self.violations = []   # (what, replay_path)
        self.known_hits = {}   # finding id -> what

    def violation(self, what, replay_doc, name=None):
        name = name or str(len(self.violations))
        path = save_replay(self.pid, name, replay_doc)
        self.violations.append((what, path))

    def known(self, finding, what=None):
        self.known_hits[finding["id"]] = what or finding.get("what", "")

    def finish(self):
        for fid, what in self.known_hits.items():
            print("KNOWN-FINDING: property=%s %s [%s]" % (self.pid, what, fid))
        for what, path in self.violations[:20]:
            print("VIOLATION property=%s replay=%s" % (self.pid, path))
            log("  ", what)
        return 1 if self.violations else 0
