"""Runs the TLA+ reference semantics (BlochSem via TLC) and the real interpreter on the same programs and
compares echo output / status."""
import json
import os
import re
import shutil

import bsyntax
import runner
import vlib

ERRMSG = {"div0": "division by zero", "mod0": "modulo by zero", "oob": "out of bounds", "null": "null reference",
          "bitlen": "same length", "arrlen": "length does not match", "arrneg": "non-negative"}


def tlc_oracle(progs, parts=8, timeout=3000):
    """progs: list of (id, prog-tree). Returns {id: {"out": [...], "status": ...}}"""
    tmp = vlib.scratch("sem")
    try:
        res = {}
        import concurrent.futures as cf

        def one(k):
            sub = progs[k::parts]
            if not sub:
                return {}
            cf_ = os.path.join(tmp, "cases%d.ndjson" % k)
            of = os.path.join(tmp, "out%d.ndjson" % k)
            with open(cf_, "w") as f:
                for pid, p in sub:
                    f.write(json.dumps({"id": pid, "prog": bsyntax.to_tlc(p)}) + "\n")
            open(of, "w").close()
            r = vlib.tlc("MCBlochSem.tla", os.path.join(vlib.SPEC, "MCBlochSem.cfg"), env={"SEM_CASES": cf_, "SEM_OUT": of},
                         workers=max(2, vlib.JOBS // parts), timeout=timeout, heap="4g")
            vlib.tlc_ok(r, "MCBlochSem part %d" % k)
            out = {}
            for l in open(of):
                d = json.loads(l)
                out[d["id"]] = d
            if len(out) != len(sub):
                raise vlib.Infra("oracle produced %d results for %d programs" % (len(out), len(sub)))
            return out
        with cf.ThreadPoolExecutor(max_workers=parts) as ex:
            for d in ex.map(one, range(parts)):
                res.update(d)
        return res
    finally:
        shutil.rmtree(tmp, ignore_errors=True)


_F = re.compile(r"<F:(-?\d+)/(\d+)>")
_NUM = r"[-+]?(?:\d+\.?\d*(?:[eE][-+]?\d+)?|inf|nan)"


def line_matches(expected, actual):
    """expected may contain <F:n/d> markers for floats: compare those numerically (6 significant digits)."""
    if "<F:" not in expected:
        return expected == actual
    parts = _F.split(expected)     # literal, n, d, literal, n, d, ...
    pat = ""
    vals = []
    i = 0
    while i < len(parts):
        pat += re.escape(parts[i])
        if i + 2 < len(parts):
            pat += "(" + _NUM + ")"
            vals.append(int(parts[i + 1]) / int(parts[i + 2]))
        i += 3
    m = re.fullmatch(pat, actual)
    if not m:
        return False
    for g, v in zip(m.groups(), vals):
        try:
            a = float(g)
        except ValueError:
            return False
        if abs(a - v) > 1e-5 * max(1.0, abs(v)):
            return False
        # a whole-number float echoed on its own prints with a trailing .0; the format of float elements inside
        # an array listing is not documented
        if v == int(v) and abs(v) < 1e6 and "." not in g and "e" not in g.lower() and not expected.startswith("{"):
            return False
    return True


def _parse_groups(lines):
    """reference output -> list of items: ("line", text) | ("group", [chunk, ...]) with chunk = list of lines"""
    items = []
    i = 0
    n = len(lines)
    while i < n:
        l = lines[i]
        if l == "<<scope":
            depth = 1
            chunks = []
            i += 1
            while i < n and depth > 0:
                l = lines[i]
                if l == "<<scope":
                    depth += 1
                elif l == ">>scope":
                    depth -= 1
                elif l == "<<obj":
                    if depth == 1:
                        chunks.append([])
                elif chunks:
                    chunks[-1].append(l)
                else:
                    chunks.append([l])
                i += 1
            items.append(("group", chunks))
        elif l in ("<<obj", ">>scope"):
            i += 1
        else:
            items.append(("line", l))
            i += 1
    return items


def _match_group(chunks, got, pos):
    """can got[pos:] start with some permutation of chunks? returns new pos or None"""
    if not chunks:
        return pos
    for k, ch in enumerate(chunks):
        if pos + len(ch) <= len(got) and all(line_matches(e, g) for e, g in zip(ch, got[pos:pos + len(ch)])):
            r = _match_group(chunks[:k] + chunks[k + 1:], got, pos + len(ch))
            if r is not None:
                return r
    return None


def match_output(expected, got):
    pos = 0
    for kind, val in _parse_groups(expected):
        if kind == "line":
            if pos >= len(got):
                return "interpreter output ends after %d lines, reference continues with %r" % (len(got), val)
            if not line_matches(val, got[pos]):
                return "echo #%d: reference %r, interpreter %r" % (pos + 1, val, got[pos])
            pos += 1
        else:
            r = _match_group(val, got, pos)
            if r is None:
                return "echo #%d..: destructor output at a scope exit matches no order of the dying objects %s; interpreter continues %s" % (pos + 1, val, got[pos:pos + 8])
            pos = r
    if pos != len(got):
        return "interpreter prints %d extra lines: %s" % (len(got) - pos, got[pos:pos + 6])
    return None


def compare(exp, res):
    """exp: oracle record, res: prog_runner result. Returns None if they agree, else a message."""
    if exp["status"] == "undef":
        return None
    if res["status"] == "crash":
        return "interpreter crashed (rc=%s): %s" % (res.get("rc"), res.get("stderr", "")[-300:])
    if res["status"] in ("lexical", "parse", "semantic"):
        return "program rejected by the front end (%s): %s" % (res["status"], res.get("what", "").strip())
    if res["status"] in ("other", "timeout", "terminate", "generic"):
        return "abnormal end: %s %s" % (res["status"], res.get("what", ""))
    shot = res["shots"][0]
    if exp["status"] == "ok":
        if shot["status"] != "ok":
            return "reference: runs to completion printing %s; interpreter: %s %s" % (exp["out"], shot["status"], shot.get("what", "").strip())
        got = shot["echo"]
        err = match_output(exp["out"], got)
        if err:
            return err + " (reference %s, interpreter %s)" % (exp["out"], got)
        return None
    kind = exp["status"][4:]
    if shot["status"] != "runtime":
        return "reference: runtime error (%s); interpreter: %s, output %s" % (kind, shot["status"], shot.get("echo"))
    if ERRMSG.get(kind, kind) not in shot.get("what", ""):
        return "reference: runtime error %s; interpreter: %s" % (kind, shot.get("what", "").strip())
    return None


def run_and_compare(progs, render_opts=None, gc="none", variant="plain", also_minimal=False):
    """progs: list of (id, tree). Returns (oracle, results, disagreements{id: msg})"""
    oracle = tlc_oracle(progs)
    jobs = [{"id": pid, "src": bsyntax.render(p, **(render_opts or {})), "gc": gc} for pid, p in progs]
    # second rendering with only the parentheses the precedence table requires (same tree, same reference)
    njobs = len(jobs)
    if also_minimal:
        for k in range(njobs):
            m = bsyntax.render(progs[k][1], minimal=True, **(render_opts or {}))
            if m != jobs[k]["src"]:
                jobs.append({"id": "min:%s" % (progs[k][0],), "src": m, "gc": gc})
    res = runner.run_jobs(jobs, variant=variant)
    bad = {}
    for pid, p in progs:
        m = compare(oracle[pid], res[pid])
        if not m and ("min:%s" % (pid,)) in res:
            m = compare(oracle[pid], res["min:%s" % (pid,)])
            if m:
                m = "[minimal parentheses] " + m
                res[pid] = res["min:%s" % (pid,)]
                MINIMAL_BAD.add(pid)
        if m:
            bad[pid] = m
    return oracle, res, bad


MINIMAL_BAD = set()
