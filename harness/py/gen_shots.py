"""Template programs for C17: every tracked-variable pattern with a deterministic per-shot record list
(x gates instead of h, so no draws are needed and the records are known from the template itself):
a local; a loop-body local (k exits per shot); a local of a helper called j times; a qubit[2] with
both / one / no element measured; measured-then-reset; re-measured after reset; tracked fields of an object that
dies by scope exit, by destroy, at the end of main; multi-declaration `@tracked qubit a, b;`."""


def templates():
    out = []
    # (name, body of main + helpers, per-shot records [(key, outcome)...], echo lines per shot)
    out.append(("local measured 1", "function main() -> void {\n  @tracked qubit q;\n  x(q);\n  measure q;\n  echo(\"m\");\n}\n",
                [("qubit q", "1")], 1))
    out.append(("local unmeasured", "function main() -> void {\n  @tracked qubit q;\n  x(q);\n  echo(\"m\");\n  echo(\"n\");\n}\n",
                [("qubit q", "?")], 2))
    out.append(("measured then reset", "function main() -> void {\n  @tracked qubit q;\n  x(q);\n  measure q;\n  reset q;\n}\n",
                [("qubit q", "?")], 0))
    out.append(("re-measured after reset", "function main() -> void {\n  @tracked qubit q;\n  x(q);\n  measure q;\n  reset q;\n  measure q;\n  echo(1);\n}\n",
                [("qubit q", "0")], 1))
    # a tracked variable re-bound by a whole-variable assignment still contributes one outcome per scope exit: that of the
    # qubit(s) it denotes at that moment (assignment copies the opaque handle)
    out.append(("local re-bound by assignment", "function main() -> void {\n  @tracked qubit q;\n  qubit p;\n  x(p);\n  measure p;\n  q = p;\n  echo(\"m\");\n}\n",
                [("qubit q", "1")], 1))
    out.append(("register re-bound by assignment", "function main() -> void {\n  @tracked qubit[2] r;\n  qubit[2] s;\n  x(s[1]);\n  measure s;\n  r = s;\n}\n",
                [("qubit[] r", "01")], 0))
    out.append(("re-bound inside a loop body", "function main() -> void {\n  qubit p;\n  x(p);\n  measure p;\n  for (int i = 0; i < 2; i = i + 1) {\n    @tracked qubit q;\n    if (i == 1) { q = p; }\n  }\n}\n",
                [("qubit q", "?"), ("qubit q", "1")], 0))
    for k in (1, 2, 3):
        out.append(("loop body local x%d" % k,
                    "function main() -> void {\n  for (int i = 0; i < %d; i = i + 1) {\n    @tracked qubit q;\n    if (i %% 2 == 1) { x(q); }\n    measure q;\n  }\n  echo(\"done\");\n}\n" % k,
                    [("qubit q", str(i % 2)) for i in range(k)], 1))
    for j in (1, 2, 3):
        calls = "".join("  probe(%d);\n" % (i % 2) for i in range(j))
        out.append(("helper local x%d" % j,
                    "function probe(int f) -> void {\n  @tracked qubit h0;\n  if (f == 1) { x(h0); }\n  measure h0;\n}\nfunction main() -> void {\n%s}\n" % calls,
                    [("qubit h0", str(i % 2)) for i in range(j)], 0))
    # helpers written below main (forward calls are legal): the annotation on main still counts
    out.append(("helper below main", "function main() -> void {\n  probe(1);\n  probe(0);\n  echo(\"m\");\n}\nfunction probe(int f) -> void {\n  @tracked qubit h0;\n  if (f == 1) { x(h0); }\n  measure h0;\n}\n"
                "function unused(int z) -> int {\n  return z;\n}\n", [("qubit h0", "1"), ("qubit h0", "0")], 1))
    out.append(("class and helper below main", "function main() -> void {\n  @tracked qubit q;\n  x(q);\n  measure q;\n  echo(twice(2));\n}\nfunction twice(int z) -> int {\n  return z * 2;\n}\n"
                "class After { public constructor() -> After = default; }\n", [("qubit q", "1")], 1))
    out.append(("array both", "function main() -> void {\n  @tracked qubit[2] r;\n  x(r[1]);\n  measure r[0];\n  measure r[1];\n}\n", [("qubit[] r", "01")], 0))
    out.append(("array whole", "function main() -> void {\n  @tracked qubit[2] r;\n  x(r[0]);\n  measure r;\n}\n", [("qubit[] r", "10")], 0))
    out.append(("array one", "function main() -> void {\n  @tracked qubit[2] r;\n  x(r[1]);\n  measure r[1];\n}\n", [("qubit[] r", "?")], 0))
    out.append(("array none", "function main() -> void {\n  @tracked qubit[2] r;\n  echo(\"z\");\n}\n", [("qubit[] r", "?")], 1))
    out.append(("array after ancilla", "function main() -> void {\n  @tracked qubit anc;\n  @tracked qubit[2] r;\n  x(anc);\n  bit a = measure anc;\n  x(r[1]);\n  measure r;\n}\n",
                [("qubit anc", "1"), ("qubit[] r", "01")], 0))
    cls = "class Probe {\n  @tracked public qubit q;\n  public constructor() -> Probe = default;\n}\n"
    out.append(("field scope exit", cls + "function main() -> void {\n  {\n    Probe p = new Probe();\n    x(p.q);\n    measure p.q;\n  }\n  echo(\"after\");\n}\n",
                [("Probe.q", "1")], 1))
    out.append(("field destroy", cls + "function main() -> void {\n  Probe p = new Probe();\n  measure p.q;\n  destroy p;\n  echo(\"after\");\n}\n", [("Probe.q", "0")], 1))
    out.append(("field end of main", cls + "function main() -> void {\n  Probe p = new Probe();\n  x(p.q);\n}\n", [("Probe.q", "?")], 0))
    out.append(("field objects x3", cls + "function main() -> void {\n  for (int i = 0; i < 3; i = i + 1) {\n    Probe p = new Probe();\n    if (i == 2) { x(p.q); }\n    measure p.q;\n  }\n}\n",
                [("Probe.q", "0"), ("Probe.q", "0"), ("Probe.q", "1")], 0))
    out.append(("recycled slot unmeasured", cls + "function main() -> void {\n  {\n    Probe p = new Probe();\n    x(p.q);\n    measure p.q;\n  }\n  Probe z = new Probe();\n  @tracked qubit[2] w;\n}\n",
                [("Probe.q", "1"), ("Probe.q", "?"), ("qubit[] w", "?")], 0))
    out.append(("multi declaration", "function main() -> void {\n  @tracked qubit a, b;\n  x(b);\n  measure a;\n  measure b;\n}\n",
                [("qubit a", "0"), ("qubit b", "1")], 0))
    out.append(("two variables mixed", "function main() -> void {\n  @tracked qubit a;\n  {\n    @tracked qubit c;\n    x(c);\n    measure c;\n  }\n  measure a;\n  echo(\"e\");\n}\n",
                [("qubit c", "1"), ("qubit a", "0")], 1))
    # measurements made inside the argument of echo (their side effects must not depend on whether echo output is shown)
    out.append(("echo of a measurement", "function main() -> void {\n  @tracked qubit q;\n  x(q);\n  echo(measure q);\n}\n", [("qubit q", "1")], 1))
    out.append(("echo of measuring calls",
                "function readout(qubit t) -> bit {\n  bit b = measure t;\n  return b;\n}\nfunction main() -> void {\n  @tracked qubit[2] r;\n  x(r[0]);\n"
                "  echo(\"r0=\" + readout(r[0]));\n  echo(readout(r[1]));\n}\n", [("qubit[] r", "10")], 2))
    out.append(("echo of a measuring method", cls.replace("public constructor() -> Probe = default;",
                                                        "public constructor() -> Probe = default;\n  public function read() -> bit {\n    bit b = measure q;\n    return b;\n  }")
                + "function main() -> void {\n  {\n    Probe p = new Probe();\n    x(p.q);\n    echo(\"p=\" + p.read());\n  }\n}\n", [("Probe.q", "1")], 1))
    # tracked fields of generic classes and of classes deriving from a generic instantiation
    gcls = ("class Cell<T> {\n  @tracked public qubit q;\n  public T v;\n  public constructor(T x) -> Cell<T> {\n    this.v = x;\n  }\n}\n"
            "class Probe2 extends Cell<int> {\n  public constructor() -> Probe2 {\n    super(3);\n  }\n}\n")
    out.append(("generic tracked fields", gcls + "function main() -> void {\n  {\n    Cell<int> c = new Cell<int>(1);\n    x(c.q);\n    measure c.q;\n  }\n"
                "  {\n    Cell<float> d = new Cell<float>(1.5f);\n    measure d.q;\n  }\n  {\n    Probe2 p = new Probe2();\n    x(p.q);\n    measure p.q;\n  }\n"
                "  Cell<int> last = new Cell<int>(2);\n  echo(\"g\");\n}\n",
                [("Cell<int>.q", "1"), ("Cell<float>.q", "0"), ("Probe2.q", "1"), ("Cell<int>.q", "?")], 1))
    # owners of tracked fields that become garbage inside a reference cycle: they are reclaimed by the cycle collector (at the
    # latest by the collection at the end of the run), not by reference counting - still one outcome per owner that ends.
    # Variants: only a register field, only a scalar field, both fields merely inherited from a base class.
    link = "class Link {\n  public Probe owner;\n  public constructor() -> Link { }\n}\n"
    once = ("function once(int f) -> void {\n  Probe p = new Probe();\n  Link l = new Link();\n  p.link = l;\n  l.owner = p;\n  p.fire(f);\n}\n"
            "function main() -> void {\n  once(1);\n  once(0);\n  echo(\"c\");\n}\n")
    out.append(("garbage cycle register owner", "class Probe {\n  public Link link;\n  @tracked public qubit[2] r;\n  public constructor() -> Probe { }\n"
                "  public function fire(int f) -> void {\n    if (f == 1) { x(r[0]); }\n    measure r;\n  }\n}\n" + link + once,
                [("Probe.r", "10"), ("Probe.r", "00")], 1))
    out.append(("garbage cycle scalar owner", "class Probe {\n  public Link link;\n  @tracked public qubit q;\n  public constructor() -> Probe { }\n"
                "  public function fire(int f) -> void {\n    if (f == 1) { x(q); }\n    measure q;\n  }\n}\n" + link + once,
                [("Probe.q", "1"), ("Probe.q", "0")], 1))
    out.append(("garbage cycle inherited fields", "class Base {\n  @tracked public qubit[2] r;\n  @tracked public qubit q;\n  public constructor() -> Base { }\n}\n"
                "class Probe extends Base {\n  public Link link;\n  public constructor() -> Probe { super(); }\n"
                "  public function fire(int f) -> void {\n    if (f == 1) { x(r[0]); x(q); }\n    measure r;\n    measure q;\n  }\n}\n" + link + once,
                [("Probe.r", "10"), ("Probe.q", "1"), ("Probe.r", "00"), ("Probe.q", "0")], 1))
    return out


def conditional_templates():
    """tracked declarations in scopes whose execution depends on a measurement: the records of a shot depend on its coin, so a
    variable's total over N shots is in general NOT a multiple of N. Every shot consumes the same number of draws whatever its
    coin (the branch not taken measures a scratch qubit instead), so a flat draw list addresses the coins.
    (name, source, records by coin, echo lines per shot, draws per shot)"""
    out = []
    out.append(("conditional local", "function main() -> void {\n  qubit c; h(c); bit b = measure c;\n"
                "  if (b == 1b) { @tracked qubit r; x(r); measure r; } else { qubit s; measure s; }\n  echo(b);\n}\n",
                {0: [], 1: [("qubit r", "1")]}, 1, 2))
    out.append(("conditional local inside a loop", "function main() -> void {\n  qubit c; h(c); bit b = measure c;\n  for (int i = 0; i < 3; i = i + 1) {\n"
                "    if (b == 1b || i == 0) { @tracked qubit r; if (i == 1) { x(r); } measure r; } else { qubit s; measure s; }\n  }\n"
                "  @tracked qubit always; measure always;\n  echo(b);\n}\n",
                {0: [("qubit r", "0"), ("qubit always", "0")], 1: [("qubit r", "0"), ("qubit r", "1"), ("qubit r", "0"), ("qubit always", "0")]}, 1, 5))
    out.append(("conditional helper", "function probe(int f) -> void {\n  @tracked qubit[2] h0;\n  if (f == 1) { x(h0[1]); }\n  measure h0;\n}\n"
                "function main() -> void {\n  qubit c; h(c); bit b = measure c;\n  if (b == 1b) { probe(1); } else { qubit s; measure s; qubit t; measure t; }\n  probe(0);\n  echo(b);\n}\n",
                {0: [("qubit[] h0", "00")], 1: [("qubit[] h0", "01"), ("qubit[] h0", "00")]}, 1, 5))
    return out


def configs(tier):
    shots = [0, 1, 2, 3, 7] if tier == "quick" else [0, 1, 2, 3, 7, 10]
    out = []
    for flag in shots:
        for ann in shots:
            for echo in ("unset", "auto", "all", "none"):
                n = ann or flag or 1
                if echo == "none" and n == 1:
                    continue      # the property does not say what --echo=none means for a single shot
                out.append((flag, ann, echo))
    return out


def with_annotation(src, ann):
    if not ann:
        return src
    return src.replace("function main()", "@shots(%d)\nfunction main()" % ann)
