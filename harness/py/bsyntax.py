"""Shared abstract syntax of Bloch programs (JSON trees) used by every layer:
   - TLC reads it (spec/BlochSem.tla, BlochStatic.tla) through ndJsonDeserialize,
   - render() turns it into Bloch source text for the real interpreter,
   - the generators (gen_*.py) build it.
Constructors below return plain dicts; every optional slot is always present ({"k":"none"} / [] / "")
because TLC records cannot have missing fields probed safely."""
import copy
import json

NONE = {"k": "none"}


# ------------------------------------------------------------------ types
def P(p):
    return {"p": p}


def A(elem, size=None):
    """array type; size: None (dynamic), int, or a variable name (final int)"""
    if size is None:
        sz = NONE
    elif isinstance(size, int):
        sz = {"k": "int", "v": size}
    else:
        sz = {"k": "var", "n": size}
    return {"arr": elem, "size": sz}


def C(name, targs=None):
    return {"cls": name, "targs": targs or []}


VOID = {"p": "void"}


# ------------------------------------------------------------------ expressions
def I(v): return {"k": "int", "v": v}
def L(v):
    """long literal; values beyond 30 bits are carried as base-10^4 limbs for the TLC oracle"""
    if abs(v) < 2 ** 30:
        return {"k": "long", "v": v}
    m, limbs = abs(v), []
    while m:
        limbs.append(m % 10000)
        m //= 10000
    return {"k": "long", "w": limbs, "neg": v < 0, "text": str(abs(v))}
def F(n, d=1): return {"k": "float", "n": n, "d": d}
def Bit(v): return {"k": "bit", "v": v}
def Bool(v): return {"k": "bool", "v": bool(v)}
def S(v): return {"k": "str", "v": v}
def Ch(v): return {"k": "char", "v": v}
def Null(): return {"k": "null"}
def This(): return {"k": "this"}
def Var(n): return {"k": "var", "n": n}
def Bin(op, l, r): return {"k": "bin", "op": op, "l": l, "r": r}
def Un(op, e): return {"k": "un", "op": op, "e": e}
def Post(op, n): return {"k": "post", "op": op, "n": n}
def Cast(t, e): return {"k": "cast", "t": t, "e": e}
def Call(f, *a): return {"k": "call", "f": f, "a": list(a)}
def Idx(a, i): return {"k": "idx", "a": a, "i": i}
def Arr(et, es): return {"k": "arr", "et": et, "es": list(es)}
def Asg(n, e): return {"k": "asg", "n": n, "e": e}
def AAsg(n, i, e): return {"k": "aasg", "n": n, "i": i, "e": e}
def New(c, *a, targs=None, diamond=False): return {"k": "new", "c": c, "a": list(a), "targs": targs or [], "diamond": diamond}
def Fld(o, f): return {"k": "fld", "o": o, "f": f}
def SFld(c, f): return {"k": "sfld", "c": c, "f": f}
def FAsg(o, f, e): return {"k": "fasg", "o": o, "f": f, "e": e}
def SFAsg(c, f, e): return {"k": "sfasg", "c": c, "f": f, "e": e}
def MCall(o, m, *a, bare=False): return {"k": "mcall", "o": o, "m": m, "a": list(a), "bare": bare}
def SCall(c, m, *a): return {"k": "scall", "c": c, "m": m, "a": list(a)}
def SuperCall(m, *a): return {"k": "supercall", "m": m, "a": list(a)}
def Paren(e): return {"k": "paren", "e": e}


# ------------------------------------------------------------------ statements
def Decl(t, n, init=None, final=False): return {"k": "decl", "t": t, "n": n, "init": init if init is not None else NONE, "final": final}
def Expr(e): return {"k": "expr", "e": e}
def Echo(e): return {"k": "echo", "e": e}
def If(c, t, e=None): return {"k": "if", "c": c, "t": list(t), "e": list(e or [])}
def Tern(c, t, e): return {"k": "tern", "c": c, "t": t, "e": e}
def While(c, b): return {"k": "while", "c": c, "b": list(b)}
def For(init, c, upd, b): return {"k": "for", "init": init or NONE, "c": c or NONE, "upd": upd or NONE, "b": list(b)}
def Block(b): return {"k": "block", "b": list(b)}
def Ret(e=None): return {"k": "ret", "e": e if e is not None else NONE}
def Destroy(n): return {"k": "destroy", "n": n}
def Super(*a): return {"k": "super", "a": list(a)}


def Param(t, n): return {"t": t, "n": n}


def Func(name, params, ret, body, quantum=False):
    return {"name": name, "params": list(params), "ret": ret, "body": list(body), "quantum": quantum}


def Field(t, n, init=None, static=False, final=False, vis="public"):
    return {"t": t, "n": n, "init": init if init is not None else NONE, "static": static, "final": final, "vis": vis}


def Method(name, params, ret, body, static=False, virtual=False, override=False, vis="public"):
    return {"name": name, "params": list(params), "ret": ret, "body": list(body), "static": static,
            "virtual": virtual, "override": override, "vis": vis}


def Ctor(params, body, default=False, vis="public"):
    return {"params": list(params), "body": list(body), "default": default, "vis": vis}


def Class(name, base="", fields=(), methods=(), ctors=(), dtor=(), tparams=(), base_targs=(), static=False, abstract=False):
    return {"name": name, "base": base, "fields": list(fields), "methods": list(methods), "ctors": list(ctors),
            "dtor": list(dtor), "tparams": list(tparams), "base_targs": list(base_targs), "static": static, "abstract": abstract}


def Program(funcs, classes=()):
    return {"funcs": list(funcs), "classes": list(classes)}


# ------------------------------------------------------------------ rendering
PRIM = {"int": "int", "long": "long", "float": "float", "bit": "bit", "bool": "boolean", "str": "string", "char": "char",
        "void": "void", "qubit": "qubit"}


def rtype(t):
    if "p" in t:
        return PRIM.get(t["p"], t["p"])       # a type parameter name renders as itself
    if "arr" in t:
        sz = t["size"]
        inner = PRIM.get(t["arr"], t["arr"])
        if sz["k"] == "none":
            return inner + "[]"
        return "%s[%s]" % (inner, sz["v"] if sz["k"] == "int" else sz["n"])
    name = t["cls"]
    if t.get("targs"):
        name += "<" + ", ".join(rtype(a) for a in t["targs"]) + ">"
    return name


def rfloat(n, d):
    v = n / d
    s = repr(float(v))
    if "e" in s or "E" in s:
        s = "%.10f" % v
    return s + "f"


ASG_KINDS = ("asg", "aasg", "fasg", "sfasg")


# minimal-parentheses mode: inside a tree of binary operators only the parentheses the documented precedence table
# (spec/Grammar.tla Level: || 1, && 2, | 3, ^ 4, & 5, ==/!= 6, relational 7, +/- 8, */% 9; all left-associative) requires
MINIMAL = [False]
BIN_LEVEL = {"||": 1, "&&": 2, "|": 3, "^": 4, "&": 5, "==": 6, "!=": 6, "<": 7, ">": 7, "<=": 7, ">=": 7,
             "+": 8, "-": 8, "*": 9, "/": 9, "%": 9}


def rbin_min(e, need):
    if e["k"] != "bin":
        return rexpr(e)
    lv = BIN_LEVEL[e["op"]]
    s = "%s %s %s" % (rbin_min(e["l"], lv), e["op"], rbin_min(e["r"], lv + 1))
    return "(" + s + ")" if lv < need else s


def rexpr(e, top=False):
    """top: the expression is a whole statement / for-clause (an assignment needs no parentheses there)"""
    k = e["k"]
    if k in ASG_KINDS and not top:
        return "(" + rexpr(e, True) + ")"
    if k == "int":
        return str(e["v"]) if e["v"] >= 0 else "(-%d)" % -e["v"]
    if k == "long":
        if "w" in e:
            if e["neg"] and e["text"] == "9223372036854775808":
                return "((-9223372036854775807L) - 1L)"
            return "%sL" % e["text"] if not e["neg"] else "(-%sL)" % e["text"]
        return "%dL" % e["v"] if e["v"] >= 0 else "(-%dL)" % -e["v"]
    if k == "float":
        return rfloat(e["n"], e["d"]) if e["n"] >= 0 else "(-%s)" % rfloat(-e["n"], e["d"])
    if k == "bit":
        return "%db" % e["v"]
    if k == "bool":
        return "true" if e["v"] else "false"
    if k == "str":
        return '"%s"' % e["v"]
    if k == "char":
        return "'%s'" % e["v"]
    if k == "null":
        return "null"
    if k == "this":
        return "this"
    if k == "var":
        return e["n"]
    if k == "paren":
        return "(" + rexpr(e["e"]) + ")"
    if k == "bin":
        if MINIMAL[0]:
            return "(" + rbin_min(e, 0) + ")"
        return "(%s %s %s)" % (rexpr(e["l"]), e["op"], rexpr(e["r"]))
    if k == "un":
        return "(%s%s)" % (e["op"], rexpr(e["e"]))
    if k == "post":
        return "%s%s" % (e["n"], e["op"])
    if k == "cast":
        # the cast's binding strength relative to postfix operators is not documented: parenthesise the operand
        inner = rexpr(e["e"])
        if e["e"]["k"] not in ("var", "int", "float", "long", "bit", "bool") or inner.startswith("(-"):
            inner = "(" + inner + ")" if not (inner.startswith("(") and inner.endswith(")") and e["e"]["k"] in ("bin", "un", "paren", "cast")) else inner
        return "((%s)%s)" % (PRIM[e["t"]], inner)
    if k == "call":
        return "%s(%s)" % (e["f"], ", ".join(rexpr(a) for a in e["a"]))
    if k == "idx":
        return "%s[%s]" % (rexpr(e["a"]), rexpr(e["i"]))
    if k == "arr":
        return "{" + ", ".join(rexpr(x) for x in e["es"]) + "}"
    if k == "asg":
        return "%s = %s" % (e["n"], rexpr(e["e"]))
    if k == "aasg":
        return "%s[%s] = %s" % (e["n"], rexpr(e["i"]), rexpr(e["e"]))
    if k == "new":
        ta = ""
        if e.get("diamond"):
            ta = "<>"
        elif e.get("targs"):
            ta = "<" + ", ".join(rtype(a) for a in e["targs"]) + ">"
        return "new %s%s(%s)" % (e["c"], ta, ", ".join(rexpr(a) for a in e["a"]))
    if k == "fld":
        return "%s.%s" % (rexpr(e["o"]), e["f"])
    if k == "sfld":
        return "%s.%s" % (e["c"], e["f"])
    if k == "fasg":
        return "%s.%s = %s" % (rexpr(e["o"]), e["f"], rexpr(e["e"]))
    if k == "sfasg":
        return "%s.%s = %s" % (e["c"], e["f"], rexpr(e["e"]))
    if k == "mcall":
        args = ", ".join(rexpr(a) for a in e["a"])
        if e.get("bare") and e["o"]["k"] == "this":
            return "%s(%s)" % (e["m"], args)
        return "%s.%s(%s)" % (rexpr(e["o"]), e["m"], args)
    if k == "scall":
        return "%s.%s(%s)" % (e["c"], e["m"], ", ".join(rexpr(a) for a in e["a"]))
    if k == "supercall":
        return "super.%s(%s)" % (e["m"], ", ".join(rexpr(a) for a in e["a"]))
    raise ValueError("rexpr: " + k)


def rstmt(s, ind, out):
    pad = "  " * ind
    k = s["k"]
    if k == "decl":
        init = "" if s["init"]["k"] == "none" else " = " + rexpr(s["init"])
        out.append("%s%s%s %s%s;" % (pad, "final " if s.get("final") else "", rtype(s["t"]), s["n"], init))
    elif k == "expr":
        out.append(pad + rexpr(s["e"], True) + ";")
    elif k == "echo":
        out.append("%secho(%s);" % (pad, rexpr(s["e"])))
    elif k == "if":
        out.append("%sif (%s) {" % (pad, rexpr(s["c"])))
        for x in s["t"]:
            rstmt(x, ind + 1, out)
        if s["e"]:
            out.append(pad + "} else {")
            for x in s["e"]:
                rstmt(x, ind + 1, out)
        out.append(pad + "}")
    elif k == "tern":
        a, b = [], []
        rstmt(s["t"], 0, a)
        rstmt(s["e"], 0, b)
        out.append("%s%s ? %s : %s" % (pad, rexpr(s["c"]), " ".join(a), " ".join(b)))
    elif k == "while":
        out.append("%swhile (%s) {" % (pad, rexpr(s["c"])))
        for x in s["b"]:
            rstmt(x, ind + 1, out)
        out.append(pad + "}")
    elif k == "for":
        i = []
        if s["init"]["k"] != "none":
            rstmt(s["init"], 0, i)
        init = i[0] if i else ";"
        c = "" if s["c"]["k"] == "none" else rexpr(s["c"])
        u = "" if s["upd"]["k"] == "none" else rexpr(s["upd"], True)
        out.append("%sfor (%s %s; %s) {" % (pad, init, c, u))
        for x in s["b"]:
            rstmt(x, ind + 1, out)
        out.append(pad + "}")
    elif k == "block":
        out.append(pad + "{")
        for x in s["b"]:
            rstmt(x, ind + 1, out)
        out.append(pad + "}")
    elif k == "ret":
        out.append(pad + ("return;" if s["e"]["k"] == "none" else "return %s;" % rexpr(s["e"])))
    elif k == "destroy":
        out.append("%sdestroy %s;" % (pad, s["n"]))
    elif k == "super":
        out.append("%ssuper(%s);" % (pad, ", ".join(rexpr(a) for a in s["a"])))
    else:
        raise ValueError("rstmt: " + k)


def rparams(ps):
    return ", ".join("%s %s" % (rtype(p["t"]), p["n"]) for p in ps)


def render_func(f, out):
    if f.get("quantum"):
        out.append("@quantum")
    if f.get("shots"):
        out.append("@shots(%d)" % f["shots"])
    out.append("function %s(%s) -> %s {" % (f["name"], rparams(f["params"]), rtype(f["ret"])))
    for s in f["body"]:
        rstmt(s, 1, out)
    out.append("}")


def render_class(c, out, ctor_return_this=False):
    head = ""
    if c.get("static"):
        head += "static "
    if c.get("abstract"):
        head += "abstract "
    name = c["name"]
    if c.get("tparams"):
        bounds = c.get("tbounds") or {}
        name += "<" + ", ".join(tp + (" extends " + bounds[tp] if tp in bounds else "") for tp in c["tparams"]) + ">"
    ext = ""
    if c.get("base"):
        ext = " extends " + c["base"]
        if c.get("base_targs"):
            ext += "<" + ", ".join(rtype(a) for a in c["base_targs"]) + ">"
    out.append("%sclass %s%s {" % (head, name, ext))
    for f in c["fields"]:
        init = "" if f["init"]["k"] == "none" else " = " + rexpr(f["init"])
        out.append("  %s%s %s%s%s %s%s;" % ("@tracked " if f.get("tracked") else "", f.get("vis", "public"), "static " if f["static"] else "",
                                             "final " if f.get("final") else "", rtype(f["t"]), f["n"], init))
    selft = c["name"] + ("<" + ", ".join(c["tparams"]) + ">" if c.get("tparams") else "")
    for ct in c["ctors"]:
        if ct.get("default"):
            out.append("  %s constructor(%s) -> %s = default;" % (ct.get("vis", "public"), rparams(ct["params"]), selft))
            continue
        out.append("  %s constructor(%s) -> %s {" % (ct.get("vis", "public"), rparams(ct["params"]), selft))
        for s in ct["body"]:
            rstmt(s, 2, out)
        if ctor_return_this:
            out.append("    return this;")
        out.append("  }")
    if c["dtor"]:
        out.append("  public destructor() -> void {")
        for s in c["dtor"]:
            rstmt(s, 2, out)
        out.append("  }")
    for m in c["methods"]:
        mods = ""
        if m["static"]:
            mods += "static "
        if m["virtual"]:
            mods += "virtual "
        if m["override"]:
            mods += "override "
        if m.get("quantum"):
            out.append("  @quantum")
        if m.get("abstract_body"):
            out.append("  %s %sfunction %s(%s) -> %s;" % (m.get("vis", "public"), mods, m["name"], rparams(m["params"]), rtype(m["ret"])))
            continue
        out.append("  %s %sfunction %s(%s) -> %s {" % (m.get("vis", "public"), mods, m["name"], rparams(m["params"]), rtype(m["ret"])))
        for s in m["body"]:
            rstmt(s, 2, out)
        out.append("  }")
    out.append("}")


def render(prog, order=None, ctor_return_this=False, minimal=False):
    """order: optional list of ("c", i) / ("f", i) giving the top-level declaration order.
    minimal: binary-operator trees carry only the parentheses the precedence table requires."""
    if minimal:
        MINIMAL[0] = True
        try:
            return render(prog, order, ctor_return_this)
        finally:
            MINIMAL[0] = False
    out = []
    if order is None:
        order = [("c", i) for i in range(len(prog["classes"]))] + [("f", i) for i in range(len(prog["funcs"]))]
    for kind, i in order:
        if kind == "c":
            render_class(prog["classes"][i], out, ctor_return_this)
        else:
            render_func(prog["funcs"][i], out)
    return "\n".join(out) + "\n"


# ------------------------------------------------------------------ monomorphisation (for the TLC oracle)
def mono_name(name, targs):
    return name + "<" + ",".join(rtype(a) for a in targs) + ">" if targs else name


class _Mono:
    """Expands every generic class use into a separate concrete class (each instantiation gets its own
    specialisation, with its own static fields)."""

    def __init__(self, prog):
        self.templates = {c["name"]: c for c in prog["classes"] if c.get("tparams")}
        self.made = {}
        self.work = []

    def need(self, name, targs):
        mn = mono_name(name, targs)
        if name in self.templates and mn not in self.made:
            self.made[mn] = None
            self.work.append((name, targs, mn))
        return mn

    def ty(self, t, env):
        if "p" in t:
            return copy.deepcopy(env[t["p"]]) if t["p"] in env else t
        if "arr" in t:
            if t["arr"] in env:
                et = env[t["arr"]]
                return {"arr": et.get("p", "obj"), "size": t["size"]}
            return t
        if t.get("targs"):
            targs = [self.ty(a, env) for a in t["targs"]]
            return {"cls": self.need(t["cls"], targs), "targs": []}
        return {"cls": t["cls"], "targs": []}

    def node(self, n, env):
        if isinstance(n, list):
            return [self.node(x, env) for x in n]
        if not isinstance(n, dict):
            return n
        if "k" not in n and (("p" in n and len(n) == 1) or ("arr" in n and "size" in n) or ("cls" in n and "targs" in n)):
            return self.ty(n, env)
        out = {k: self.node(v, env) for k, v in n.items()}
        if out.get("k") == "new":
            src = n.get("inferred", []) if n.get("diamond") else n.get("targs", [])
            targs = [self.ty(a, env) for a in src]
            out["c"] = self.need(n["c"], targs) if targs else n["c"]
            out["targs"] = []
            out["diamond"] = False
            out.pop("inferred", None)
        return out

    def run(self, prog):
        if not self.templates:
            return prog
        concrete = [c for c in prog["classes"] if not c.get("tparams")]
        funcs = self.node(prog["funcs"], {})
        classes = [self.node(c, {}) for c in concrete]
        for c in classes:        # a plain class deriving from a generic instantiation
            if c.get("base_targs"):
                c["base"] = self.need(c["base"], [self.ty(a, {}) for a in c["base_targs"]])
                c["base_targs"] = []
        out_classes = []
        while self.work:
            name, targs, mn = self.work.pop()
            t = self.templates[name]
            env = dict(zip(t["tparams"], targs))
            inst = self.node({k: v for k, v in t.items() if k not in ("name", "tparams", "base", "base_targs")}, env)
            bt = [self.ty(a, env) for a in t.get("base_targs", [])]
            inst["name"] = mn
            inst["tparams"] = []
            inst["base_targs"] = []
            inst["base"] = (self.need(t["base"], bt) if bt else t["base"]) if t.get("base") else ""
            self.made[mn] = inst
            out_classes.append(inst)
        return {"funcs": funcs, "classes": classes + out_classes}


def monomorphise(prog):
    return _Mono(prog).run(prog)


def to_tlc(prog):
    """what the TLC reference interpreters see: generics expanded, qubit-typed fields dropped (a qubit nobody operates on
    is not observable in the echo output the reference predicts)"""
    p = monomorphise(prog)
    if any(f["t"].get("p") == "qubit" for c in p["classes"] for f in c["fields"]):
        p = copy.deepcopy(p)
        for c in p["classes"]:
            c["fields"] = [f for f in c["fields"] if f["t"].get("p") != "qubit"]
    return p


def dumps(prog):
    return json.dumps(prog, separators=(",", ":"))
