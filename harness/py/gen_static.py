"""C16: programs that place a construct (offending or not) into every syntactic position of a fixed 'world' of
classes and functions.  The generator does NOT decide verdicts - spec/BlochStatic.tla does; `intent` only labels
what the case was meant to exercise so that coverage per rule can be reported."""
import copy
import itertools
import random

from bsyntax import *

TY = {"int": P("int"), "long": P("long"), "float": P("float"), "bit": P("bit"), "bool": P("bool"), "str": P("str"),
      "char": P("char"), "Base": C("Base"), "Derived": C("Derived"), "Other": C("Other"), "intarr": A("int"), "floatarr": A("float"),
      "bitarr": A("bit"), "strarr": A("str"), "void": VOID}
LOCAL = {"int": "li", "long": "ll", "float": "lfl", "bit": "lbit", "bool": "lb", "str": "ls", "char": "lc", "Base": "ob",
         "Derived": "od", "Other": "oo", "intarr": "la", "floatarr": "lfa", "bitarr": "lba", "strarr": "lsa"}
SINK_T = ["int", "long", "float", "bit", "bool", "str", "Base", "Derived", "intarr"]


def pre():
    return [Decl(TY["int"], "li", I(1)), Decl(TY["int"], "lf", I(2), final=True), Decl(TY["long"], "ll", L(3)),
            Decl(TY["float"], "lfl", F(3, 2)), Decl(TY["bit"], "lbit", Bit(1)), Decl(TY["bool"], "lb", Bool(True)),
            Decl(TY["str"], "ls", S("s")), Decl(TY["char"], "lc", Ch("c")),
            Decl(C("Base"), "ob", New("Base")), Decl(C("Derived"), "od", New("Derived")), Decl(C("Other"), "oo", New("Other")),
            Decl(C("Base"), "lfo", New("Base"), final=True),
            Decl(A("int"), "la", Arr("int", [I(1), I(2)])), Decl(A("float"), "lfa", Arr("float", [F(1)])),
            Decl(A("bit"), "lba", Arr("bit", [Bit(1)])), Decl(A("str"), "lsa", Arr("str", [S("a")]))]


HOLES = ["main", "fn_int", "m_base", "mv_base", "m_derived", "m_other", "s_base", "s_util", "c_base", "c_derived", "d_base"]
INT_HOLES = {"fn_int", "m_base", "m_derived", "m_other", "s_base", "s_util"}


class World:
    def __init__(self):
        self.holes = {h: None for h in HOLES}
        self.base_fields = []
        self.derived_fields = []
        self.funcs = []
        self.classes = []
        self.main_shots = 0

    def fill(self, hole, stmts, with_pre=True):
        self.holes[hole] = (pre() if with_pre else []) + list(stmts)
        return self

    def body(self, hole):
        b = list(self.holes[hole] or [])
        if hole in INT_HOLES:
            b.append(Ret(I(0)))
        return b

    def prog(self):
        T = TY
        base = Class("Base", fields=[
            Field(T["int"], "pub", I(1)), Field(T["int"], "prot", I(2), vis="protected"), Field(T["int"], "priv", I(3), vis="private"),
            Field(T["int"], "fin", final=True), Field(T["int"], "fini", I(5), final=True),
            Field(T["int"], "spub", I(1), static=True), Field(T["int"], "spriv", I(2), static=True, vis="private"),
            Field(T["int"], "sprot", I(3), static=True, vis="protected"), Field(T["int"], "SFIN", I(7), static=True, final=True),
            Field(C("Base"), "link"), Field(C("Base"), "plink", vis="private"), Field(T["long"], "plong", L(1)), Field(T["float"], "pfloat", F(1)),
            Field(T["bit"], "pbit", Bit(0)), Field(T["bool"], "pbool", Bool(False)), Field(T["str"], "pstr", S("x")),
            Field(C("Derived"), "pder"), Field(A("int"), "parr", Arr("int", [I(1)])),
            Field(C("Base"), "sbase", static=True)] + self.base_fields,
            ctors=[Ctor([], [Expr(FAsg(This(), "fin", I(1)))] + self.body("c_base")),
                   Ctor([Param(T["int"], "a0")], [Expr(FAsg(This(), "fin", Var("a0")))])],
            dtor=self.body("d_base") or [Echo(S("d"))],
            methods=[Method("pubm", [], T["int"], [Ret(I(1))]), Method("protm", [], T["int"], [Ret(I(2))], vis="protected"),
                     Method("privm", [], T["int"], [Ret(I(3))], vis="private"), Method("vm", [], VOID, []),
                     Method("spubm", [], T["int"], [Ret(I(4))], static=True), Method("sprivm", [], T["int"], [Ret(I(5))], static=True, vis="private"),
                     Method("sprotm", [], T["int"], [Ret(I(6))], static=True, vis="protected"),
                     Method("virt", [], T["int"], [Ret(I(6))], virtual=True),
                     Method("self", [], C("Base"), [Ret(This())]),
                     Method("hole", [], T["int"], self.body("m_base")), Method("holev", [], VOID, self.body("mv_base")),
                     Method("shole", [], T["int"], self.body("s_base"), static=True)])
        derived = Class("Derived", base="Base", fields=[Field(T["int"], "dpub", I(1)), Field(T["int"], "dpriv", I(2), vis="private")] + self.derived_fields,
                        ctors=[Ctor([], [Super()] + self.body("c_derived"))],
                        methods=[Method("virt", [], T["int"], [Ret(I(7))], virtual=True, override=True),
                                 Method("hole2", [], T["int"], self.body("m_derived"))])
        other_fields = [Field(T[t], "of_" + t, None) for t in SINK_T if t not in ("intarr",)] + [Field(A("int"), "of_intarr", Arr("int", [I(0)]))]
        for f in other_fields:       # primitives need no initialiser; keep them simple
            pass
        other = Class("Other", fields=other_fields, ctors=[Ctor([], [], default=True)],
                      methods=[Method("otake_" + t, [Param(T[t], "v")], T["int"], [Ret(I(0))]) for t in SINK_T] +
                              [Method("hole3", [], T["int"], self.body("m_other"))])
        util = Class("Util", static=True, fields=[Field(T["int"], "k", I(1), static=True)],
                     methods=[Method("uf", [], T["int"], [Ret(I(1))], static=True), Method("uv", [], VOID, [], static=True),
                              Method("uhole", [], T["int"], self.body("s_util"), static=True)])
        shape = Class("Shape", abstract=True, ctors=[Ctor([], [], default=True)],
                      methods=[dict(Method("area", [], T["int"], [], virtual=True), abstract_body=True)])
        mid = Class("Mid", base="Shape", ctors=[Ctor([], [Super()])], methods=[Method("name", [], T["int"], [Ret(I(1))])])
        sq = Class("Sq", base="Mid", ctors=[Ctor([], [Super()])], methods=[Method("area", [], T["int"], [Ret(I(4))], virtual=True, override=True)])
        priv = Class("Priv", fields=[Field(T["int"], "pv", I(1))], ctors=[Ctor([], [], default=True, vis="private")],
                     methods=[Method("mk", [], C("Priv"), [Ret(New("Priv"))], static=True)])
        ks = [Class("K_" + t, fields=[Field(T["int"], "z", I(0))], ctors=[Ctor([Param(T[t], "v")], [])]) for t in SINK_T]
        box = Class("Box", fields=[Field(P("T"), "v")], ctors=[Ctor([Param(P("T"), "x")], [Expr(FAsg(This(), "v", Var("x")))])],
                    methods=[Method("get", [], P("T"), [Ret(Fld(This(), "v"))])], tparams=["T"])
        lbox = Class("LBox", base="Box", fields=[Field(T["int"], "l", I(1))], ctors=[Ctor([Param(P("U"), "x")], [Super(Var("x"))])],
                     tparams=["U"], base_targs=[P("U")])
        ibox = Class("IBox", base="Box", ctors=[Ctor([], [Super(I(4))])], base_targs=[P("int")])
        ks = ks + [box, lbox, ibox]
        funcs = [Func("fi", [], T["int"], [Ret(I(1))]), Func("fv", [], VOID, []), Func("mkb", [], C("Base"), [Ret(New("Base"))]),
                 Func("mkd", [], C("Derived"), [Ret(New("Derived"))])]
        funcs += [Func("id_" + t, [Param(T[t], "v")], T[t], [Ret(Var("v"))]) for t in SINK_T]
        funcs.append(Func("hf", [], T["int"], self.body("fn_int")))
        funcs += self.funcs
        mainf = Func("main", [], VOID, self.body("main"))
        if self.main_shots:
            mainf["shots"] = self.main_shots
        funcs.append(mainf)
        return normalise(Program(funcs, [base, derived, other, util, shape, mid, sq, priv] + ks + self.classes))


def normalise(prog):
    for f in prog["funcs"]:
        f.setdefault("quantum", False)
        f.setdefault("shots", 0)
    for c in prog["classes"]:
        for m in c["methods"]:
            m.setdefault("quantum", False)
            m.setdefault("shots", 0)
            m.setdefault("abstract_body", False)
    return prog


# ------------------------------------------------------------------ expression probes
def expr_probes():
    """(name, expression, host type, intent, where) ; where = set of holes in which the probe is meaningful"""
    ANY = ["main", "fn_int", "m_base", "m_derived", "m_other", "s_base", "s_util", "c_base", "c_derived", "d_base", "mv_base"]
    INST = ["m_base", "m_derived", "m_other", "c_base", "c_derived", "d_base", "s_base", "s_util", "main"]
    out = []

    def add(name, e, t, intent, where=ANY):
        out.append((name, e, t, intent, where))
    ob, od, oo = Var("ob"), Var("od"), Var("oo")
    # ---- access by every route
    for recv_name, recv in (("ob", ob), ("od", od), ("this", This()), ("mkb", Call("mkb")), ("link", Fld(ob, "link")), ("self", MCall(ob, "self")),
                            ("paren", Paren(ob)), ("mkd", Call("mkd"))):
        for f in ("pub", "prot", "priv"):
            add("fld_%s_%s" % (recv_name, f), Fld(recv, f), "int", "access")
        for m in ("pubm", "protm", "privm"):
            add("mcall_%s_%s" % (recv_name, m), MCall(recv, m), "int", "access")
    for f in ("pub", "prot", "priv", "spub", "sprot", "spriv", "dpriv", "dpub"):
        add("bare_" + f, Var(f), "int", "access/static", INST)
    for m in ("pubm", "protm", "privm", "spubm", "sprotm", "sprivm"):
        add("barecall_" + m, MCall(This(), m, bare=True), "int", "access/static", INST)
    for f in ("spub", "sprot", "spriv", "SFIN"):
        add("sfld_" + f, SFld("Base", f), "int", "access")
        add("sfld_derived_" + f, SFld("Derived", f), "int", "access")
    for m in ("spubm", "sprotm", "sprivm"):
        add("scall_" + m, SCall("Base", m), "int", "access")
    for m in ("pubm", "protm", "privm", "virt"):
        add("super_" + m, SuperCall(m), "int", "access/static", INST)
    add("fld_plink", Fld(ob, "plink"), "Base", "access")
    add("fld_plink_chain", Fld(Fld(ob, "link"), "plink"), "Base", "access")
    add("fld_od_dpriv", Fld(od, "dpriv"), "int", "access")
    add("util_k", SFld("Util", "k"), "int", "ok")
    add("util_uf", SCall("Util", "uf"), "int", "ok")
    add("priv_mk_pv", Fld(SCall("Priv", "mk"), "pv"), "int", "ok")
    # ---- void results
    add("void_fn", Call("fv"), "int", "void")
    add("void_method", MCall(ob, "vm"), "int", "void")
    add("void_bare_method", MCall(This(), "vm", bare=True), "int", "void", INST)
    add("void_fn_as_obj", Call("fv"), "Base", "void")
    add("void_fn_bool", Call("fv"), "bool", "void")
    add("void_static_method", SCall("Util", "uv"), "int", "void")
    add("void_super_method", SuperCall("vm"), "int", "void", INST)
    add("void_chain", MCall(Call("mkb"), "vm"), "int", "void")
    add("int_fn", Call("fi"), "int", "ok")
    # ---- null
    add("null_int", Null(), "int", "null")
    add("null_bool", Null(), "bool", "null")
    add("null_str", Null(), "str", "null")
    add("null_arr", Null(), "intarr", "null")
    add("null_obj", Null(), "Base", "ok")
    add("null_plus", Bin("+", Null(), I(1)), "int", "null")
    add("null_lt", Bin("<", Var("ob"), Null()), "bool", "null")
    add("null_eq_int", Bin("==", Var("li"), Null()), "bool", "null")
    add("null_eq_obj", Bin("==", Var("ob"), Null()), "bool", "ok")
    add("null_ne_obj", Bin("!=", Null(), Var("od")), "bool", "ok")
    add("null_neg", Un("-", Null()), "int", "null")
    add("null_not", Un("!", Null()), "bool", "null")
    # ---- instantiation
    for c in ("Util", "Shape", "Mid"):
        add("new_" + c, New(c), c if c in TY else "Base", "instantiate")
    add("new_Sq_as_int", Fld(New("Sq"), "z") if False else MCall(New("Sq"), "area"), "int", "ok")
    add("new_Mid_area", MCall(New("Mid"), "area"), "int", "instantiate")
    add("new_Shape_area", MCall(New("Shape"), "area"), "int", "instantiate")
    add("new_Util_eq", Bin("==", New("Util"), Null()), "bool", "instantiate")
    add("new_Priv", Fld(New("Priv"), "pv"), "int", "access")
    add("new_Base_pub", Fld(New("Base"), "pub"), "int", "ok")
    add("new_Base_arg_void", Fld(New("Base", Call("fv")), "pub"), "int", "void")
    add("new_Base_arg_null", Fld(New("Base", Null()), "pub"), "int", "null")
    add("new_Base_arg_str", Fld(New("Base", S("x")), "pub"), "int", "type")
    # ---- this / super in static context
    add("this_obj", This(), "Base", "static", INST)
    add("this_pub", Fld(This(), "pub"), "int", "static", INST)
    add("this_call", MCall(This(), "pubm"), "int", "static", INST)
    add("this_eq", Bin("==", This(), Null()), "bool", "static", INST)
    # ---- final variables and fields
    add("asg_final_local", Asg("lf", I(3)), "int", "final")
    add("asg_local", Asg("li", I(3)), "int", "ok")
    add("post_final_local", Post("++", "lf"), "int", "final")
    add("postdec_final_local", Post("--", "lf"), "int", "final")
    add("post_local", Post("++", "li"), "int", "ok")
    add("asg_final_obj", Asg("lfo", Var("ob")), "Base", "final")
    add("fasg_final_fin", FAsg(ob, "fin", I(3)), "int", "final")
    add("fasg_final_fini", FAsg(ob, "fini", I(3)), "int", "final")
    add("fasg_od_final", FAsg(od, "fin", I(3)), "int", "final")
    add("fasg_this_fini", FAsg(This(), "fini", I(3)), "int", "final", INST)
    add("fasg_pub", FAsg(ob, "pub", I(3)), "int", "ok")
    add("fasg_priv", FAsg(ob, "priv", I(3)), "int", "access")
    add("fasg_prot", FAsg(ob, "prot", I(3)), "int", "access")
    add("fasg_link_fin", FAsg(Fld(ob, "link"), "fin", I(3)), "int", "final")
    add("bare_asg_fini", Asg("fini", I(3)), "int", "final", INST)
    add("bare_asg_pub", Asg("pub", I(3)), "int", "ok", INST)
    add("bare_asg_priv", Asg("priv", I(3)), "int", "access", INST)
    add("bare_post_fini", Post("++", "fini"), "int", "final", INST)
    add("bare_post_pub", Post("++", "pub"), "int", "ok", INST)
    add("bare_post_SFIN", Post("++", "SFIN"), "int", "final", INST)
    add("sfasg_SFIN", SFAsg("Base", "SFIN", I(3)), "int", "final")
    add("sfasg_spub", SFAsg("Base", "spub", I(3)), "int", "ok")
    add("sfasg_spriv", SFAsg("Base", "spriv", I(3)), "int", "access")
    add("bare_asg_SFIN", Asg("SFIN", I(3)), "int", "final", INST)
    # ---- undeclared
    add("undeclared", Var("nosuch"), "int", "scope")
    add("undeclared_fn", Call("nofn"), "int", "scope")
    add("undeclared_asg", Asg("nosuch", I(1)), "int", "scope")
    # ---- plain good expressions per type (twins)
    add("good_int", Bin("+", Var("li"), I(2)), "int", "ok")
    add("good_bool", Bin("<", Var("li"), I(2)), "bool", "ok")
    add("good_obj", Var("od"), "Base", "ok")
    add("good_str", Bin("+", S("a"), Var("li")), "str", "ok")
    add("good_arr", Var("la"), "intarr", "ok")
    return out


def expr_hosts(e, t):
    """statement lists that put expression e (expected to have type t) into each syntactic position"""
    T = TY[t]
    hs = {}
    hs["stmt"] = [Expr(e)]
    hs["init"] = [Decl(T, "r0", e)]
    hs["assign"] = [Expr(Asg(LOCAL[t], e))]
    hs["paren"] = [Decl(T, "r0", Paren(Paren(e)))]
    hs["echo"] = [Echo(e)] if t not in ("Base", "Derived") else None
    if t in SINK_T:
        hs["arg"] = [Expr(Call("id_" + t, e))]
        hs["arg_nested"] = [Decl(T, "r0", Call("id_" + t, Call("id_" + t, e)))]
        hs["marg"] = [Expr(MCall(Var("oo"), "otake_" + t, e))]
        hs["ctorarg"] = [Decl(C("K_" + t), "r0", New("K_" + t, e))]
        hs["fieldw"] = [Expr(FAsg(Var("oo"), "of_" + t, e))]
        hs["tern_branch"] = [Tern(Var("lb"), Expr(Asg(LOCAL[t], e)), Echo(I(0)))]
        hs["tern_else"] = [Tern(Var("lb"), Echo(I(0)), Expr(Call("id_" + t, e)))]
    if t == "int":
        hs["operand_l"] = [Decl(T, "r0", Bin("+", e, I(1)))]
        hs["operand_r"] = [Decl(T, "r0", Bin("*", I(2), e))]
        hs["unary"] = [Decl(T, "r0", Un("-", e))]
        hs["cast"] = [Decl(TY["float"], "r0", Cast("float", e))]
        hs["if_cond"] = [If(Bin("==", e, I(0)), [Echo(I(1))], [Echo(I(2))])]
        hs["while_cond"] = [While(Bin("<", e, I(0)), [Echo(I(1))])]
        hs["tern_cond"] = [Tern(Bin(">", e, I(0)), Echo(I(1)), Echo(I(2)))]
        hs["for_init"] = [For(Decl(T, "k0", e), Bin("<", Var("k0"), I(1)), Post("++", "k0"), [Echo(I(1))])]
        hs["for_cond"] = [For(Decl(T, "k0", I(0)), Bin("<", Var("k0"), e), Post("++", "k0"), [Echo(I(1))])]
        hs["for_upd"] = [For(Decl(T, "k0", I(0)), Bin("<", Var("k0"), I(1)), Asg("k0", e), [Echo(I(1))])]
        hs["index"] = [Decl(T, "r0", Idx(Var("la"), e))]
        hs["aasg_index"] = [Expr(AAsg("la", e, I(1)))]
        hs["aasg_value"] = [Expr(AAsg("la", I(0), e))]
        hs["arrlit"] = [Decl(A("int"), "r0", Arr("int", [I(1), e]))]
        hs["concat"] = [Echo(Bin("+", S("v="), e))]
        hs["widen"] = [Decl(TY["long"], "r0", e)]
        hs["cmp"] = [Decl(TY["bool"], "r0", Bin("<=", I(0), e))]
    if t == "bool":
        hs["operand_l"] = [Decl(T, "r0", Bin("&&", e, Bool(True)))]
        hs["unary"] = [Decl(T, "r0", Un("!", e))]
        hs["if_cond"] = [If(e, [Echo(I(1))])]
        hs["while_cond"] = [While(e, [Ret() if False else Echo(I(1))])]
        hs["for_cond"] = [For(Decl(TY["int"], "k0", I(0)), e, Post("++", "k0"), [Echo(I(1))])]
        hs["tern_cond"] = [Tern(e, Echo(I(1)), Echo(I(2)))]
    if t in ("Base", "Derived"):
        hs["operand_l"] = [Decl(TY["bool"], "r0", Bin("==", e, Null()))]
        hs["member"] = [Decl(TY["int"], "r0", Fld(e, "pub"))]
        hs["mcall_recv"] = [Decl(TY["int"], "r0", MCall(e, "pubm"))]
        hs["if_cond"] = [If(Bin("!=", e, Null()), [Echo(I(1))])]
    return {k: v for k, v in hs.items() if v}


def stmt_hosts(ss):
    """wrap a statement list into each nesting form"""
    hs = {"plain": ss, "if_then": [If(Var("lb"), ss)], "if_else": [If(Var("lb"), [Echo(I(0))], ss)], "while": [While(Var("lb"), ss)],
          "for_body": [For(Decl(TY["int"], "k1", I(0)), Bin("<", Var("k1"), I(1)), Post("++", "k1"), ss)], "block": [Block(ss)],
          "deep": [If(Var("lb"), [While(Var("lb"), [Block(ss)])])]}
    return hs


def used_names(n, acc=None):
    acc = set() if acc is None else acc
    if isinstance(n, list):
        for x in n:
            used_names(x, acc)
    elif isinstance(n, dict):
        if n.get("k") in ("var", "post", "asg", "aasg", "destroy"):
            acc.add(n["n"])
        for v in n.values():
            used_names(v, acc)
    return acc


LOCALS = {d["n"] for d in pre()}


def case(cid, intent, world, note, order=None):
    return {"id": cid, "intent": intent, "prog": world.prog(), "note": note, "order": order}


def positions(rnd, full):
    """F1: every expression probe in every expression position x context (sampled unless full)"""
    out = []
    probes = expr_probes()
    for name, e, t, intent, where in probes:
        hosts = expr_hosts(e, t)
        hnames = sorted(hosts)
        if full:
            combos = [(h, hole, "plain") for h in hnames for hole in where] + [("init", hole, sh) for hole in where for sh in ("if_then", "if_else", "while", "for_body", "block", "deep")]
        else:
            combos = []
            holes = list(where)
            rnd.shuffle(holes)
            # every position at least in two contexts, every context at least with three positions
            for i, h in enumerate(hnames):
                combos.append((h, holes[i % len(holes)], "plain"))
                combos.append((h, holes[(i + 3) % len(holes)], "plain"))
            for i, hole in enumerate(where):
                for j in range(3):
                    combos.append((hnames[(i + 5 * j) % len(hnames)], hole, "plain"))
            for sh in ("if_then", "if_else", "while", "for_body", "block", "deep"):
                combos.append((rnd.choice(hnames), rnd.choice(holes), sh))
            combos = sorted(set(combos))
        for h, hole, sh in combos:
            ss = stmt_hosts(copy.deepcopy(hosts[h]))[sh]
            w = World().fill(hole, ss)
            out.append(case("pos:%s:%s:%s:%s" % (name, h, hole, sh), intent, w, "probe %s in position %s, context %s, nesting %s" % (name, h, hole, sh)))
        # field initialisers: instance and static, in Base and Derived (no locals available there)
        if not (used_names(e) & LOCALS) and t in TY and t != "void":
            for static in (False, True):
                for cls in ("Base", "Derived"):
                    w = World()
                    f = Field(TY[t], "hfi", copy.deepcopy(e), static=static)
                    (w.base_fields if cls == "Base" else w.derived_fields).append(f)
                    out.append(case("pos:%s:fieldinit:%s:%s" % (name, cls, "static" if static else "inst"), intent, w,
                                    "probe %s as %s field initialiser of %s" % (name, "static" if static else "instance", cls)))
    return out


def sources():
    return [("int_lit", I(7)), ("int_var", Var("li")), ("long_lit", L(3)), ("long_var", Var("ll")), ("float_lit", F(5, 2)), ("float_var", Var("lfl")),
            ("bit_lit", Bit(1)), ("bool_lit", Bool(True)), ("str_lit", S("q")), ("char_lit", Ch("z")), ("base_var", Var("ob")), ("derived_var", Var("od")),
            ("other_var", Var("oo")), ("null", Null()), ("intarr_var", Var("la")), ("floatarr_var", Var("lfa")), ("void_call", Call("fv")),
            ("new_base", New("Base")), ("new_derived", New("Derived")), ("new_other", New("Other")), ("int_call", MCall(Var("ob"), "pubm")),
            ("base_call", Call("mkb")), ("derived_call", Call("mkd")), ("int_sum", Bin("+", Var("li"), I(1))), ("long_sum", Bin("+", Var("ll"), I(1))),
            ("int_field", Fld(Var("ob"), "pub")), ("base_field", Fld(Var("ob"), "link")), ("int_elem", Idx(Var("la"), I(0))), ("cmp", Bin("<", Var("li"), I(3)))]


def type_matrix(rnd, full):
    """F2: every kind of sink x declared type x source expression"""
    out = []
    holes = ["main", "m_base", "s_base", "c_derived", "m_other"]
    for t in SINK_T:
        T = TY[t]
        for sname, src in sources():
            sinks = {
                "init": ("main", [Decl(T, "r0", src)]),
                "assign": ("main", [Expr(Asg(LOCAL[t], src))]),
                "assign_nested": ("main", [If(Var("lb"), [Expr(Asg(LOCAL[t], src))])]),
                "fn_arg": ("main", [Expr(Call("id_" + t, src))]),
                "method_arg": ("main", [Expr(MCall(Var("oo"), "otake_" + t, src))]),
                "ctor_arg": ("main", [Decl(C("K_" + t), "r0", New("K_" + t, src))]),
                "field_obj": ("main", [Expr(FAsg(Var("oo"), "of_" + t, src))]),
                "field_this": ("m_other", [Expr(FAsg(This(), "of_" + t, src))]),
                "field_bare": ("m_other", [Expr(Asg("of_" + t, src))]),
                "final_init": ("main", [Decl(T, "r0", src, final=True)]),
            }
            if t in ("int", "float", "bit", "str"):      # the grammar admits only these declarations in a for-initialiser
                sinks["for_init"] = ("main", [For(Decl(T, "k0", src), Var("lb"), Asg("li", I(0)), [])])
            if t == "int":
                sinks["static_field"] = ("main", [Expr(SFAsg("Base", "spub", src))])
                sinks["aasg"] = ("main", [Expr(AAsg("la", I(0), src))])
            if t == "Base":
                sinks["static_field"] = ("main", [Expr(SFAsg("Base", "sbase", src))])
            for sk, (hole, ss) in sorted(sinks.items()):
                hs = [hole] if not full else ([hole] if hole != "main" else ["main", "m_base", "s_base", "c_derived"])
                if not full and hole == "main" and rnd.random() < 0.25:
                    hs = [rnd.choice(holes[:4])]
                for hh in hs:
                    w = World().fill(hh, copy.deepcopy(ss))
                    out.append(case("ty:%s:%s:%s:%s" % (t, sname, sk, hh), "type", w, "source %s into %s sink of type %s (%s)" % (sname, sk, t, hh)))
            # return sink: a function / method / static method returning T
            for kind in ("fn", "method", "static"):
                w = World()
                body = pre() + [Ret(copy.deepcopy(src))]
                if kind == "fn":
                    w.funcs.append(Func("rf", [], T, body))
                else:
                    w.classes.append(Class("RC", ctors=[Ctor([], [], default=True)], methods=[Method("rm", [], T, body, static=(kind == "static"))]))
                out.append(case("ty:%s:%s:return:%s" % (t, sname, kind), "type", w, "return %s from a %s returning %s" % (sname, kind, t)))
            # field initialiser
            if not (used_names(src) & LOCALS):
                for static in (False, True):
                    w = World()
                    w.base_fields.append(Field(T, "hfi", copy.deepcopy(src), static=static))
                    out.append(case("ty:%s:%s:fieldinit:%s" % (t, sname, static), "type", w, "field initialiser %s for %s field" % (sname, t)))
    # array literals: element conversions
    for et in ("int", "float", "bit", "str"):
        for sname, src in sources():
            w = World().fill("main", [Decl(A(et), "r0", Arr(et, [copy.deepcopy(src)]))])
            out.append(case("ty:arrlit:%s:%s" % (et, sname), "type", w, "array literal element %s in %s[]" % (sname, et)))
            w = World().fill("main", [Expr(AAsg(LOCAL[{"int": "intarr", "float": "floatarr", "bit": "bitarr", "str": "strarr"}[et]], I(0), copy.deepcopy(src)))])
            out.append(case("ty:aasg:%s:%s" % (et, sname), "type", w, "array element assignment %s into %s[]" % (sname, et)))
    return out


def final_fields():
    """F3: final instance fields and constructors"""
    out = []
    INT = TY["int"]

    def fin_class(ctor_bodies, fields=None, base="", extra_methods=(), name="Fin"):
        return Class(name, base=base, fields=fields if fields is not None else [Field(INT, "f", final=True), Field(INT, "g", I(1), final=True), Field(INT, "n", I(0))],
                     ctors=[Ctor(ps, b) for ps, b in ctor_bodies], methods=list(extra_methods))
    a_this = Expr(FAsg(This(), "f", I(1)))
    a_bare = Expr(Asg("f", I(1)))
    lb = Bin("<", Var("p"), I(3))
    # ++ / -- is never a way to give a final field its value (postfix operators need a non-final int variable)
    forms = {"this": a_this, "bare": a_bare, "post": Expr(Post("++", "f")), "postdec": Expr(Post("--", "f"))}
    for fname, a in forms.items():
        wraps = {
            "top": [a], "twice": [a, copy.deepcopy(a)], "none": [], "twice_mixed": [a_this, a_bare],
            "if_then": [If(lb, [a])], "if_both": [If(lb, [a], [copy.deepcopy(a)])], "if_else": [If(lb, [Echo(I(0))], [a])],
            "while": [While(lb, [a])], "for_body": [For(Decl(INT, "k", I(0)), Bin("<", Var("k"), I(1)), Post("++", "k"), [a])],
            "block": [Block([a])], "tern_then": [Tern(lb, a, Echo(I(0)))], "tern_else": [Tern(lb, Echo(I(0)), a)],
            "tern_both": [Tern(lb, a, copy.deepcopy(a))],
            "for_init": [For(a, Bin("<", Var("p"), I(1)), None, [])] if False else None,
            "top_then_if": [a, If(lb, [copy.deepcopy(a)])], "if_then_top": [If(lb, [copy.deepcopy(a)]), a],
            "top_after_stmts": [Echo(I(1)), Decl(INT, "q", I(2)), a], "top_g": [a, Expr(FAsg(This(), "g", I(2)))],
            "top_n_nested": [a, If(lb, [Expr(FAsg(This(), "n", I(2)))])],
        }
        for wn, body in wraps.items():
            if body is None:
                continue
            w = World()
            w.classes.append(fin_class([([Param(INT, "p")], body)]))
            out.append(case("fin:%s:%s" % (fname, wn), "final-field", w, "constructor body '%s' assigning final f via %s" % (wn, fname)))
            # two constructors: one correct, one with the shape under test
            w = World()
            w.classes.append(fin_class([([], [copy.deepcopy(a_this)]), ([Param(INT, "p")], copy.deepcopy(body))]))
            out.append(case("fin2:%s:%s" % (fname, wn), "final-field", w, "second constructor with body '%s'" % wn))
    # for-loop header clauses (rendered through a hand-made statement: assignment expression as clause)
    for cl in ("init", "upd"):
        for fname in ("this", "bare"):
            ae = FAsg(This(), "f", I(1)) if fname == "this" else Asg("f", I(1))
            if cl == "init":
                st = For(Expr(ae), Bin("<", Var("p"), I(1)), Asg("p", I(5)), [])
            else:
                st = For(Decl(INT, "k", I(0)), Bin("<", Var("k"), I(1)), ae, [])
            for also_top in (False, True):
                body = [st] + ([Expr(FAsg(This(), "f", I(2)))] if also_top else [])
                w = World()
                w.classes.append(fin_class([([Param(INT, "p")], body)]))
                out.append(case("fin:for_%s:%s:%s" % (cl, fname, also_top), "final-field", w, "final f assigned in for-%s clause" % cl))
    # writes outside constructors / to other objects / inherited
    m_write = Method("setf", [Param(INT, "v")], VOID, [Expr(FAsg(This(), "f", Var("v")))])
    m_write_bare = Method("setf", [Param(INT, "v")], VOID, [Expr(Asg("f", Var("v")))])
    m_post = Method("incf", [], VOID, [Expr(Post("++", "f"))])
    m_read = Method("getf", [], INT, [Ret(Var("f"))])
    m_static = Method("sset", [Param(C("Fin"), "o")], VOID, [Expr(FAsg(Var("o"), "f", I(2)))], static=True)
    for mn, m in (("method_this", m_write), ("method_bare", m_write_bare), ("method_post", m_post), ("method_read", m_read), ("static_other", m_static)):
        w = World()
        w.classes.append(fin_class([([], [copy.deepcopy(a_this)])], extra_methods=[m]))
        out.append(case("fin:outside:%s" % mn, "final-field", w, "final field touched in %s" % mn))
    for who, body in (("other_obj", [copy.deepcopy(a_this), Decl(C("Fin"), "o", New("Fin")), Expr(FAsg(Var("o"), "f", I(9)))]),
                      ("other_obj_only", [Decl(C("Fin"), "o", New("Fin")), Expr(FAsg(Var("o"), "f", I(9)))]),
                      ("param_obj", None)):
        w = World()
        if body is None:
            w.classes.append(fin_class([([], [copy.deepcopy(a_this)]), ([Param(C("Fin"), "o")], [copy.deepcopy(a_this), Expr(FAsg(Var("o"), "f", I(9)))])]))
        else:
            w.classes.append(fin_class([([], body)]))
        out.append(case("fin:ctor:%s" % who, "final-field", w, "constructor writes the final field of another object (%s)" % who))
    for how in ("this", "bare", "g_this", "super_then_own"):
        w = World()
        w.classes.append(fin_class([([], [copy.deepcopy(a_this)])]))
        body = [Super()]
        if how == "this":
            body.append(Expr(FAsg(This(), "f", I(2))))
        elif how == "bare":
            body.append(Expr(Asg("f", I(2))))
        elif how == "g_this":
            body.append(Expr(FAsg(This(), "g", I(2))))
        else:
            body.append(Expr(FAsg(This(), "h", I(2))))
        w.classes.append(Class("FinD", base="Fin", fields=[Field(INT, "h", final=True)] if how == "super_then_own" else [], ctors=[Ctor([], body)]))
        out.append(case("fin:inherited:%s" % how, "final-field", w, "derived constructor and final fields (%s)" % how))
    # from outside the class
    for e, nm in ((FAsg(Var("x"), "f", I(3)), "f"), (FAsg(Var("x"), "g", I(3)), "g"), (FAsg(Var("x"), "n", I(3)), "n")):
        w = World()
        w.classes.append(fin_class([([], [copy.deepcopy(a_this)])], fields=[Field(INT, "f", final=True), Field(INT, "g", I(1), final=True), Field(INT, "n", I(0))]))
        w.fill("main", [Decl(C("Fin"), "x", New("Fin")), Expr(e)])
        out.append(case("fin:outside:main_" + nm, "final-field", w, "main assigns x.%s" % nm))
    return out


def declarations():
    """F4: annotations, void, final declarations"""
    out = []
    INT = TY["int"]
    rets = {"int": (TY["int"], Ret(I(0))), "bit": (TY["bit"], Ret(Bit(0))), "void": (VOID, None), "bitarr": (A("bit"), Ret(Arr("bit", [Bit(0)]))),
            "float": (TY["float"], Ret(F(1))), "bool": (TY["bool"], Ret(Bool(True))), "Base": (C("Base"), Ret(New("Base"))), "intarr": (A("int"), Ret(Var("la"))),
            "long": (TY["long"], Ret(L(1))), "str": (TY["str"], Ret(S("a")))}
    for rn, (rt, rs) in rets.items():
        for quantum in (True, False):
            body = [Decl(A("bit"), "lba2", Arr("bit", [Bit(1)])), Decl(A("int"), "la", Arr("int", [I(1)]))] + ([rs] if rs else [])
            if rn == "bitarr":
                body = [Decl(A("bit"), "lba2", Arr("bit", [Bit(1)])), Ret(Var("lba2"))]
            w = World()
            f = Func("qf", [], rt, body, quantum=quantum)
            w.funcs.append(f)
            out.append(case("decl:quantum_fn:%s:%s" % (rn, quantum), "quantum", w, "@quantum=%s function returning %s" % (quantum, rn)))
            for static in (False, True):
                w = World()
                m = Method("qm", [], rt, copy.deepcopy(body), static=static)
                m["quantum"] = quantum
                w.classes.append(Class("QC", ctors=[Ctor([], [], default=True)], methods=[m]))
                out.append(case("decl:quantum_method:%s:%s:%s" % (rn, quantum, static), "quantum", w, "@quantum=%s method returning %s" % (quantum, rn)))
    for target in ("main", "other", "other_int", "both"):
        w = World()
        if target in ("main", "both"):
            w.main_shots = 3
        if target in ("other", "both"):
            f = Func("sf", [], VOID, [])
            f["shots"] = 2
            w.funcs.append(f)
        if target == "other_int":
            f = Func("sf", [], INT, [Ret(I(1))])
            f["shots"] = 2
            w.funcs.append(f)
        out.append(case("decl:shots:%s" % target, "shots", w, "@shots on %s" % target))
    # @shots on a function that is also @quantum (void / bit results), next to an annotated and an unannotated main
    for rt, rs in ((VOID, []), (TY["bit"], [Ret(Bit(1))])):
        for main_too in (False, True):
            w = World()
            if main_too:
                w.main_shots = 3
            f = Func("qsf", [], rt, list(rs), quantum=True)
            f["shots"] = 2
            w.funcs.append(f)
            out.append(case("decl:shots:quantum:%s:%s" % ("void" if rt == VOID else "bit", main_too), "shots", w, "@shots on a @quantum function"))
    # void variables / parameters / fields
    for hole in ("main", "m_base", "s_base", "c_base", "d_base"):
        for sh in ("plain", "if_then", "for_body", "block"):
            w = World().fill(hole, stmt_hosts([Decl(VOID, "vv")])[sh])
            out.append(case("decl:void_var:%s:%s" % (hole, sh), "void", w, "void variable in %s (%s)" % (hole, sh)))
    for where in ("fn", "fn_second", "method", "static_method", "ctor", "abstract_method"):
        for bad in (True, False):
            pt = VOID if bad else INT
            w = World()
            if where == "fn":
                w.funcs.append(Func("vp", [Param(pt, "a")], VOID, []))
            elif where == "fn_second":
                w.funcs.append(Func("vp", [Param(INT, "z"), Param(pt, "a")], INT, [Ret(Var("z"))]))
            elif where == "method":
                w.classes.append(Class("VC", ctors=[Ctor([], [], default=True)], methods=[Method("vm2", [Param(pt, "a")], VOID, [])]))
            elif where == "static_method":
                w.classes.append(Class("VC", ctors=[Ctor([], [], default=True)], methods=[Method("vm2", [Param(pt, "a")], VOID, [], static=True)]))
            elif where == "ctor":
                w.classes.append(Class("VC", ctors=[Ctor([Param(pt, "a")], [])]))
            else:
                w.classes.append(Class("VC", abstract=True, ctors=[Ctor([], [], default=True)],
                                       methods=[dict(Method("vm2", [Param(pt, "a")], VOID, [], virtual=True), abstract_body=True)]))
            out.append(case("decl:void_param:%s:%s" % (where, bad), "void", w, "parameter of type %s on %s" % ("void" if bad else "int", where)))
    for static in (False, True):
        w = World()
        w.base_fields.append(Field(VOID, "vf", static=static))
        out.append(case("decl:void_field:%s" % static, "void", w, "void field"))
    # constructors reached through super(...) / implicitly / by new, per visibility
    for vis in ("public", "protected", "private"):
        for how in ("explicit_super", "implicit_super", "new_outside", "new_in_derived", "new_in_own_static"):
            w = World()
            pb = Class("PB", fields=[Field(INT, "z", I(0))], ctors=[Ctor([], [], vis=vis)],
                       methods=[Method("mk", [], C("PB"), [Ret(New("PB"))], static=True)] if how == "new_in_own_static" else [])
            w.classes.append(pb)
            if how in ("explicit_super", "implicit_super"):
                w.classes.append(Class("PD", base="PB", ctors=[Ctor([], [Super()] if how == "explicit_super" else [])]))
            elif how == "new_outside":
                w.fill("main", [Decl(C("PB"), "x", New("PB"))], with_pre=False)
            elif how == "new_in_derived":
                w.classes.append(Class("PD", base="PB", ctors=[Ctor([], [Super()])] if vis != "private" else [Ctor([Param(INT, "q")], [Super()])],
                                       methods=[Method("mk2", [], C("PB"), [Ret(New("PB"))])]))
            out.append(case("decl:ctor_access:%s:%s" % (vis, how), "access", w, "%s constructor reached by %s" % (vis, how)))
    # a zero-argument base constructor is required when super(...) is omitted
    for base_ctors, nm in (([Ctor([Param(INT, "a")], [])], "only_int"), ([Ctor([Param(INT, "a")], []), Ctor([], [])], "both")):
        for explicit in (False, True):
            w = World()
            w.classes.append(Class("PB", fields=[Field(INT, "z", I(0))], ctors=copy.deepcopy(base_ctors)))
            w.classes.append(Class("PD", base="PB", ctors=[Ctor([], [Super(I(1))] if explicit else [])]))
            out.append(case("decl:implicit_super:%s:%s" % (nm, explicit), "access", w, "base constructors %s, derived %s super(1)" % (nm, "with" if explicit else "without")))
    # super(...) arguments are a sink like any other
    for sname, src in sources():
        if used_names(src) & LOCALS:
            continue
        for t in SINK_T:
            w = World()
            w.classes.append(Class("SK", base="K_" + t, ctors=[Ctor([], [Super(copy.deepcopy(src))])]))
            out.append(case("decl:super_arg:%s:%s" % (t, sname), "type", w, "super(%s) into a base constructor taking %s" % (sname, t)))
    # global names are declared once
    for kind in ("fn", "fn_sig", "class", "fn_vs_world"):
        w = World()
        if kind == "fn":
            w.funcs += [Func("dupf", [], INT, [Ret(I(1))]), Func("dupf", [], INT, [Ret(I(2))])]
        elif kind == "fn_sig":
            w.funcs += [Func("dupf", [], INT, [Ret(I(1))]), Func("dupf", [Param(INT, "a")], INT, [Ret(I(2))])]
        elif kind == "class":
            w.classes += [Class("DupC", ctors=[Ctor([], [], default=True)]), Class("DupC", ctors=[Ctor([], [], default=True)])]
        else:
            w.funcs += [Func("fi", [], INT, [Ret(I(3))])]
        out.append(case("decl:duplicate:%s" % kind, "scope", w, "duplicate %s declaration" % kind))
    # final locals without initialiser; duplicate parameters
    for hole in ("main", "m_base", "s_base"):
        for sh in ("plain", "if_then", "block"):
            w = World().fill(hole, stmt_hosts([Decl(INT, "fu", final=True)])[sh])
            out.append(case("decl:final_uninit:%s:%s" % (hole, sh), "final", w, "final local without initialiser"))
    for where in ("fn", "method", "ctor"):
        w = World()
        ps = [Param(INT, "a"), Param(INT, "a")]
        if where == "fn":
            w.funcs.append(Func("dp", ps, VOID, []))
        elif where == "method":
            w.classes.append(Class("DP", ctors=[Ctor([], [], default=True)], methods=[Method("dm", ps, VOID, [])]))
        else:
            w.classes.append(Class("DP", ctors=[Ctor(ps, [])]))
        out.append(case("decl:dup_param:%s" % where, "scope", w, "two parameters with one name on %s" % where))
    return out


def scopes():
    """F5: use before declaration, redeclaration in an active scope"""
    out = []
    INT = TY["int"]
    use = Echo(Var("v"))
    d = Decl(INT, "v", I(1))
    d2 = Decl(INT, "v", I(2))
    shapes = {
        "use_after_decl": [d, use], "use_before_decl": [use, d], "use_after_block": [Block([d]), use], "use_in_inner": [d, Block([use])],
        "use_after_if": [If(Var("lb"), [d]), use], "use_after_for_var": [For(d, Bin("<", Var("v"), I(1)), Post("++", "v"), []), use],
        "use_in_for_body": [For(d, Bin("<", Var("v"), I(1)), Post("++", "v"), [use])], "use_after_while": [While(Var("lb"), [d]), use],
        "use_in_else_of_then_decl": [If(Var("lb"), [d], [use])], "asg_before_decl": [Expr(Asg("v", I(3))), d],
        "post_before_decl": [Expr(Post("++", "v")), d], "use_in_arg_before_decl": [Expr(Call("id_int", Var("v"))), d],
        "redecl_same": [d, d2], "redecl_inner": [d, Block([d2])], "redecl_inner_if": [d, If(Var("lb"), [d2])],
        "redecl_inner_while": [d, While(Var("lb"), [d2])], "redecl_for_init": [d, For(d2, Bin("<", Var("v"), I(1)), Post("++", "v"), [])],
        "redecl_for_body": [For(d, Bin("<", Var("v"), I(1)), Post("++", "v"), [d2])], "redecl_deep": [d, If(Var("lb"), [While(Var("lb"), [Block([d2])])])],
        "redecl_siblings": [Block([d]), Block([d2])], "redecl_after_block": [Block([d]), d2], "redecl_if_else": [If(Var("lb"), [d], [d2])],
        "redecl_two_fors": [For(d, Bin("<", Var("v"), I(1)), Post("++", "v"), []), For(d2, Bin("<", Var("v"), I(1)), Post("++", "v"), [])],
        "redecl_other_type": [d, Decl(TY["str"], "v", S("x"))], "redecl_pre_local": [Decl(INT, "li", I(9))],
        "redecl_pre_local_inner": [Block([Decl(TY["bool"], "lb", Bool(False))])], "redecl_final": [Decl(INT, "v", I(1), final=True), d2],
    }
    for sn, ss in shapes.items():
        for hole in ("main", "fn_int", "m_base", "s_base", "c_base", "d_base", "m_derived"):
            w = World().fill(hole, copy.deepcopy(ss))
            out.append(case("scope:%s:%s" % (sn, hole), "scope", w, "scope shape %s in %s" % (sn, hole)))
    # parameters
    for where in ("fn", "method", "ctor", "static"):
        for sn, body in (("redecl_param", [Decl(INT, "a", I(1))]), ("redecl_param_inner", [If(Bin("<", Var("a"), I(1)), [Decl(INT, "a", I(1))])]),
                         ("use_param", [Echo(Var("a"))]), ("param_for_init", [For(Decl(INT, "a", I(0)), Bin("<", Var("a"), I(1)), Post("++", "a"), [])])):
            w = World()
            ps = [Param(INT, "a")]
            if where == "fn":
                w.funcs.append(Func("pf", ps, VOID, copy.deepcopy(body)))
            elif where == "method":
                w.classes.append(Class("PC", ctors=[Ctor([], [], default=True)], methods=[Method("pm", ps, VOID, copy.deepcopy(body))]))
            elif where == "static":
                w.classes.append(Class("PC", ctors=[Ctor([], [], default=True)], methods=[Method("pm", ps, VOID, copy.deepcopy(body), static=True)]))
            else:
                w.classes.append(Class("PC", ctors=[Ctor(ps, copy.deepcopy(body))]))
            out.append(case("scope:%s:%s" % (sn, where), "scope", w, "%s in %s" % (sn, where)))
    return out


def returns():
    """F7: return rules in every context and nesting"""
    out = []
    for hole in HOLES:
        for rn, r in (("value", Ret(I(1))), ("bare", Ret()), ("void_call", Ret(Call("fv"))), ("null", Ret(Null())), ("str", Ret(S("x")))):
            for sh in ("plain", "if_then", "if_else", "while", "for_body", "block", "deep"):
                w = World().fill(hole, stmt_hosts([copy.deepcopy(r)])[sh])
                out.append(case("ret:%s:%s:%s" % (rn, hole, sh), "return", w, "return form '%s' in %s (%s)" % (rn, hole, sh)))
    return out


def hierarchies(rnd, full):
    """F6: abstractness through hierarchies in every declaration order"""
    out = []
    INT = TY["int"]

    def abs_m(name="area"):
        return dict(Method(name, [], INT, [], virtual=True), abstract_body=True)

    def impl_m(name="area"):
        return Method(name, [], INT, [Ret(I(1))], virtual=True, override=True)
    shapes = {
        "leaf_unimpl_3": [("R", "", [abs_m()], False), ("M", "R", [], False), ("L", "M", [], False)],
        "leaf_impl_3": [("R", "", [abs_m()], False), ("M", "R", [], False), ("L", "M", [impl_m()], False)],
        "mid_impl_3": [("R", "", [abs_m()], False), ("M", "R", [impl_m()], False), ("L", "M", [], False)],
        "two_abs_one_impl": [("R", "", [abs_m(), abs_m("peri")], False), ("M", "R", [impl_m()], False), ("L", "M", [], False)],
        "two_abs_split_impl": [("R", "", [abs_m(), abs_m("peri")], False), ("M", "R", [impl_m()], False), ("L", "M", [impl_m("peri")], False)],
        "mid_adds_abs": [("R", "", [], False), ("M", "R", [abs_m()], False), ("L", "M", [], False)],
        "declared_abstract_leaf": [("R", "", [], False), ("M", "R", [], False), ("L", "M", [], True)],
        "declared_abstract_root": [("R", "", [], True), ("M", "R", [], False), ("L", "M", [], False)],
        "deep_4": [("R", "", [abs_m()], False), ("M", "R", [], False), ("N", "M", [], False), ("L", "N", [], False)],
        "deep_4_impl_mid": [("R", "", [abs_m()], False), ("M", "R", [], False), ("N", "M", [impl_m()], False), ("L", "N", [], False)],
    }
    for sn, spec in shapes.items():
        names = [s[0] for s in spec]
        for target in names:
            for pos, mk in (("init", lambda t: [Decl(C(t), "x", New(t))]), ("arg", lambda t: [Expr(Call("takes", New(t)))]),
                            ("stmt", lambda t: [Expr(New(t))]), ("ret", None), ("field", None)):
                w = World()
                for (n, b, ms, ab) in spec:
                    w.classes.append(Class(n, base=b, abstract=ab, ctors=[Ctor([], [Super()] if b else [])], methods=copy.deepcopy(ms)))
                w.funcs.append(Func("takes", [Param(C(names[0]), "o")], VOID, []))
                if pos == "ret":
                    w.funcs.append(Func("mk", [], C(names[0]), [Ret(New(target))]))
                elif pos == "field":
                    w.classes.append(Class("Holder", fields=[Field(C(names[0]), "o", New(target))], ctors=[Ctor([], [], default=True)]))
                else:
                    w.fill("main", mk(target), with_pre=False)
                base_n = len(World().prog()["classes"])
                idx = list(range(base_n, base_n + len(spec)))
                perms = list(itertools.permutations(idx)) if (full or len(spec) <= 3) else [tuple(idx), tuple(reversed(idx))] + [tuple(rnd.sample(idx, len(idx))) for _ in range(3)]
                for pi, perm in enumerate(sorted(set(perms))):
                    nclasses = base_n + len(spec) + (1 if pos == "field" else 0)
                    order = [("c", i) for i in range(base_n)] + [("c", i) for i in perm] + [("c", i) for i in range(base_n + len(spec), nclasses)]
                    c = case("hier:%s:%s:%s:%d" % (sn, target, pos, pi), "instantiate", w, "new %s in %s, hierarchy %s, class order %s" % (target, pos, sn, perm))
                    nf = len(c["prog"]["funcs"])
                    c["order"] = order + [("f", i) for i in range(nf)]
                    out.append(c)
    return out


def generics():
    """F8: instantiations of generic classes are distinct types, related only through the declared base type arguments"""
    out = []
    GT = {"BoxI": C("Box", [P("int")]), "BoxF": C("Box", [P("float")]), "BoxB": C("Box", [C("Base")]), "BoxD": C("Box", [C("Derived")]),
          "LBoxI": C("LBox", [P("int")]), "LBoxF": C("LBox", [P("float")]), "IBox": C("IBox"), "Base": C("Base")}
    SRC = {"BoxI": New("Box", I(1), targs=[P("int")]), "BoxF": New("Box", F(3, 2), targs=[P("float")]), "BoxB": New("Box", Var("ob"), targs=[C("Base")]),
           "BoxD": New("Box", Var("od"), targs=[C("Derived")]), "LBoxI": New("LBox", I(2), targs=[P("int")]),
           "LBoxF": New("LBox", F(5, 2), targs=[P("float")]), "IBox": New("IBox"), "null": Null(), "Base": Var("ob"), "int": I(3)}
    for tn, T_ in GT.items():
        for sn, src in SRC.items():
            for via_local in (False, True):
                pre_s = []
                e = copy.deepcopy(src)
                if via_local and sn in GT:
                    pre_s = [Decl(GT[sn], "gsrc", copy.deepcopy(src))]
                    e = Var("gsrc")
                elif via_local:
                    continue
                tag = "%s:%s:%s" % (tn, sn, "var" if via_local else "expr")
                w = World().fill("main", pre_s + [Decl(T_, "r0", e)])
                out.append(case("gen:init:" + tag, "type", w, "%s into an initialiser of type %s" % (sn, tn)))
                good = SRC[tn] if tn in SRC else Null()
                w = World().fill("m_base", pre_s + [Decl(T_, "r0", copy.deepcopy(good)), Expr(Asg("r0", copy.deepcopy(e)))])
                out.append(case("gen:assign:" + tag, "type", w, "%s assigned to a variable of type %s" % (sn, tn)))
                w = World().fill("main", pre_s + [Expr(Call("gtake", copy.deepcopy(e)))])
                w.funcs.append(Func("gtake", [Param(T_, "v")], TY["int"], [Ret(I(0))]))
                out.append(case("gen:arg:" + tag, "type", w, "%s passed to a parameter of type %s" % (sn, tn)))
                gu = Class("GU", methods=[Method("mtake", [Param(T_, "v")], TY["int"], [Ret(I(0))]), Method("stake", [Param(T_, "v")], TY["int"], [Ret(I(0))], static=True)],
                           ctors=[Ctor([], [], default=True), Ctor([Param(T_, "v")], [])])
                w = World().fill("main", pre_s + [Decl(C("GU"), "gu", New("GU")), Expr(MCall(Var("gu"), "mtake", copy.deepcopy(e)))])
                w.classes.append(copy.deepcopy(gu))
                out.append(case("gen:marg:" + tag, "type", w, "%s passed to a method parameter of type %s" % (sn, tn)))
                w = World().fill("main", pre_s + [Expr(SCall("GU", "stake", copy.deepcopy(e)))])
                w.classes.append(copy.deepcopy(gu))
                out.append(case("gen:sarg:" + tag, "type", w, "%s passed to a static method parameter of type %s" % (sn, tn)))
                w = World().fill("main", pre_s + [Decl(C("GU"), "gu", New("GU", copy.deepcopy(e)))])
                w.classes.append(copy.deepcopy(gu))
                out.append(case("gen:carg:" + tag, "type", w, "%s passed to a constructor parameter of type %s" % (sn, tn)))
                w = World()
                w.funcs.append(Func("gret", [], T_, pre() + pre_s + [Ret(copy.deepcopy(e))]))
                out.append(case("gen:return:" + tag, "type", w, "%s returned as %s" % (sn, tn)))
                w = World().fill("main", pre_s + [Decl(C("GH"), "gh", New("GH")), Expr(FAsg(Var("gh"), "slot", copy.deepcopy(e)))])
                w.classes.append(Class("GH", fields=[Field(T_, "slot")], ctors=[Ctor([], [], default=True)]))
                out.append(case("gen:field:" + tag, "type", w, "%s stored into a field of type %s" % (sn, tn)))
    # members of instantiations have the substituted types
    for tn, member_t, ok in (("BoxI", "int", True), ("BoxF", "int", False), ("BoxB", "Base", True), ("BoxD", "Base", True), ("BoxB", "Derived", False),
                             ("LBoxF", "float", True), ("LBoxF", "int", False), ("IBox", "int", True), ("IBox", "str", False)):
        for how in ("field", "method"):
            e = Fld(Var("gx"), "v") if how == "field" else MCall(Var("gx"), "get")
            w = World().fill("main", [Decl(GT[tn], "gx", copy.deepcopy(SRC[tn])), Decl(TY[member_t], "r0", e)])
            out.append(case("gen:member:%s:%s:%s" % (tn, member_t, how), "type", w, "%s of a %s read as %s" % (how, tn, member_t)))
    # a receiver whose static type is a type parameter bounded by a generic instantiation: members have the bound's substituted types
    def bounded_world(stmts, field_recv=False):
        w = World().fill("main", [Decl(C("Cell", [C("Item")]), "cc", New("Cell", New("Item", I(3)), targs=[C("Item")])),
                                  Decl(C("Filler", [C("Cell", [C("Item")])]), "ff", New("Filler", Var("cc"), targs=[C("Cell", [C("Item")])])),
                                  Expr(MCall(Var("ff"), "fill", Var("cc")))])
        w.classes.append(Class("Item", fields=[Field(TY["int"], "weight")], ctors=[Ctor([Param(TY["int"], "w0")], [Expr(FAsg(This(), "weight", Var("w0")))])]))
        w.classes.append(Class("Thing", ctors=[Ctor([], [], default=True)]))
        w.classes.append(Class("Cell", fields=[Field(P("E"), "item")], methods=[Method("get", [], P("E"), [Ret(Var("item"))]), Method("put", [Param(P("E"), "x")], VOID, [Expr(FAsg(This(), "item", Var("x")))])],
                               ctors=[Ctor([Param(P("E"), "first")], [Expr(FAsg(This(), "item", Var("first")))])], tparams=["E"]))
        filler = Class("Filler", fields=[Field(P("T"), "held")], methods=[Method("fill", [Param(P("T"), "c")], VOID, stmts)],
                       ctors=[Ctor([Param(P("T"), "h0")], [Expr(FAsg(This(), "held", Var("h0")))])], tparams=["T"])
        filler["tbounds"] = {"T": "Cell<Item>"}
        w.classes.append(filler)
        return w
    for rname, recv in (("param", lambda: Var("c")), ("field", lambda: Fld(This(), "held"))):
        for vname, val in (("Item", lambda: New("Item", I(1))), ("Thing", lambda: New("Thing")), ("null", Null), ("int", lambda: I(4)), ("Cell", lambda: Var("c"))):
            out.append(case("gen:bounded:%s:store:%s" % (rname, vname), "type", bounded_world([Expr(FAsg(recv(), "item", val()))]), "%s stored into T.item (T extends Cell<Item>)" % vname))
            out.append(case("gen:bounded:%s:put:%s" % (rname, vname), "type", bounded_world([Expr(MCall(recv(), "put", val()))]), "%s passed to T.put (T extends Cell<Item>)" % vname))
        for tname, ty_ in (("Item", C("Item")), ("Thing", C("Thing")), ("int", TY["int"])):
            out.append(case("gen:bounded:%s:read:%s" % (rname, tname), "type", bounded_world([Decl(ty_, "r0", Fld(recv(), "item"))]), "T.item read as %s" % tname))
            out.append(case("gen:bounded:%s:get:%s" % (rname, tname), "type", bounded_world([Decl(ty_, "r0", MCall(recv(), "get"))]), "T.get() read as %s" % tname))
        out.append(case("gen:bounded:%s:deep" % rname, "type", bounded_world([Decl(TY["int"], "r0", Fld(Fld(recv(), "item"), "weight")), Expr(FAsg(Fld(recv(), "item"), "weight", I(2)))]), "T.item.weight"))
        out.append(case("gen:bounded:%s:deep:bad" % rname, "type", bounded_world([Expr(FAsg(Fld(recv(), "item"), "weight", S("s")))]), "string into T.item.weight"))
    # overloads that differ in their result type, called by bare name / through this / through a variable inside the class: the
    # result type is the one of the overload the arguments select, whatever the declaration order
    def ov_world(stmts, order):
        ms = [Method("pick", [Param(TY["str"], "s")], TY["int"], [Ret(I(1))]), Method("pick", [Param(TY["int"], "n")], VOID, []),
              Method("name", [Param(TY["str"], "s")], TY["str"], [Ret(Var("s"))]), Method("name", [Param(TY["int"], "n")], TY["int"], [Ret(Var("n"))])]
        ms = [ms[i] for i in order]
        w = World().fill("main", [Decl(C("Ov"), "ov", New("Ov")), Expr(MCall(Var("ov"), "use"))])
        w.classes.append(Class("Ov", methods=ms + [Method("takeInt", [Param(TY["int"], "v")], TY["int"], [Ret(Var("v"))]), Method("use", [], TY["int"], pre() + stmts + [Ret(I(0))])],
                               ctors=[Ctor([], [], default=True)]))
        return w
    for oname, order in (("fwd", (0, 1, 2, 3)), ("rev", (1, 0, 3, 2))):
        for cname, call in (("bare", lambda m, a: MCall(This(), m, a, bare=True)), ("this", lambda m, a: MCall(This(), m, a)), ("var", lambda m, a: MCall(Var("me"), m, a))):
            pre_v = [Decl(C("Ov"), "me", New("Ov"))] if cname == "var" else []
            for aname, arg in (("int", lambda: I(1)), ("str", lambda: S("s"))):
                tag = "%s:%s:%s" % (oname, cname, aname)
                out.append(case("ovl:init-int:" + tag, "type", ov_world(pre_v + [Decl(TY["int"], "r0", call("pick", arg()))], order), "int r0 = pick(%s)" % aname))
                out.append(case("ovl:assign:" + tag, "type", ov_world(pre_v + [Decl(TY["int"], "r0", I(0)), Expr(Asg("r0", call("pick", arg())))], order), "r0 = pick(%s)" % aname))
                out.append(case("ovl:operand:" + tag, "type", ov_world(pre_v + [Decl(TY["int"], "r0", Bin("+", call("pick", arg()), I(2)))], order), "pick(%s) + 2" % aname))
                out.append(case("ovl:arg:" + tag, "type", ov_world(pre_v + [Decl(TY["int"], "r0", MCall(This(), "takeInt", call("pick", arg()), bare=True))], order), "takeInt(pick(%s))" % aname))
                out.append(case("ovl:return:" + tag, "type", ov_world(pre_v + [Ret(call("pick", arg()))], order), "return pick(%s)" % aname))
                out.append(case("ovl:stmt:" + tag, "type", ov_world(pre_v + [Expr(call("pick", arg()))], order), "pick(%s);" % aname))
                out.append(case("ovl:name-str:" + tag, "type", ov_world(pre_v + [Decl(TY["str"], "r0", call("name", arg()))], order), "string r0 = name(%s)" % aname))
                out.append(case("ovl:name-int:" + tag, "type", ov_world(pre_v + [Decl(TY["int"], "r0", call("name", arg()))], order), "int r0 = name(%s)" % aname))
                out.append(case("ovl:loop:" + tag, "type", ov_world(pre_v + [For(Decl(TY["int"], "i", I(0)), Bin("<", Var("i"), call("pick", arg())), Asg("i", Bin("+", Var("i"), I(1))), [])], order), "i < pick(%s)" % aname))
    # the implicit root class: a target declared 'Object' accepts every class reference and null - and nothing else
    OBJ = C("Object")
    for sname, src in sources():
        e = lambda: copy.deepcopy(src)
        w = World().fill("main", [Decl(OBJ, "r0", e())])
        out.append(case("root:init:" + sname, "type", w, "%s into an initialiser of type Object" % sname))
        w = World().fill("m_base", [Decl(OBJ, "r0", New("Base")), Expr(Asg("r0", e()))])
        out.append(case("root:assign:" + sname, "type", w, "%s assigned to a variable of type Object" % sname))
        w = World().fill("main", [Decl(C("RH"), "rh", New("RH")), Expr(FAsg(Var("rh"), "slot", e()))])
        w.classes.append(Class("RH", fields=[Field(OBJ, "slot")], ctors=[Ctor([], [], default=True)], methods=[Method("put", [], VOID, pre() + [Expr(FAsg(This(), "slot", e()))])]))
        out.append(case("root:field:" + sname, "type", w, "%s stored into a field of type Object" % sname))
        w = World()
        w.funcs.append(Func("rroot", [], OBJ, pre() + [Ret(e())]))
        out.append(case("root:return:" + sname, "type", w, "%s returned as Object" % sname))
        w = World().fill("main", [Expr(Call("takeroot", e()))])
        w.funcs.append(Func("takeroot", [Param(OBJ, "v")], TY["int"], [Ret(I(0))]))
        out.append(case("root:arg:" + sname, "type", w, "%s passed to a parameter of type Object" % sname))
    return out


def all_cases(seed, tier):
    rnd = random.Random(seed)
    full = tier != "quick"
    cs = positions(rnd, full) + type_matrix(rnd, full) + final_fields() + declarations() + scopes() + returns() + hierarchies(rnd, full) + generics()
    # whole-program declaration orders for a sample of the other cases
    extra = []
    pool = [c for c in cs if c["order"] is None]
    for c in rnd.sample(pool, min(len(pool), 400 if not full else 4000)):
        p = c["prog"]
        items = [("c", i) for i in range(len(p["classes"]))] + [("f", i) for i in range(len(p["funcs"]))]
        rnd.shuffle(items)
        c2 = dict(c)
        c2["id"] = c["id"] + ":shuffled"
        c2["order"] = items
        extra.append(c2)
    return cs + extra
