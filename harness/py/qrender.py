"""Turns a QRuntime behaviour (TLC's JSON dump of MCQRuntime.Final) into Bloch source text plus the
observations the real interpreter must exhibit, and compares a prog_runner result against them."""
import cmath
import math
import struct

PI = math.pi


def f32(x):
    return struct.unpack("f", struct.pack("f", x))[0]


def angle_lit(k):
    """Bloch float literal for k*pi/2 (float literals are single precision)."""
    v = f32(k * PI / 2)
    return "%.9gf" % v if "." in ("%.9g" % v) or "e" in ("%.9g" % v) else "%.9g.0f" % v


def angle_val(k):
    return float(f32(k * PI / 2))


def lit(v):
    t = "%.9g" % v
    if "e" in t:
        t = "%.12f" % v
    if "." not in t:
        t += ".0"
    return t + "f"


def angle_expr(k, m):
    """(source expression, value the interpreter computes) for the angle k*pi/2 + 4*pi*m.
    Float literals are single precision; `a + b` is evaluated in double, so for m != 0 the angle is a
    run-time computed double that is not representable as a float."""
    if m == 0:
        v = f32(k * PI / 2)
        return lit(v), float(v)
    a = f32(4 * PI * m)
    b = f32(k * PI / 2 + 4 * PI * m - float(a))
    return "(%s + %s)" % (lit(a), lit(b)), float(a) + float(b)


ROT = ("rx", "ry", "rz")
FIELDS = {"Q1": [("q", 1, True)], "Q2": [("r", 2, True)], "QU": [("q", 1, False), ("p", 1, False)],
          "QD": [("q", 1, True), ("d", 1, False)], "QM": [("q", 1, True)], "QG": [("r", 2, True)], "QH": [("r", 2, True)]}
TYPE_TEXT = {"QG": "QG<int>"}         # how a spec class is written in source (and named in the tracked table)


SUBSCRIPTS = [0]     # spelling of array subscripts cycles through int literal, bit literal, bit variable, long literal


def subscript(i):
    """an element index 0/1 written as an int literal, a bit literal, a bit-typed variable or a long literal: the documented
    integral subscript types all denote the same element"""
    SUBSCRIPTS[0] += 1
    if i not in (0, 1):
        return "%d" % i
    return ("%d", "%db", "%d", ("bz", "bo")[i], "%dL", "%d")[SUBSCRIPTS[0] % 6].replace("%d", str(i))


def ref_text(vars_, v, e):
    var = vars_[v - 1]
    name = "v%d" % v
    if var["k"] == "q":
        return name, None
    if var["k"] == "a":
        return "%s[%s]" % (name, subscript(e - 1)), None
    cls = var["cls"]
    pos = e
    for fname, w, _ in FIELDS[cls]:
        if pos <= w:
            own = fname if w == 1 else "%s[%d]" % (fname, pos - 1)
            return "%s.%s" % (name, fname if w == 1 else "%s[%s]" % (fname, subscript(pos - 1))), own
        pos -= w
    raise ValueError("bad ref")


PRELUDE = '''class Q1 { @tracked public qubit q; public constructor() -> Q1 = default;
  public function oh(int w) -> void { if (w == 0) { h(q); } }
  public function ogate(int g, float a) -> void { if (g == 0) { h(q); } if (g == 1) { x(this.q); } if (g == 2) { y(q); } if (g == 3) { z(this.q); } if (g == 4) { rx(q, a); } if (g == 5) { ry(this.q, a); } if (g == 6) { rz(q, a); } }
  public function om() -> bit { bit r0 = measure q; return r0; }
  public function oms() -> void { measure this.q; }
}
class Q2 { @tracked public qubit[2] r; public constructor() -> Q2 = default;
  public function ogate(int i, int g, float a) -> void { if (g == 0) { h(r[i]); } if (g == 1) { x(this.r[i]); } if (g == 2) { y(r[i]); } if (g == 3) { z(r[i]); } if (g == 4) { rx(r[i], a); } if (g == 5) { ry(r[i], a); } if (g == 6) { rz(this.r[i], a); } }
  public function om(int i) -> bit { bit r0 = measure r[i]; return r0; }
  public function oms(int i) -> void { measure this.r[i]; }
}
class QG<T> { @tracked public qubit[2] r; public T tag; public constructor() -> QG<T> = default;
  public function ogate(int i, int g, float a) -> void { if (g == 0) { h(r[i]); } if (g == 1) { x(this.r[i]); } if (g == 2) { y(r[i]); } if (g == 3) { z(r[i]); } if (g == 4) { rx(r[i], a); } if (g == 5) { ry(r[i], a); } if (g == 6) { rz(this.r[i], a); } }
  public function om(int i) -> bit { bit r0 = measure r[i]; return r0; }
  public function oms(int i) -> void { measure this.r[i]; }
}
class QH extends QG<int> { public int extra = 1; public constructor() -> QH { super(); } }
class QU { public qubit q; public qubit p; public constructor() -> QU = default;
  public function ogate(int i, int g, float a) -> void { if (i == 0) { if (g == 0) { h(q); } if (g == 1) { x(q); } if (g == 2) { y(q); } if (g == 3) { z(q); } if (g == 4) { rx(q, a); } if (g == 5) { ry(q, a); } if (g == 6) { rz(q, a); } } else { if (g == 0) { h(p); } if (g == 1) { x(p); } if (g == 2) { y(p); } if (g == 3) { z(p); } if (g == 4) { rx(p, a); } if (g == 5) { ry(p, a); } if (g == 6) { rz(p, a); } } }
  public function om(int i) -> bit { if (i == 0) { bit r0 = measure q; return r0; } bit r1 = measure p; return r1; }
  public function oms(int i) -> void { if (i == 0) { measure q; } else { measure p; } }
  public function ocx(int c) -> void { if (c == 0) { cx(q, p); } else { cx(p, q); } }
}
class QD extends Q1 { public qubit d; public constructor() -> QD = default;
  public function ogate2(int i, int g, float a) -> void { if (i == 0) { if (g == 0) { h(q); } if (g == 1) { x(q); } if (g == 2) { y(this.q); } if (g == 3) { z(q); } if (g == 4) { rx(q, a); } if (g == 5) { ry(q, a); } if (g == 6) { rz(q, a); } } else { if (g == 0) { h(d); } if (g == 1) { x(d); } if (g == 2) { y(d); } if (g == 3) { z(this.d); } if (g == 4) { rx(d, a); } if (g == 5) { ry(d, a); } if (g == 6) { rz(d, a); } } }
  public function om2(int i) -> bit { if (i == 0) { bit r0 = measure q; return r0; } bit r1 = measure d; return r1; }
  public function oms2(int i) -> void { if (i == 0) { measure q; } else { measure this.d; } }
}
class QM extends Q1 { public constructor() -> QM = default;
  public destructor() -> void { reset q; h(this.q); bit f0 = measure q; }
}
static class Ops {
  public static function sgate(qubit t, int g, float a) -> void { if (g == 0) { h(t); } if (g == 1) { x(t); } if (g == 2) { y(t); } if (g == 3) { z(t); } if (g == 4) { rx(t, a); } if (g == 5) { ry(t, a); } if (g == 6) { rz(t, a); } }
  public static function scx(qubit c, qubit t) -> void { cx(c, t); }
  public static function sm(qubit t) -> bit { bit r0 = measure t; return r0; }
  public static function sms(qubit t) -> void { measure t; }
}
function relayQ1(Q1 o, int g, float a, qubit q) -> void { o.ogate(g, a); }
function relayQ2(Q2 o, int i, int g, float a, qubit[] r) -> void { o.ogate(i, g, a); }
function relayQG(QG<int> o, int i, int g, float a, qubit[] r) -> void { o.ogate(i, g, a); }
function relayQU(QU o, int i, int g, float a, qubit q, qubit p) -> void { o.ogate(i, g, a); }
function relayQD(QD o, int i, int g, float a, qubit q, qubit d) -> void { o.ogate2(i, g, a); }
@quantum function fgate(qubit t, int g, float a) -> void { if (g == 0) { h(t); } if (g == 1) { x(t); } if (g == 2) { y(t); } if (g == 3) { z(t); } if (g == 4) { rx(t, a); } if (g == 5) { ry(t, a); } if (g == 6) { rz(t, a); } }
@quantum function frot(qubit t, int g, float a) -> void { final float th = a; final float neg = 0.0f - th; if (g == 4) { rx(t, th); } if (g == 5) { ry(t, th); } if (g == 6) { rz(t, 0.0f - neg); } }
@quantum function fcx(qubit c, qubit t) -> void { cx(c, t); }
@quantum function fm(qubit t) -> bit { bit r0 = measure t; return r0; }
@quantum function fms(qubit t) -> void { measure t; }
'''
PRELUDE_LINES = PRELUDE.count("\n")
GIDX = {"h": 0, "x": 1, "y": 2, "z": 3, "rx": 4, "ry": 5, "rz": 6}


def own_index(cls, e):
    return e - 1


def render(beh):
    """Returns (source, info) where info has stmt_line (1-based statement -> source line)."""
    vars_ = beh["vars"]
    lines = []
    stmt_line = {}
    nb = [0]

    def fresh_bit():
        nb[0] += 1
        return "b%d" % nb[0]

    lines.append("function main() -> void {")
    lines.append("int[] lut = {0, 1}; bit bz = 0b; bit bo = 1b;")
    SUBSCRIPTS[0] = 0
    scopes = [[]]         # plain qubit / qubit[2] locals in scope: (variable number, kind)
    for n, st in enumerate(beh["prog"], start=1):
        s = st["s"]
        stmt_line[n] = PRELUDE_LINES + len(lines) + 1
        if s == "declq":
            scopes[-1].append((st["v"], "q"))
        elif s == "declarr":
            scopes[-1].append((st["v"], "a"))
        elif s == "open":
            scopes.append([])
        elif s == "close" and len(scopes) > 1:
            scopes.pop()
        if s == "declq":
            lines.append("%squbit v%d;" % ("@tracked " if st["tracked"] else "", st["v"]))
        elif s == "declarr":
            lines.append("%squbit[2] v%d;" % ("@tracked " if st["tracked"] else "", st["v"]))
        elif s == "new":
            tt = TYPE_TEXT.get(st["cls"], st["cls"])
            lines.append("%s v%d = new %s();" % (tt, st["v"], tt))
        elif s == "gate":
            ref, own = ref_text(vars_, st["v"], st["e"])
            g, k, path = st["g"], st["k"], st["path"]
            ang = angle_expr(k, st.get("m", 0))[0] if g in ROT else "0.0f"
            var = vars_[st["v"] - 1]
            if path == "own" and var["k"] == "obj":
                # every other own-path gate goes through a relay function whose PARAMETERS carry the names of the class's
                # qubit fields and are bound to some other qubit in scope: a field name resolved outside the object is visible
                others_q = [w for sc in scopes for w in sc if w[1] == "q"]
                others_a = [w for sc in scopes for w in sc if w[1] == "a"]
                relay = n % 2 == 0
                if var["cls"] in ("Q1", "QM"):
                    if relay and others_q:
                        lines.append("relayQ1(v%d, %d, %s, v%d);" % (st["v"], GIDX[g], ang, others_q[-1][0]))
                    else:
                        lines.append("v%d.ogate(%d, %s);" % (st["v"], GIDX[g], ang))
                elif var["cls"] == "QD":
                    if relay and others_q:
                        lines.append("relayQD(v%d, %d, %d, %s, v%d, v%d);" % (st["v"], st["e"] - 1, GIDX[g], ang, others_q[-1][0], others_q[0][0]))
                    else:
                        lines.append("v%d.ogate2(%d, %d, %s);" % (st["v"], st["e"] - 1, GIDX[g], ang))
                elif var["cls"] == "QU":
                    if relay and others_q:
                        lines.append("relayQU(v%d, %d, %d, %s, v%d, v%d);" % (st["v"], st["e"] - 1, GIDX[g], ang, others_q[-1][0], others_q[0][0]))
                    else:
                        lines.append("v%d.ogate(%d, %d, %s);" % (st["v"], st["e"] - 1, GIDX[g], ang))
                else:
                    if relay and others_a:
                        lines.append("relay%s(v%d, %d, %d, %s, v%d);" % ("Q2" if var["cls"] == "Q2" else "QG", st["v"], st["e"] - 1, GIDX[g], ang, others_a[-1][0]))
                    else:
                        lines.append("v%d.ogate(%d, %d, %s);" % (st["v"], st["e"] - 1, GIDX[g], ang))
            elif path == "fn" and g in ROT and n % 2 == 1:
                # the angle reaches the gate through final locals of the callee (fresh on every activation)
                lines.append("frot(%s, %d, %s);" % (ref, GIDX[g], ang))
            elif path == "fn":
                lines.append("fgate(%s, %d, %s);" % (ref, GIDX[g], ang))
            elif path == "static":
                lines.append("Ops.sgate(%s, %d, %s);" % (ref, GIDX[g], ang))
            elif var["k"] == "a" and n % 3 == 0:
                lines.append("int c%d = %d; %s(v%d[c%d++]%s); if (c%d != %d) { echo(\"cursor\"); }"
                             % (n, st["e"] - 1, g, st["v"], n, (", " + ang) if g in ROT else "", n, st["e"]))
            else:
                lines.append("%s(%s%s);" % (g, ref, (", " + ang) if g in ROT else ""))
        elif s == "cx":
            a, _ = ref_text(vars_, st["v"], st["e"])
            b, _ = ref_text(vars_, st["v2"], st["e2"])
            path = st["path"]
            var = vars_[st["v"] - 1]
            if path == "own" and st["v"] == st["v2"] and st["e"] != st["e2"] and var["k"] == "obj" and var["cls"] == "QU":
                lines.append("v%d.ocx(%d);" % (st["v"], st["e"] - 1))
            elif path == "fn":
                lines.append("fcx(%s, %s);" % (a, b))
            elif path == "static":
                lines.append("Ops.scx(%s, %s);" % (a, b))
            else:
                lines.append("cx(%s, %s);" % (a, b))
        elif s == "measure":
            ref, own = ref_text(vars_, st["v"], st["e"])
            path, expr = st["path"], st["expr"]
            var = vars_[st["v"] - 1]
            if path == "own" and var["k"] == "obj":
                arg = "" if var["cls"] in ("Q1", "QM") else str(st["e"] - 1)
                suffix = "2" if var["cls"] == "QD" else ""
                call = "v%d.%s%s(%s)" % (st["v"], "om" if expr else "oms", suffix, arg)
            elif path == "fn":
                call = "%s(%s)" % ("fm" if expr else "fms", ref)
            elif path == "static":
                call = "Ops.%s(%s)" % ("sm" if expr else "sms", ref)
            else:
                call = None
            cur = call is None and var["k"] == "a" and n % 2 == 1
            if cur:
                ref = "v%d[c%d++]" % (st["v"], n)
            pre = "int c%d = %d; " % (n, st["e"] - 1) if cur else ""
            post = " if (c%d != %d) { echo(\"cursor\"); }" % (n, st["e"]) if cur else ""
            if expr and n % 4 == 0:
                # ... or sits in the index of the echoed element
                lines.append("%secho(lut[%s]);%s" % (pre, call or ("measure " + ref), post))
            elif expr and n % 4 == 2:
                # the measurement is the echo argument itself: performed whether or not echo output is switched on
                lines.append("%secho(%s);%s" % (pre, call or ("measure " + ref), post))
            elif expr:
                b = fresh_bit()
                lines.append("%sbit %s = %s; echo(%s);%s" % (pre, b, call or ("measure " + ref), b, post))
            else:
                lines.append(pre + ((call + ";") if call else ("measure %s;" % ref)) + post)
        elif s == "measarr":
            lines.append("measure v%d;" % st["v"])
        elif s == "reset":
            ref, _ = ref_text(vars_, st["v"], st["e"])
            if vars_[st["v"] - 1]["k"] == "a" and n % 2 == 0:
                # the target expression has a side effect (the usual register-clearing cursor): it is evaluated once
                lines.append("int c%d = %d; reset v%d[c%d++]; if (c%d != %d) { echo(\"cursor\"); }" % (n, st["e"] - 1, st["v"], n, n, st["e"]))
            else:
                lines.append("reset %s;" % ref)
        elif s == "destroy":
            lines.append("destroy v%d;" % st["v"])
        elif s == "open":
            lines.append("{")
        elif s == "close":
            lines.append("}")
        else:
            raise ValueError("unknown stmt " + s)
    # blocks still open when the behaviour halted must be closed syntactically
    opens = sum(1 for st in beh["prog"] if st["s"] == "open") - sum(1 for st in beh["prog"] if st["s"] == "close")
    lines.extend(["}"] * opens)
    lines.append("}")
    return PRELUDE + "\n".join(lines) + "\n", {"stmt_line": stmt_line}


def ring_to_c(z):
    w = cmath.exp(1j * PI / 4)
    return (z[0] + z[1] * w + z[2] * w * w + z[3] * w ** 3) / (math.sqrt(2) ** z[4])


def expected_qasm(beh):
    n = beh["n"]
    out = ['OPENQASM 2.0;', 'include "qelib1.inc";', "qreg q[%d];" % n, "creg c[%d];" % n]
    for op in beh["ops"]:
        g, a, b, k = op["g"], op["a"], op["b"], op["k"]
        if g == "cx":
            out.append("cx q[%d],q[%d];" % (a, b))
        elif g in ROT:
            out.append("%s(%.6f) q[%d];" % (g, angle_expr(k, op.get("m", 0))[1], a))
        elif g == "measure":
            out.append("measure q[%d] -> c[%d];" % (a, a))
        else:
            out.append("%s q[%d];" % (g, a))
    return "\n".join(out) + "\n"


def draws_of(beh):
    return [d / 8.0 for d in beh["draws"]]


def same_up_to_phase(impl, spec, tol):
    if len(impl) != len(spec):
        return False, "length %d vs %d" % (len(impl), len(spec))
    big = max(range(len(spec)), key=lambda i: abs(spec[i]))
    if abs(spec[big]) < 1e-12:
        return False, "spec vector is zero"
    ph = impl[big] / spec[big]
    if abs(abs(ph) - 1) > tol:
        return False, "norm ratio %g" % abs(ph)
    err = max(abs(impl[i] - ph * spec[i]) for i in range(len(spec)))
    return err < tol, "max amplitude error %g" % err


def compare(beh, info, res, tol=2e-5, log_on=True, echo_on=True):
    """Returns list of (property, message) disagreements between spec behaviour and implementation."""
    out = []
    halted = beh["halted"]
    if res["status"] == "crash":
        return [("C12,C03,C05,C06,C17,C02", "interpreter crashed (rc=%s) %s" % (res.get("rc"), res.get("stderr", "")[-300:]))]
    if res["status"] in ("lexical", "parse", "semantic", "other", "timeout", "terminate", "generic"):
        return [("INFRA", "generated program rejected: %s %s" % (res["status"], res.get("what", "")))]
    shot = res["shots"][0] if res["shots"] else None
    if shot is None:
        return [("INFRA", "no shot result")]
    if halted:
        if shot["status"] != "runtime":
            st0 = beh["prog"][halted - 1]
            same0 = st0["s"] == "cx" and beh["vars"][st0["v"] - 1]["idx"][st0["e"] - 1] == beh["vars"][st0["v2"] - 1]["idx"][st0["e2"] - 1]
            out.append(("C05" if same0 else "C06", "spec: statement %d %s and must stop with a runtime error; implementation status=%s"
                        % (halted, "applies cx to one qubit twice" if same0 else "operates on a measured qubit", shot["status"])))
        else:
            st = beh["prog"][halted - 1]
            same = st["s"] == "cx" and beh["vars"][st["v"] - 1]["idx"][st["e"] - 1] == beh["vars"][st["v2"] - 1]["idx"][st["e2"] - 1]
            if same and "distinct" in shot.get("what", ""):
                pass
            elif "measured" not in shot.get("what", ""):
                out.append(("C05" if same else "C06", "runtime error is not the expected refusal: %s" % shot.get("what")))
            if shot.get("line", 0) <= 0 or shot.get("col", 0) <= 0:
                out.append(("C06", "runtime error is not located: %s" % shot.get("what")))
            elif st.get("path", "direct") == "direct" and st["s"] != "measarr" and shot["line"] != info["stmt_line"][halted]:
                out.append(("C06", "runtime error located at line %d, offending statement is on line %d"
                            % (shot["line"], info["stmt_line"][halted])))
    else:
        if shot["status"] != "ok":
            out.append(("C06", "spec: no operation touches a measured qubit, program must run to completion; "
                               "implementation: %s %s" % (shot["status"], shot.get("what", ""))))
            return out
        exp_echo = [str(b) for b in beh["echo"]] if echo_on else []
        if shot["echo"] != exp_echo:
            out.append(("C02", "echoed measurement bits %s, spec %s" % (shot["echo"], exp_echo)))
    # simulator op stream (events) = spec ops, with outcomes
    evops = [e for e in shot.get("events", []) if e["e"] == "op"]
    specops = beh["ops"]
    for i in range(max(len(evops), len(specops))):
        if i >= len(evops) or i >= len(specops):
            extra = evops[i] if i < len(evops) else specops[i]
            out.append(("C03,C04" if extra.get("g") == "reset" else "C03,C02" if extra.get("g") == "measure" else "C03", "simulator performed %d operations, spec %d (first extra/missing at #%d: %s)"
                        % (len(evops), len(specops), i + 1, (evops[i] if i < len(evops) else specops[i]))))
            break
        e, s = evops[i], specops[i]
        same = e["g"] == s["g"] and e["a"] == s["a"] and (s["g"] != "cx" or e.get("b") == s["b"])
        if same and s["g"] in ROT:
            same = abs(e["t"] - angle_expr(s["k"], s.get("m", 0))[1]) < 1e-9
        if not same:
            # a gate that reached the simulator with another name, index or angle than the program wrote is C01's business too
            # ... a reset / measurement of another qubit than the program named is the business of C04 / C02 as well
            kinds = {s["g"], e.get("g")}
            props = "C03" + (",C04" if "reset" in kinds else "") + (",C02" if "measure" in kinds else "") + (",C01" if kinds - {"measure", "reset"} else "")
            out.append((props, "operation #%d on the simulator is %s, spec %s (wrong qubit index or gate)" % (i + 1, e, s)))
            break
        if s["g"] in ("measure", "reset") and e.get("out") != s["out"]:
            prop = "C02" if s["g"] == "measure" else "C04"
            out.append((prop, "operation #%d %s q[%d]: outcome %s with draw %s, spec outcome %s"
                        % (i + 1, s["g"], s["a"], e.get("out"), e.get("r"), s["out"])))
            break
    nalloc = sum(1 for e in shot.get("events", []) if e["e"] == "alloc")
    if nalloc != beh["n"]:
        out.append(("C03", "simulator allocated %d qubits, spec %d" % (nalloc, beh["n"])))
    # final state
    fin = shot.get("final")
    if fin:
        if fin["n"] != beh["n"] or len(fin["amp"]) != 2 ** beh["n"]:
            out.append(("C03", "final register: n=%d, %d amplitudes; spec n=%d" % (fin["n"], len(fin["amp"]), beh["n"])))
        else:
            impl = [complex(a, b) for a, b in fin["amp"]]
            if not all(math.isfinite(z.real) and math.isfinite(z.imag) for z in impl):
                out.append(("C03", "non-finite amplitude in final state"))
            else:
                nrm = sum(abs(z) ** 2 for z in impl)
                if abs(nrm - 1) > 1e-6:
                    out.append(("C03", "final state norm^2 = %g" % nrm))
                if beh.get("basis", -1) >= 0:       # behaviour of the basis-state model: the state is one basis vector
                    want = [1.0 if i == beh["basis"] else 0.0 for i in range(2 ** beh["n"])]
                else:
                    want = [ring_to_c(z) for z in beh["vec"]]
                ok, why = same_up_to_phase(impl, want, tol)
                if not ok:
                    # the spec state is also what replaying the listing on an independent interpreter gives (C05)
                    out.append(("C03,C01,C05", "final amplitudes differ from the exact spec state (%s)" % why))
        if fin["simmeas"] != beh["simmeas"] or fin["evmeas"][:beh["n"]] != beh["evmeas"]:
            out.append(("C06", "measured flags: simulator %s evaluator %s; spec %s / %s"
                        % (fin["simmeas"], fin["evmeas"], beh["simmeas"], beh["evmeas"])))
        if fin["last"][:beh["n"]] != beh["last"]:
            out.append(("C17,C02", "last-measurement table %s, spec %s" % (fin["last"], beh["last"])))
        if fin["free"] != beh["free"]:
            out.append(("C03", "free list %s, spec %s" % (fin["free"], beh["free"])))
    # end-of-run report of unmeasured qubits (QRuntime.Warned): one line per named, unflagged qubit, in index order.
    # The report is not part of any listed property: a disagreement is a NOTE (recorded in the evidence, no alarm) unless
    # it can only come from the evaluator-side measured flag of C06 - a variable reported more often than it has unmeasured
    # elements means a measured qubit whose flag is unset, i.e. one the evaluator would let a gate act on.
    # (the runner captures stderr per job, not per execution: only single-execution jobs can be compared)
    if "warn" in beh and "stderr" in res and not halted and shot["status"] == "ok" and len(res["shots"]) == 1:
        import re
        got = re.findall(r"Qubit (\S+) was left unmeasured", res["stderr"])
        want_w = ["v%d" % i for i in beh["warn"]]
        if got != want_w:
            over = sorted({g for g in got if re.fullmatch(r"v\d+", g) and got.count(g) > want_w.count(g)})
            if over:
                out.append(("C06", "end-of-run report calls %s unmeasured more often than it has unmeasured elements (report %s, spec %s): "
                                   "the evaluator-side measured flag of a measured qubit is unset" % (over, got, want_w)))
            else:
                out.append(("NOTE", "unmeasured-qubit report names %s, spec %s" % (got, want_w)))
    # tracked outcomes
    exp = {}
    for key, outcome in beh["trk"]:
        for spec_name, text in TYPE_TEXT.items():
            if key.startswith(spec_name + "."):
                key = text + key[len(spec_name):]
        exp.setdefault(key, {})
        exp[key][outcome] = exp[key].get(outcome, 0) + 1
    if shot.get("tracked") != exp:
        out.append(("C17,C02", "tracked counts %s, spec %s" % (shot.get("tracked"), exp)))
    # QASM text: well-formed, lists exactly the spec's operations in order (angles to 6 decimals)
    if "qasm" in shot:
        import qasmparse
        doc, problems = qasmparse.parse(shot["qasm"])
        for pr in problems[:3]:
            out.append(("C05", "emitted QASM is not well-formed: %s" % pr))
        if not problems:
            if doc["n"] != beh["n"]:
                out.append(("C05", "qreg/creg sized %s, qubits allocated %d" % (doc["n"], beh["n"])))
            so = beh["ops"] if log_on else []   # with logging off the listing has the header only
            qo = doc["ops"]
            bad = None
            for i in range(max(len(so), len(qo))):
                if i >= len(so) or i >= len(qo):
                    bad = "listing has %d operations, the run performed %d" % (len(qo), len(so))
                    break
                a, b = qo[i], so[i]
                ok = a["g"] == b["g"] and a["a"] == b["a"] and (b["g"] != "cx" or a["b"] == b["b"])
                if ok and b["g"] in ROT:
                    ok = abs(a["theta"] - angle_expr(b["k"], b.get("m", 0))[1]) <= 6e-7
                if ok and b["g"] == "measure":
                    ok = a["c"] == a["a"]
                if not ok:
                    bad = "operation #%d in the listing is %s, the run performed %s" % (i + 1, a, b)
                    break
            if bad:
                out.append(("C05", bad))
    return out
