"""Programs for C11(b): objects held only by pending values while statement boundaries (= possible collection
points) occur - pending call arguments, an object under construction, returned temporaries, receivers of method
calls - plus allocation pressure (> 16 allocations between boundaries) and cyclic garbage without destructors."""
import random

from bsyntax import *


def base_classes(dtor):
    p = Class("Pt", "", [Field(P("int"), "v"), Field(P("str"), "tag", S("t"))],
              [Method("get", [], P("int"), [Ret(Var("v"))]),
               Method("add", [Param(C("Pt"), "o"), Param(P("int"), "k")], P("int"), [Ret(Bin("+", Bin("+", Var("v"), Fld(Var("o"), "v")), Var("k")))]),
               Method("clone", [], C("Pt"), [Ret(New("Pt", Bin("+", Var("v"), I(1))))])],
              [Ctor([Param(P("int"), "x")], [Expr(FAsg(This(), "v", Var("x")))])],
              [Echo(Bin("+", S("~Pt "), Var("v")))] if dtor else [])
    n = Class("Node", "", [Field(C("Node"), "next"), Field(P("int"), "id")], [],
              [Ctor([Param(P("int"), "i")], [Expr(FAsg(This(), "id", Var("i")))])], [])
    w = Class("Wrap", "", [Field(C("Pt"), "inner"), Field(P("int"), "w", I(3))],
              [Method("val", [], P("int"), [Ret(Bin("+", Fld(Var("inner"), "v"), Var("w")))])],
              [Ctor([Param(C("Pt"), "p"), Param(P("int"), "extra")], [Expr(FAsg(This(), "inner", Var("p"))), Expr(FAsg(This(), "w", Var("extra")))])],
              [Echo(S("~Wrap"))] if dtor else [])
    # an object the sweep exempts (it owns a tracked qubit) that is the only path to a plain object
    r = Class("Reg", "", [dict(Field(P("qubit"), "q"), tracked=True), Field(C("Pt"), "inner")],
              [Method("val", [], P("int"), [Ret(Fld(Var("inner"), "v"))])],
              [Ctor([Param(C("Pt"), "p")], [Expr(FAsg(This(), "inner", Var("p")))])], [])
    return [p, n, w, r]


FUNCS = [
    # allocation pressure: n short-lived objects, one statement boundary per iteration
    Func("churn", [Param(P("int"), "n")], P("int"),
         [Decl(P("int"), "s", I(0)),
          For(Decl(P("int"), "i", I(0)), Bin("<", Var("i"), Var("n")), Asg("i", Bin("+", Var("i"), I(1))),
              [Decl(C("Pt"), "t", New("Pt", Var("i"))), Expr(Asg("s", Bin("+", Var("s"), Fld(Var("t"), "v"))))]),
          Ret(Var("s"))]),
    Func("use", [Param(C("Pt"), "a"), Param(P("int"), "k")], P("int"), [Ret(Bin("+", Fld(Var("a"), "v"), Var("k")))]),
    Func("use2", [Param(P("int"), "k"), Param(C("Pt"), "a")], P("int"), [Ret(Bin("+", Fld(Var("a"), "v"), Var("k")))]),
    Func("mk", [Param(P("int"), "x")], C("Pt"), [Decl(P("int"), "pad", Call("churn", I(3))), Ret(New("Pt", Var("x")))]),
    Func("useReg", [Param(C("Reg"), "r"), Param(P("int"), "k")], P("int"), [Ret(Bin("+", MCall(Var("r"), "val"), Var("k")))]),
    # 'destroy' requests a collection, which runs at the next statement boundary - inside the caller's argument list
    Func("pick", [Param(P("int"), "k")], P("int"), [Decl(C("Pt"), "s", New("Pt", Var("k"))), Destroy("s"), Ret(Var("k"))]),
    Func("mkw", [Param(P("int"), "x")], C("Wrap"), [Decl(C("Pt"), "older", New("Pt", Var("x"))), Decl(C("Wrap"), "w", New("Wrap", Var("older"), I(3))), Ret(Var("w"))]),
    Func("usew", [Param(C("Wrap"), "w"), Param(P("int"), "k")], P("int"), [Ret(Bin("+", MCall(Var("w"), "val"), Var("k")))]),
    Func("cycle", [Param(P("int"), "base")], P("int"),
         [Decl(C("Node"), "a", New("Node", Var("base"))), Decl(C("Node"), "b", New("Node", Bin("+", Var("base"), I(1)))),
          Expr(FAsg(Var("a"), "next", Var("b"))), Expr(FAsg(Var("b"), "next", Var("a"))),
          Ret(Bin("+", Fld(Fld(Var("a"), "next"), "id"), Fld(Fld(Var("b"), "next"), "id")))]),
]


def shapes(rnd):
    n = lambda: I(rnd.choice([3, 17, 18, 20, 35]))
    return [
        lambda: Echo(Call("use", New("Pt", I(1)), Call("churn", n()))),                       # pending argument
        lambda: Echo(Call("use2", Call("churn", n()), New("Pt", I(2)))),
        lambda: Decl(C("Pt"), "q%d" % rnd.randint(0, 999), New("Pt", Call("churn", n()))),   # object under construction
        lambda: Echo(Fld(Call("mk", Call("churn", n())), "v")),                               # returned temporary
        lambda: Echo(MCall(New("Pt", I(4)), "add", New("Pt", I(5)), Call("churn", n()))),    # temporary receiver + pending args
        lambda: Echo(MCall(MCall(New("Pt", I(6)), "clone"), "get")),
        lambda: Echo(MCall(New("Wrap", New("Pt", Call("churn", n())), Call("churn", n())), "val")),
        lambda: Echo(Call("cycle", n())),                                                      # cyclic garbage, no destructors
        lambda: Echo(Call("churn", n())),
        lambda: Echo(Call("use", Call("mk", I(7)), Call("churn", n()))),
        lambda: Echo(Call("useReg", New("Reg", New("Pt", I(8))), Call("churn", n()))),            # exempt owner of a plain object, pending
        lambda: Echo(Call("useReg", New("Reg", New("Pt", I(9))), Call("pick", I(2)))),              # collection requested by destroy
        lambda: Echo(Call("use", New("Pt", I(10)), Call("pick", I(3)))),
        lambda: Echo(MCall(New("Reg", Call("mk", Call("pick", I(4)))), "val")),
        # a pending holder whose only path to an OLDER object (allocated before the holder) is its field
        lambda: Echo(Call("usew", Call("mkw", I(11)), Call("churn", n()))),
        lambda: Echo(Call("usew", Call("mkw", I(12)), Call("pick", I(5)))),
        lambda: Echo(Call("usew", Call("mkw", Call("churn", n())), Call("pick", I(6)))),
        lambda: Echo(MCall(Call("mkw", Call("pick", I(7))), "val")),
    ]


def programs(seed, n):
    rnd = random.Random(seed)
    out = []
    for k in range(n):
        dtor = rnd.random() < 0.6
        sh = shapes(rnd)
        body = []
        names = set()
        for _ in range(rnd.randint(2, 5)):
            st = rnd.choice(sh)()
            if st["k"] == "decl":
                if st["n"] in names:
                    continue
                names.add(st["n"])
            body.append(st)
        if rnd.random() < 0.5:
            body.insert(rnd.randint(0, len(body)), Decl(C("Pt"), "keep", New("Pt", I(40))))
            body.append(Echo(Fld(Var("keep"), "v")))
        body.append(Echo(S("done")))
        out.append(Program(FUNCS + [Func("main", [], VOID, body)], base_classes(dtor)))
    return out


def failing_destructor_programs():
    """a destructor that raises a runtime error when its object dies by an ordinary reference drop (scope exit, reassignment,
    return from a function, end of a temporary), followed by code with a different visible effect (another error, more
    output): the destructor's error ends the run at the next statement boundary, whenever collections happen"""
    INT = P("int")
    bad = Class("Bad", "", [Field(INT, "v", I(0))], [Method("get", [], INT, [Ret(Var("v"))])], [Ctor([], [])],
                [Decl(INT, "z", I(0)), Echo(Bin("/", I(1), Var("z")))])
    ok = Class("Fine", "", [Field(INT, "v", I(0))], [], [Ctor([], [])], [Echo(S("~Fine"))])
    later = [
        [Decl(A("int"), "a", Arr("int", [I(1)])), Decl(INT, "k", I(5)), Echo(Idx(Var("a"), Var("k")))],
        [Decl(C("Fine"), "nul", Null()), Echo(Fld(Var("nul"), "v"))],
        [Decl(INT, "m", I(0)), Echo(Bin("%", I(7), Var("m")))],
        [Echo(S("after")), Echo(Call("churn", I(5)))],
        [Decl(C("Fine"), "f", New("Fine")), Echo(S("after"))],
    ]
    deaths = [
        lambda: [Block([Decl(C("Bad"), "b", New("Bad"))])],
        lambda: [Decl(C("Bad"), "b", New("Bad")), Expr(Asg("b", New("Bad")))],
        lambda: [Decl(C("Bad"), "b", New("Bad")), Expr(Asg("b", Null()))],
        lambda: [Echo(MCall(New("Bad"), "get"))],
        lambda: [Echo(Call("drop", I(1)))],
        lambda: [If(Bin("==", I(1), I(1)), [Decl(C("Bad"), "b", New("Bad")), Echo(S("in"))])],
    ]
    drop = Func("drop", [Param(INT, "k")], INT, [Decl(C("Bad"), "t", New("Bad")), Ret(Bin("+", Var("k"), Fld(Var("t"), "v")))])
    out = []
    for d in deaths:
        for l in later:
            out.append(Program(FUNCS + [drop, Func("main", [], VOID, [Echo(S("start"))] + d() + [Echo(S("mid"))] + l + [Echo(S("end"))])],
                               base_classes(False) + [bad, ok]))
    return out
