"""Drives harness/cpp/prog_runner over batches of jobs, in parallel, surviving crashes of the
implementation (a job whose process died is reported with status 'crash' and the signal)."""
import concurrent.futures as cf
import json
import os
import shutil
import subprocess

import vlib

STDLIB = os.path.join(vlib.REPO, "library")


def _run_chunk(exe, jobs, workdir, env, per_job_timeout, stderr_out=None):
    """Run jobs sequentially in one or more prog_runner processes. Returns {id: result}."""
    results = {}
    remaining = list(jobs)
    chunk_no = 0
    while remaining:
        chunk_no += 1
        jf = os.path.join(workdir, "jobs%d.ndjson" % chunk_no)
        rf = os.path.join(workdir, "res%d.ndjson" % chunk_no)
        with open(jf, "w") as f:
            for j in remaining:
                f.write(json.dumps(j) + "\n")
        e = dict(os.environ)
        e.update(env or {})
        e.setdefault("ASAN_OPTIONS", "detect_leaks=0:abort_on_error=0:exitcode=86")
        e.setdefault("UBSAN_OPTIONS", "print_stacktrace=1:halt_on_error=1:exitcode=87")
        try:
            def _big_stack():
                # sanitizer builds use several times the normal stack per interpreter frame
                import resource
                try:
                    resource.setrlimit(resource.RLIMIT_STACK, (1 << 30, resource.RLIM_INFINITY))
                except Exception:
                    pass
            p = subprocess.run([exe, jf, rf, workdir, STDLIB], stdout=subprocess.PIPE, stderr=subprocess.PIPE,
                               env=e, timeout=per_job_timeout * len(remaining) + 60, preexec_fn=_big_stack)
            rc, err = p.returncode, p.stderr.decode(errors="replace")
        except subprocess.TimeoutExpired as ex:
            rc, err = -999, "driver timeout"
        if stderr_out is not None and err.strip():
            stderr_out.append(err)
        begun = None
        done = set()
        if os.path.exists(rf):
            for l in open(rf, errors="replace"):
                l = l.strip()
                if not l:
                    continue
                try:
                    d = json.loads(l)
                except Exception:
                    continue
                if "begin" in d:
                    begun = d["begin"]
                else:
                    results[d["id"]] = d
                    done.add(d["id"])
        if begun is not None and begun not in done:
            kind = "crash"
            results[begun] = {"id": begun, "status": kind, "rc": rc, "stderr": err[-3000:], "shots": []}
            done.add(begun)
        elif rc != 0 and not done:
            # died before the first job began: infrastructure problem
            raise vlib.Infra("prog_runner failed before running any job (rc=%s): %s" % (rc, err[-1500:]))
        remaining = [j for j in remaining if j["id"] not in done]
        os.remove(jf)
        if os.path.exists(rf):
            os.remove(rf)
    return results


def run_jobs(jobs, variant="plain", procs=None, env=None, per_job_timeout=25, stderr_out=None):
    """jobs: list of dicts with unique 'id'. Returns {id: result}."""
    if not jobs:
        return {}
    exe = vlib.link("prog_runner", ["prog_runner.cpp"], variant)
    procs = procs or min(vlib.JOBS, max(1, len(jobs) // 4))
    tmp = vlib.scratch("progrun")
    try:
        chunks = [jobs[i::procs] for i in range(procs)]
        out = {}
        with cf.ThreadPoolExecutor(max_workers=procs) as ex:
            futs = []
            for i, ch in enumerate(chunks):
                if not ch:
                    continue
                wd = os.path.join(tmp, "w%d" % i)
                os.makedirs(wd)
                futs.append(ex.submit(_run_chunk, exe, ch, wd, env, per_job_timeout, stderr_out))
            for f in futs:
                out.update(f.result())
        return out
    finally:
        shutil.rmtree(tmp, ignore_errors=True)


def run_cli(args, files, cwd_rel=".", env=None, timeout=60, variant="plain"):
    """Run the real CLI binary in a scratch directory populated with `files` {relpath: text}."""
    exe = vlib.build_cli(variant)
    tmp = vlib.scratch("clirun")
    try:
        for rel, text in files.items():
            p = os.path.join(tmp, rel)
            os.makedirs(os.path.dirname(p), exist_ok=True)
            with open(p, "w") as f:
                f.write(text)
        e = dict(os.environ)
        e.update({"BLOCH_NO_UPDATE_CHECK": "1", "BLOCH_STDLIB_PATH": STDLIB, "HOME": tmp})
        e.update(env or {})
        p = subprocess.run([exe] + args, cwd=os.path.join(tmp, cwd_rel), stdout=subprocess.PIPE,
                           stderr=subprocess.PIPE, env=e, timeout=timeout)
        produced = {}
        for root, _, fs_ in os.walk(tmp):
            for fn in fs_:
                if fn.endswith(".qasm"):
                    produced[os.path.relpath(os.path.join(root, fn), tmp)] = open(os.path.join(root, fn)).read()
        return {"rc": p.returncode, "stdout": p.stdout.decode(errors="replace"),
                "stderr": p.stderr.decode(errors="replace"), "files": produced}
    finally:
        shutil.rmtree(tmp, ignore_errors=True)
