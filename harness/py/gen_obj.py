"""Seeded generator of class-using programs (C08, and the raw material of C09 / C10 / C11 / C12 / C18):
hierarchies of depth <= 3, constructors with explicit / implicit super, echoing field initialisers,
virtual / override / plain methods, super calls, overload sets over primitive and reference parameters,
static fields and methods, generic classes, destructors; main builds objects, calls methods through
variables of every (static type, dynamic type) pair, reassigns, nests scopes, destroys.
Every constructor, initialiser, method and destructor echoes a tag, so the whole order is observable.
Field names are drawn from the same pool as locals and parameters on purpose."""
import copy
import json
import random

from bsyntax import *

POOL = ["x", "y", "n", "k", "v", "t", "a", "b"]


class ObjGen:
    def __init__(self, rnd, dtors=True, generics=True):
        self.r = rnd
        self.dtors = dtors
        self.generics = generics

    # ------------------------------------------------------------------ classes
    def build(self):
        r = self.r
        depth = r.randint(1, 3)
        names = ["A", "B", "C"][:depth]
        extra = r.random() < 0.35          # a sibling: D extends A
        self.classes = {}
        self.order = []
        for i, nm in enumerate(names):
            self.make_class(nm, names[i - 1] if i > 0 else "")
        if extra:
            self.make_class("D", "A")
        self.funcs = [self.tag_fn()]
        # a function whose local object dies because the function executes 'return' (from inside a branch, a loop, or at the end)
        with_d = [c for c in self.order if any(self.classes[a]["dtor"] for a in self.ancestors(c))]
        self.scoped = None
        if with_d and r.random() < 0.7:
            c = r.choice(with_d)
            self.scoped = c
            self.funcs.append(Func("scoped", [Param(P("int"), "k")], P("int"), [
                Decl(C(c), "tmp", New(c)),
                If(Bin(">", Var("k"), I(1)), [Ret(Bin("+", Var("k"), I(1)))]),
                While(Bin(">", Var("k"), I(0)), [Decl(C(c), "inner", New(c)), Ret(Bin("*", Var("k"), I(10)))]),
                Echo(S("scoped end")), Ret(I(0))]))
        self.holder = None
        if r.random() < 0.5:
            self.make_holder()
        if self.generics and r.random() < 0.5:
            self.make_generics()
        else:
            self.gen_classes = []
            self.slot_base = None
        return self

    def make_holder(self):
        """a class whose fields are references of declared class st: what is stored there is seen through st (overloads!)
        while virtual calls still reach the stored object's own class"""
        r = self.r
        sts = r.sample(self.order, min(len(self.order), r.randint(1, 2)))
        fields = [Field(C(st), "ref" + st) for st in sts]
        static_st = sts[0] if r.random() < 0.4 else None
        if static_st:
            fields.append(Field(C(static_st), "sref", static=True))
        methods = []
        for st in sts:
            methods.append(Method("pick" + st, [], C(st), [Ret(Var("ref" + st))]))
            methods.append(Method("hold" + st, [Param(C(st), "p")], VOID, [Expr(FAsg(This(), "ref" + st, Var("p")))]))
        dtor = [Echo(S("~Hold"))] if self.dtors and r.random() < 0.5 else []
        self.holder = {"cls": Class("Hold", "", fields, methods, [Ctor([], [Echo(S("Hold()"))])], dtor), "sts": sts, "static": static_st}

    def tag_fn(self):
        return Func("tag", [Param(P("str"), "w"), Param(P("int"), "v")], P("int"), [Echo(Bin("+", Var("w"), Var("v"))), Ret(Var("v"))])

    def ancestors(self, nm):
        out = []
        while nm:
            out.append(nm)
            nm = self.classes[nm]["base"]
        return out

    def all_fields(self, nm):
        fs = []
        for c in reversed(self.ancestors(nm)):
            fs += [f for f in self.classes[c]["fields"] if not f["static"]]
        return fs

    def make_class(self, nm, base):
        r = self.r
        inherited = [f["n"] for f in self.all_fields(base)] if base else []
        fields = []
        for _ in range(r.randint(0, 2)):
            fn = r.choice([p for p in POOL if p not in inherited and p not in [f["n"] for f in fields]])
            ty = r.choice(["int", "int", "long", "str"])
            if r.random() < 0.5:
                init = Call("tag", S("%s.%s=" % (nm, fn)), I(r.randint(1, 9))) if ty == "int" else \
                    (L(r.randint(1, 9)) if ty == "long" else S(fn.upper()))
            else:
                init = None
            fields.append(Field(P(ty), fn, init))
        if r.random() < 0.5:
            fields.append(Field(P("int"), "cnt" + nm, I(0), static=True))
        cls = Class(nm, base, fields, [], [], [])
        self.classes[nm] = cls
        self.order.append(nm)
        # constructors: zero-arg always (keeps implicit super legal), plus an (int) overload sometimes
        own_int = [f["n"] for f in fields if not f["static"] and f["t"] == P("int")]
        body0 = []
        if base and r.random() < 0.5:
            bctors = self.classes[base]["ctors"]
            if len(bctors) > 1 and r.random() < 0.6:
                body0.append(Super(I(r.randint(10, 19))))
            else:
                body0.append(Super())
        body0.append(Echo(S("%s()" % nm)))
        if own_int and r.random() < 0.5:
            body0.append(Expr(FAsg(This(), own_int[0], I(r.randint(20, 29)))))
        stat = [f["n"] for f in fields if f["static"]]
        if stat:
            body0.append(Expr(SFAsg(nm, stat[0], Bin("+", SFld(nm, stat[0]), I(1)))))
        cls["ctors"].append(Ctor([], body0))
        if r.random() < 0.6:
            pn = r.choice([p for p in POOL if p not in inherited and p not in [f["n"] for f in fields]] + ["arg"])
            body1 = []
            if base:
                bctors = self.classes[base]["ctors"]
                if len(bctors) > 1 and r.random() < 0.6:
                    body1.append(Super(Bin("+", Var(pn), I(1))))
            body1.append(Echo(Bin("+", S("%s(int) " % nm), Var(pn))))
            if own_int:
                # bare field name on the left, parameter on the right
                body1.append(Expr(Asg(own_int[0], Var(pn))) if r.random() < 0.5 else Expr(FAsg(This(), own_int[0], Var(pn))))
            cls["ctors"].append(Ctor([Param(P("int"), pn)], body1))
        if self.dtors and r.random() < 0.6:
            show = own_int[0] if own_int else None
            cls["dtor"] = [Echo(Bin("+", S("~%s " % nm), Var(show)) if show else S("~%s" % nm))]
            if r.random() < 0.5:
                # several statements, one of them a call: destructors mostly run while a return or a scope exit is in progress
                cls["dtor"] += [Decl(P("int"), "dz", Call("tag", S("~%s.t=" % nm), I(r.randint(1, 9)))), Echo(Bin("+", S("~%s done " % nm), Var("dz")))]
        self.make_methods(nm, base)

    def find_decl(self, nm, mname, ptypes):
        for c in self.ancestors(nm):
            for m in self.classes[c]["methods"]:
                if m["name"] == mname and [p["t"] for p in m["params"]] == ptypes:
                    return c, m
        return None, None

    def make_methods(self, nm, base):
        r = self.r
        cls = self.classes[nm]
        fields = self.all_fields(nm)
        ints = [f["n"] for f in fields if f["t"] == P("int")]
        ms = cls["methods"]
        # who(): virtual chain
        c0, m0 = self.find_decl(base, "who", []) if base else (None, None)
        if m0 is None:
            if r.random() < 0.8:
                ms.append(Method("who", [], P("str"), [Ret(S(nm))], virtual=r.random() < 0.8))
        elif m0["virtual"] and r.random() < 0.6:
            body = [Ret(Bin("+", S(nm + "<"), SuperCall("who")))] if r.random() < 0.5 else [Ret(S(nm))]
            ms.append(Method("who", [], P("str"), body, override=True, virtual=r.random() < 0.5))
        # describe(): non-virtual method calling the virtual one through this (bare and qualified)
        if not base and any(m["name"] == "who" for m in ms) and r.random() < 0.7:
            call = MCall(This(), "who", bare=r.random() < 0.5)
            ms.append(Method("describe", [], P("str"), [Ret(Bin("+", S("desc:"), call))]))
        # value(): uses bare field names
        if ints and r.random() < 0.7:
            f = r.choice(ints)
            c1, m1 = self.find_decl(base, "value", [P("int")]) if base else (None, None)
            pn = r.choice(POOL + ["d"])
            while pn in [ff["n"] for ff in fields]:
                pn = pn + "0"
            body = [Decl(P("int"), "loc", Bin("+", Var(f), Var(pn))), Echo(Bin("+", S("%s.value " % nm), Var("loc"))), Ret(Var("loc"))]
            if m1 is None:
                ms.append(Method("value", [Param(P("int"), pn)], P("int"), body, virtual=r.random() < 0.5))
            elif m1["virtual"]:
                ms.append(Method("value", [Param(P("int"), m1["params"][0]["n"])], P("int"),
                                 [Echo(S("%s.value/ov" % nm)), Ret(Bin("+", SuperCall("value", Var(m1["params"][0]["n"])), I(100)))],
                                 override=True, virtual=r.random() < 0.5))
        # setter using a bare field on the left
        if ints and r.random() < 0.5:
            f = r.choice(ints)
            if self.find_decl(nm, "set", [P("int")])[1] is None:
                pn = "nv"
                ms.append(Method("set", [Param(P("int"), pn)], VOID, [Expr(Asg(f, Var(pn))), Echo(Bin("+", S("%s.set " % nm), Var(f)))]))
        # overload set f(int) / f(long) / f(A) / f(B)...
        if r.random() < 0.7:
            kinds = [P("int"), P("long")] + [C(c) for c in self.order]
            chosen = [k for k in kinds if r.random() < 0.5]
            for k in chosen:
                if self.find_decl(nm, "f", [k])[1] is not None and r.random() < 0.6:
                    continue
                label = k.get("p") or k["cls"]
                if any(m["name"] == "f" and [p["t"] for p in m["params"]] == [k] for m in ms):
                    continue
                c2, m2 = self.find_decl(base, "f", [k]) if base else (None, None)
                if m2 is not None and not m2["virtual"]:
                    continue       # re-declaring a non-virtual base method is not documented: leave it
                ms.append(Method("f", [Param(k, "p")], P("str"), [Ret(S("%s.f(%s)" % (nm, label)))],
                                 virtual=(r.random() < 0.4), override=(m2 is not None)))
        # static counter access
        stat = [f["n"] for f in cls["fields"] if f["static"]]
        if stat and r.random() < 0.7:
            ms.append(Method("made", [], P("int"), [Ret(Var(stat[0]))], static=True))
        # peek(): a virtual method that reads every instance field visible in the class by bare name; constructors call it,
        # so a base constructor reaches the most-derived override BEFORE the derived class's initialisers have run
        c3, m3 = self.find_decl(base, "peek", []) if base else (None, None)
        shown = [f for f in fields if f["t"] in (P("int"), P("long"), P("str"))]
        text = S(nm + ".peek")
        for f in shown:
            text = Bin("+", Bin("+", text, S(" " + f["n"] + "=")), Var(f["n"]))
        if m3 is None:
            if r.random() < 0.5:
                ms.append(Method("peek", [], P("str"), [Ret(text)], virtual=True))
        elif r.random() < 0.75:
            ms.append(Method("peek", [], P("str"), [Ret(text)], virtual=True, override=True))
        if self.find_decl(nm, "peek", [])[1] is not None:
            for ct in cls["ctors"]:
                if r.random() < 0.5:
                    ct["body"].append(Echo(MCall(This(), "peek", bare=r.random() < 0.5)))

    def make_generics(self):
        r = self.r
        box = Class("Box", "", [Field(P("T"), "v"), Field(P("int"), "made", I(0), static=True)],
                    [Method("get", [], P("T"), [Ret(Var("v"))]),
                     Method("put", [Param(P("T"), "nv")], VOID, [Expr(FAsg(This(), "v", Var("nv")))]),
                     Method("count", [], P("int"), [Ret(Var("made"))], static=False)],
                    [Ctor([Param(P("T"), "iv")], [Expr(FAsg(This(), "v", Var("iv"))),
                                                   Expr(Asg("made", Bin("+", Var("made"), I(1))))])],
                    [], tparams=["T"])
        self.gen_classes = [box]
        if r.random() < 0.5:
            lb = Class("LBox", "Box", [Field(P("str"), "label")],
                       [Method("show", [], P("str"), [Ret(Bin("+", Var("label"), S(":")))])],
                       [Ctor([Param(P("str"), "l"), Param(P("T"), "iv")], [Super(Var("iv")), Expr(FAsg(This(), "label", Var("l")))])],
                       [], tparams=["T"], base_targs=[P("T")])
            self.gen_classes.append(lb)
        if r.random() < 0.6:
            # a generic class whose methods create OTHER specialisations of Box while its own T is bound differently
            reg = Class("Reg", "", [Field(P("T"), "item")],
                        [Method("label", [], P("str"), [Decl(C("Box", [P("str")]), "bx", New("Box", S("reg"), targs=[P("str")])),
                                                        Ret(MCall(Var("bx"), "get"))]),
                         Method("boxed", [], C("Box", [P("T")]), [Ret(New("Box", Var("item"), targs=[P("T")]))]),
                         Method("count2", [], P("int"), [Decl(C("Box", [P("int")]), "bi", New("Box", I(5), targs=[P("int")])),
                                                         Ret(MCall(Var("bi"), "count"))])],
                        [Ctor([Param(P("T"), "it")], [Expr(FAsg(This(), "item", Var("it")))])], [], tparams=["T"])
            self.gen_classes.append(reg)
        # a generic class (and a plain class below it) that INHERITS its destructor from a plain class of the hierarchy
        self.slot_base = None
        with_dtor = [c for c in self.order if any(self.classes[a]["dtor"] for a in self.ancestors(c))]
        if with_dtor and r.random() < 0.7:
            b = r.choice(with_dtor)
            self.slot_base = b
            slot = Class("Slot", b, [Field(P("T"), "item")], [Method("take", [], P("T"), [Ret(Var("item"))])],
                         [Ctor([Param(P("T"), "it")], [Super(), Echo(S("Slot()")), Expr(FAsg(This(), "item", Var("it")))])], [], tparams=["T"])
            self.gen_classes.append(slot)
            if r.random() < 0.6:
                self.gen_classes.append(Class("ISlot", "Slot", [Field(P("int"), "extra", I(4))], [],
                                              [Ctor([], [Super(I(11)), Echo(S("ISlot()"))])], [], base_targs=[P("int")]))

    # ------------------------------------------------------------------ main
    def dyn_classes_for(self, static):
        return [c for c in self.order if static in self.ancestors(c)]

    def new_expr(self, c):
        ct = self.r.choice(self.classes[c]["ctors"])
        return New(c, *[I(self.r.randint(1, 9)) for _ in ct["params"]])

    def method_calls(self, var, static, dyn):
        """calls on `var` (a variable name or a receiver expression of static type `static`) that are legal for the static type"""
        recv = Var(var) if isinstance(var, str) else var
        r = self.r
        out = []
        visible = {}
        for c in reversed(self.ancestors(static)):
            for m in self.classes[c]["methods"]:
                visible.setdefault(m["name"], {})[tuple(json.dumps(p["t"], sort_keys=True) for p in m["params"])] = m
        for name, sigs in visible.items():
            if name == "made":
                continue
            if name == "f":
                # pick argument expressions whose STATIC type has a unique cheapest overload
                options = []
                ptypes = [json.loads(k[0]) for k in sigs]
                if P("int") in ptypes or P("long") in ptypes:
                    options.append(I(r.randint(1, 5)))
                if P("long") in ptypes:
                    options.append(L(r.randint(1, 5)))
                clsp = [t["cls"] for t in ptypes if "cls" in t]
                for cname in self.order:
                    # an argument of static class cname: applicable overloads are its ancestors; cheapest is unique
                    if any(a in clsp for a in self.ancestors(cname)):
                        options.append(("obj", cname))
                for o in options:
                    if isinstance(o, tuple):
                        out.append(("objarg", name, o[1]))
                    else:
                        out.append(Echo(MCall(copy.deepcopy(recv), "f", o)))
            elif name in ("who", "describe"):
                out.append(Echo(MCall(copy.deepcopy(recv), name)))
            elif name == "value":
                out.append(Echo(MCall(copy.deepcopy(recv), "value", I(r.randint(1, 5)))))
            elif name == "set":
                out.append(Expr(MCall(copy.deepcopy(recv), "set", I(r.randint(30, 39)))))
        return out

    def main(self):
        r = self.r
        body = []
        live = {}          # var -> (static, dynamic)
        names = ("o%d" % i for i in range(1, 1000))
        # locals named like fields, to make scoping visible
        for fn in r.sample(POOL, 2):
            body.append(Decl(P("int"), fn, I(r.randint(50, 59))))
        loc_ints = [s["n"] for s in body]
        hfields = {}       # static class of a holder field -> dynamic class of what it holds (None: null)
        if self.holder:
            body.append(Decl(C("Hold"), "hd", New("Hold")))

        def field_exprs(st):
            """receiver / argument expressions of static class st that go through the holder"""
            if not self.holder or hfields.get(st) is None:
                return []
            out = [Fld(Var("hd"), "ref" + st), MCall(Var("hd"), "pick" + st)]
            return out

        def declare(into, scope_vars):
            st = r.choice(self.order)
            dyn = r.choice(self.dyn_classes_for(st))
            v = next(names)
            into.append(Decl(C(st), v, self.new_expr(dyn)))
            scope_vars[v] = (st, dyn)
            return v

        def use(into, scope_vars):
            if not scope_vars:
                return
            v = r.choice(list(scope_vars))
            st, dyn = scope_vars[v]
            if dyn is None:
                return
            calls = self.method_calls(v, st, dyn)
            r.shuffle(calls)
            for c in calls[:r.randint(1, 3)]:
                if isinstance(c, tuple):
                    # object argument with a chosen static type: use an existing variable of that static type or a new object
                    cands = [w for w, (s2, d2) in scope_vars.items() if s2 == c[2] and d2 is not None]
                    fcands = field_exprs(c[2])
                    if fcands and r.random() < 0.5:
                        into.append(Echo(MCall(Var(v), "f", copy.deepcopy(r.choice(fcands)))))
                    elif cands and r.random() < 0.6:
                        into.append(Echo(MCall(Var(v), "f", Var(r.choice(cands)))))
                    else:
                        into.append(Echo(MCall(Var(v), "f", self.new_expr(c[2]))))
                else:
                    into.append(c)

        steps = r.randint(4, 9)
        for _ in range(steps):
            roll = r.random()
            if self.holder and r.random() < 0.3:
                st = r.choice(self.holder["sts"])
                if hfields.get(st) is None or r.random() < 0.4:
                    # store: through the field, through a method parameter, or from a variable of a fitting static class
                    dyn = r.choice(self.dyn_classes_for(st))
                    fits = [w for w, (s2, d2) in live.items() if d2 is not None and st in self.ancestors(s2)]
                    if fits and r.random() < 0.4:
                        w = r.choice(fits)
                        src, dyn = Var(w), live[w][1]
                    else:
                        src = self.new_expr(dyn)
                    body.append(Expr(FAsg(Var("hd"), "ref" + st, src)) if r.random() < 0.5 else Expr(MCall(Var("hd"), "hold" + st, src)))
                    hfields[st] = dyn
                else:
                    fe = r.choice(field_exprs(st))
                    calls = self.method_calls(fe, st, hfields[st])
                    r.shuffle(calls)
                    for c in calls[:2]:
                        if isinstance(c, tuple):
                            arg = r.choice(field_exprs(c[2]) or [self.new_expr(c[2])])
                            body.append(Echo(MCall(copy.deepcopy(fe), "f", copy.deepcopy(arg))))
                        else:
                            body.append(c)
                if self.holder["static"] and r.random() < 0.3:
                    sst = self.holder["static"]
                    sd = r.choice(self.dyn_classes_for(sst))
                    body.append(Expr(SFAsg("Hold", "sref", self.new_expr(sd))))
                    for c in self.method_calls(SFld("Hold", "sref"), sst, sd)[:2]:
                        if not isinstance(c, tuple):
                            body.append(c)
                    body.append(Expr(SFAsg("Hold", "sref", Null())))
                continue
            if roll < 0.3 or not live:
                declare(body, live)
            elif roll < 0.65:
                use(body, live)
            elif roll < 0.75:
                # reassign: the old object loses a reference
                v = r.choice(list(live))
                st, dyn = live[v]
                nd = r.choice(self.dyn_classes_for(st))
                body.append(Expr(Asg(v, self.new_expr(nd))))
                live[v] = (st, nd)
            elif roll < 0.83:
                v = r.choice(list(live))
                if r.random() < 0.5:
                    body.append(Destroy(v))
                else:
                    body.append(Expr(Asg(v, Null())))
                live[v] = (live[v][0], None)
            elif roll < 0.93:
                inner = []
                iv = {}
                declare(inner, iv)
                merged = dict(live)
                merged.update(iv)
                use(inner, merged)
                inner.append(Echo(S("inner end")))
                body.append(Block(inner))
                body.append(Echo(S("after block")))
            else:
                # aliasing: a second variable for the same object keeps it alive
                v = r.choice(list(live))
                st, dyn = live[v]
                if dyn is not None:
                    w = next(names)
                    body.append(Decl(C(st), w, Var(v)))
                    live[w] = (st, dyn)
            if r.random() < 0.3 and loc_ints:
                body.append(Echo(Var(r.choice(loc_ints))))
        for c in self.order:
            if any(m["name"] == "made" for m in self.classes[c]["methods"]):
                body.append(Echo(SCall(c, "made")))
            # static fields are shared per declaring class, whichever class name they are reached through
            stat = [f["n"] for f in self.classes[c]["fields"] if f["static"]]
            subs = [d for d in self.order if d != c and c in self.ancestors(d)]
            if stat and subs and r.random() < 0.7:
                d = r.choice(subs)
                body.append(Echo(SFld(d, stat[0])))
                body.append(Expr(SFAsg(d, stat[0], I(r.randint(40, 49)))))
                body.append(Echo(SFld(c, stat[0])))
                body.append(Echo(Bin("+", SFld(d, stat[0]), SFld(r.choice(subs), stat[0]))))
                dstat = [f["n"] for f in self.classes[d]["fields"] if f["static"]]
                if dstat:
                    body.append(Echo(SFld(d, dstat[0])))
        if self.scoped:
            for k in r.sample([0, 1, 2], r.randint(1, 3)):
                body.append(Echo(Call("scoped", I(k))))
        if self.gen_classes:
            body += self.generic_use()
        body.append(Echo(S("end of main")))
        return Func("main", [], VOID, body)

    def generic_use(self):
        r = self.r
        insts = [("int", lambda: I(r.randint(1, 9))), ("str", lambda: S(r.choice(["p", "q"])))]
        blocks = []
        k = 0
        b1 = []
        for tn, mk in insts:
            for _ in range(r.randint(1, 2)):
                k += 1
                v = "g%d" % k
                ty = C("Box", [P(tn)])
                if r.random() < 0.3:
                    b1.append(Decl(ty, v, dict(New("Box", mk(), diamond=True), inferred=[P(tn)])))
                else:
                    b1.append(Decl(ty, v, New("Box", mk(), targs=[P(tn)])))
                b1.append(Echo(MCall(Var(v), "get")))
                if r.random() < 0.5:
                    b1.append(Expr(MCall(Var(v), "put", mk())))
                    b1.append(Echo(MCall(Var(v), "get")))
                b1.append(Echo(MCall(Var(v), "count")))      # static field is per specialisation
        if r.random() < 0.8:
            blocks.append(b1)
        if any(c["name"] == "Reg" for c in self.gen_classes):
            b2 = []
            for tn, mk in r.sample(insts, r.randint(1, len(insts))):
                k += 1
                v = "rg%d" % k
                b2.append(Decl(C("Reg", [P(tn)]), v, New("Reg", mk(), targs=[P(tn)])))
                order = ["label", "boxed", "count2"]
                r.shuffle(order)
                for m in order[:r.randint(1, 3)]:
                    if m == "boxed":
                        b2.append(Echo(MCall(MCall(Var(v), "boxed"), "get")))
                    else:
                        b2.append(Echo(MCall(Var(v), m)))
            blocks.append(b2)
        if any(c["name"] == "LBox" for c in self.gen_classes):
            b3 = [Decl(C("LBox", [P("int")]), "lb", New("LBox", S("L"), I(7), targs=[P("int")])),
                  Echo(Bin("+", MCall(Var("lb"), "show"), MCall(Var("lb"), "get"))), Echo(MCall(Var("lb"), "count"))]
            blocks.append(b3)
        if getattr(self, "slot_base", None):
            b4 = []
            inner = [Decl(C("Slot", [P("int")]), "sl", New("Slot", I(3), targs=[P("int")])), Echo(MCall(Var("sl"), "take")), Echo(S("slot block end"))]
            b4.append(Block(inner))
            b4.append(Echo(S("after slot block")))
            b4.append(Decl(C(self.slot_base), "viaBase", New("Slot", S("z"), targs=[P("str")])))
            b4.append(Expr(Asg("viaBase", Null())))
            b4.append(Echo(S("after release")))
            if any(c["name"] == "ISlot" for c in self.gen_classes):
                b4.append(Block([Decl(C("ISlot"), "isl", New("ISlot")), Echo(Bin("+", MCall(Var("isl"), "take"), Fld(Var("isl"), "extra")))]))
                b4.append(Echo(S("after islot")))
            blocks.append(b4)
        # which specialisation is created first (and from where) varies
        r.shuffle(blocks)
        return [st for b in blocks for st in b]

    def program(self):
        self.build()
        main = self.main()
        classes = [self.classes[c] for c in self.order] + ([self.holder["cls"]] if self.holder else []) + self.gen_classes
        funcs = self.funcs + [main]
        return Program(funcs, classes)


def programs(seed, n, **kw):
    rnd = random.Random(seed)
    return [ObjGen(rnd, **kw).program() for _ in range(n)]


def fixed_programs():
    """hand-shaped families a random hierarchy rarely produces: (1) one generic class body shared by several specialisations,
    whose methods call non-virtual siblings without a receiver and touch per-specialisation statics / build Cell<T>;
    (2) 'this' used as an overload-selecting argument / receiver inside base-class constructors and field initialisers
    while a subclass object is being built (overloads resolve from the static type: the class whose code is running)"""
    out = []
    INT, STR = P("int"), P("str")
    T = P("T")
    for order in ((0, 1, 2), (1, 0, 2), (2, 1, 0)):
        cell = Class("Cell", "", [Field(T, "v")], [Method("get", [], T, [Ret(Var("v"))])], [Ctor([Param(T, "x")], [Expr(FAsg(This(), "v", Var("x")))])], [], tparams=["T"])
        tally = Class("Tally", "", [Field(INT, "puts", I(0), static=True), Field(T, "last")],
                      [Method("note", [Param(T, "x")], VOID, [Expr(Asg("puts", Bin("+", Var("puts"), I(1)))), Expr(FAsg(This(), "last", Var("x")))]),
                       Method("put", [Param(T, "x")], VOID, [Expr(MCall(This(), "note", Var("x"), bare=True))]),
                       Method("wrap", [Param(T, "x")], C("Cell", [T]), [Ret(New("Cell", Var("x"), targs=[T]))]),
                       Method("boxed", [Param(T, "x")], T, [Decl(C("Cell", [T]), "c", MCall(This(), "wrap", Var("x"), bare=True)), Ret(MCall(Var("c"), "get"))]),
                       Method("bump", [], INT, [Expr(Asg("puts", Bin("+", Var("puts"), I(10)))), Ret(Var("puts"))], static=True),
                       Method("bumpTwice", [], INT, [Expr(SCall("Tally", "bump") if False else MCall(This(), "bump", bare=True)), Ret(MCall(This(), "bump", bare=True))], static=True),
                       Method("count", [], INT, [Ret(Var("puts"))])],
                      [Ctor([Param(T, "first")], [Expr(FAsg(This(), "last", Var("first")))])], [], tparams=["T"])
        decls = [Decl(C("Tally", [INT]), "a", New("Tally", I(0), targs=[INT])), Decl(C("Tally", [STR]), "b", New("Tally", S("s"), targs=[STR])),
                 Decl(C("Tally", [P("float")]), "c", New("Tally", F(1, 2), targs=[P("float")]))]
        vals = {"a": [I(1), I(2), I(3)], "b": [S("x"), S("y"), S("z")], "c": [F(3, 2), F(5, 2), F(7, 2)]}
        names = ["a", "b", "c"]
        body = list(decls)
        for rnd_ in range(3):
            for oi in order:
                n = names[oi]
                body += [Expr(MCall(Var(n), "put", vals[n][rnd_])), Echo(MCall(Var(n), "boxed", vals[n][rnd_]))]
                if rnd_ == oi:
                    body += [Expr(MCall(Var(n), "put", vals[n][0]))]
            for n in names:
                body += [Echo(MCall(Var(n), "count")), Echo(Fld(Var(n), "last"))]
        body += [Echo(SCall("Tally<int>", "bumpTwice")) if False else Echo(MCall(Var("a"), "count"))]
        out.append(Program([Func("main", [], VOID, body)], [cell, tally]))
    # (3) static and instance field initialisers that call free functions and static methods (of the same and of other classes)
    basef = Func("basef", [Param(INT, "k")], INT, [Ret(Bin("+", Var("k"), I(40)))])
    conf = Class("Conf", "", [Field(INT, "v", Bin("+", Call("basef", I(1)), I(1)), static=True), Field(STR, "name", Call("tagf", S("conf")), static=True)], [], [], [], static=True)
    kk = Class("KK", "", [Field(INT, "w", Call("basef", I(2)), static=True), Field(INT, "u", SCall("KK", "twice", Call("basef", I(3))), static=True),
                          Field(INT, "f", Bin("+", Call("basef", I(4)), SFld("Conf", "v"))), Field(INT, "g", SCall("KK", "twice", I(5)))],
               [Method("twice", [Param(INT, "x")], INT, [Ret(Bin("*", Var("x"), I(2)))], static=True)], [Ctor([], [], default=True)], [])
    tagf = Func("tagf", [Param(STR, "s")], STR, [Ret(Bin("+", Var("s"), S("!")))])
    for order in ((0, 1), (1, 0)):
        cls = [conf, kk]
        out.append(Program([basef, tagf, Func("main", [], VOID, [Echo(SFld("Conf", "v")), Echo(SFld("Conf", "name")), Echo(SFld("KK", "w")), Echo(SFld("KK", "u")),
                                                                 Decl(C("KK"), "k", New("KK")), Echo(Fld(Var("k"), "f")), Echo(Fld(Var("k"), "g"))])],
                           [cls[order[0]], cls[order[1]]]))
    # (4) objects returned by free functions / methods / static methods and dropped at once, by reassignment, by null, through an
    #     alias: the destructor chain runs when the last reference goes, before the next statement's output
    res = Class("Res", "", [Field(INT, "id")], [Method("make", [Param(INT, "k")], C("Res"), [Ret(New("Lease", Var("k")))]),
                                              Method("smake", [Param(INT, "k")], C("Res"), [Ret(New("Res", Var("k")))], static=True)],
                [Ctor([Param(INT, "i")], [Expr(FAsg(This(), "id", Var("i")))])], [Echo(Bin("+", S("~Res "), Var("id")))])
    lease = Class("Lease", "Res", [], [], [Ctor([Param(INT, "i")], [Super(Var("i"))])], [Echo(Bin("+", S("~Lease "), Var("id")))])
    openf = Func("open", [Param(INT, "k")], C("Res"), [Ret(New("Lease", Var("k")))])
    open2 = Func("open2", [Param(INT, "k")], C("Res"), [Decl(C("Res"), "r", New("Res", Var("k"))), Ret(Var("r"))])
    for maker in (lambda k: Call("open", I(k)), lambda k: Call("open2", I(k)), lambda k: MCall(Var("pool"), "make", I(k)), lambda k: SCall("Res", "smake", I(k))):
        body = [Decl(C("Res"), "pool", New("Res", I(0))),
                Expr(maker(1)), Echo(S("after 1")),
                Decl(C("Res"), "a", maker(2)), Expr(Asg("a", Null())), Echo(S("after 2")),
                Decl(C("Res"), "b", maker(3)), Decl(C("Res"), "c", Var("b")), Expr(Asg("b", Null())), Echo(S("still 3")), Expr(Asg("c", Null())), Echo(S("after 3")),
                Decl(C("Res"), "d", maker(4)), Expr(Asg("d", maker(5))), Echo(S("after 4")),
                Echo(Fld(maker(6), "id")), Echo(S("after 6")),
                Block([Decl(C("Res"), "e", maker(7))]), Echo(S("after 7"))]
        out.append(Program([openf, open2, Func("main", [], VOID, body)], [res, lease]))
    # (5) a plain class over two generic levels over a plain base with fields, the derived classes declared first
    dev = Class("Device", "", [Field(INT, "id"), Field(STR, "label", S("root"))], [Method("rootId", [], INT, [Ret(Fld(This(), "id"))]), Method("kind", [], STR, [Ret(Bin("+", S("kind:"), Var("label")))], virtual=True)],
                [Ctor([Param(INT, "id0")], [Expr(FAsg(This(), "id", Var("id0")))])], [])
    sens = Class("Sensor", "Device", [Field(INT, "samples", I(30))], [], [Ctor([Param(INT, "i")], [Super(Var("i"))])], [], tparams=["T"])
    cal = Class("Calib", "Sensor", [Field(INT, "offset", I(3)), Field(P("T"), "unit")], [], [Ctor([Param(INT, "i"), Param(P("T"), "u")], [Super(Var("i")), Expr(FAsg(This(), "unit", Var("u")))])], [],
                tparams=["T"], base_targs=[P("T")])
    leaf = Class("Leaf", "Calib", [Field(INT, "reading", I(21))], [], [Ctor([Param(INT, "i")], [Super(Var("i"), I(55))])], [], base_targs=[INT])
    for cls in ([leaf, cal, sens, dev], [cal, leaf, dev, sens], [dev, sens, cal, leaf]):
        out.append(Program([Func("main", [], VOID, [Decl(C("Leaf"), "l", New("Leaf", I(7))), Echo(Fld(Var("l"), "id")), Echo(Fld(Var("l"), "label")), Echo(MCall(Var("l"), "rootId")),
                                                    Echo(MCall(Var("l"), "kind")), Echo(Fld(Var("l"), "samples")), Echo(Fld(Var("l"), "offset")), Echo(Fld(Var("l"), "unit")),
                                                    Echo(Fld(Var("l"), "reading")), Decl(C("Device"), "r", New("Device", I(9))), Echo(MCall(Var("r"), "kind"))])], cls))
    # (6) construction passes through a middle class that adds nothing (no fields, '= default' constructor): the classes above it
    #     still run their field initialisers and constructor bodies
    root = Class("Root", "", [Field(INT, "serial", I(42)), Field(STR, "tag", S("root"))], [], [Ctor([], [Echo(S("Root ctor")), Expr(FAsg(This(), "serial", Bin("+", Var("serial"), I(1))))])], [])
    middle = Class("Middle", "Root", [], [Method("who", [], STR, [Ret(Var("tag"))])], [Ctor([], [], default=True)], [])
    middle2 = Class("Middle2", "Middle", [], [], [Ctor([], [], default=True)], [])
    leaf = Class("Leaf", "Middle", [Field(INT, "own", I(7))], [], [Ctor([], [Echo(Bin("+", S("Leaf sees "), Var("serial"))), Echo(Var("tag"))])], [])
    leafs = Class("LeafS", "Middle2", [], [], [Ctor([], [Super(), Echo(Bin("+", S("LeafS sees "), Var("serial")))])], [])
    leafd = Class("LeafD", "Middle2", [Field(INT, "x", I(1))], [], [Ctor([], [], default=True)], [])
    for order in ((0, 1, 2, 3, 4, 5), (5, 4, 3, 2, 1, 0)):
        cl = [root, middle, middle2, leaf, leafs, leafd]
        out.append(Program([Func("main", [], VOID, [Decl(C("Leaf"), "a", New("Leaf")), Echo(Fld(Var("a"), "serial")), Echo(MCall(Var("a"), "who")),
                                                    Decl(C("LeafS"), "b", New("LeafS")), Echo(Fld(Var("b"), "tag")),
                                                    Decl(C("LeafD"), "c", New("LeafD")), Echo(Fld(Var("c"), "serial")), Echo(Fld(Var("c"), "x")),
                                                    Decl(C("Middle"), "m", New("Middle")), Echo(Fld(Var("m"), "serial")), Decl(C("Root"), "r", New("Middle2")), Echo(Fld(Var("r"), "tag"))])],
                           [cl[i] for i in order]))
    # (7) a virtual declared at the top of a three-level generic chain, not redeclared in the middle, overridden (plain 'override') at
    #     the bottom - generic and plain leaves; called through every static type of the chain and unqualified from a base method
    src = Class("Source", "", [Field(T, "seed")], [Method("name", [], STR, [Ret(S("Source"))], virtual=True), Method("pick", [Param(T, "o")], T, [Ret(Fld(This(), "seed"))], virtual=True),
                                                   Method("report", [], STR, [Ret(Bin("+", S("report:"), MCall(This(), "name", bare=True)))])],
                [Ctor([Param(T, "s0")], [Expr(FAsg(This(), "seed", Var("s0")))])], [], tparams=["T"])
    relay = Class("Relay", "Source", [Field(INT, "hops", I(0))], [Method("hop", [], INT, [Expr(FAsg(This(), "hops", Bin("+", Fld(This(), "hops"), I(1)))), Ret(Fld(This(), "hops"))])],
                  [Ctor([Param(T, "s0")], [Super(Var("s0"))])], [], tparams=["T"], base_targs=[T])
    sink = Class("Sink", "Relay", [], [Method("name", [], STR, [Ret(S("Sink"))], override=True), Method("pick", [Param(T, "o")], T, [Ret(Var("o"))], override=True)],
                 [Ctor([Param(T, "s0")], [Super(Var("s0"))])], [], tparams=["T"], base_targs=[T])
    direct = Class("Direct", "Source", [], [Method("name", [], STR, [Ret(S("Direct"))], override=True)], [Ctor([Param(T, "s0")], [Super(Var("s0"))])], [], tparams=["T"], base_targs=[T])
    plain = Class("PlainSink", "Relay", [], [Method("name", [], STR, [Ret(S("PlainSink"))], override=True)], [Ctor([], [Super(I(5))])], [], base_targs=[INT])
    GI = lambda n: C(n, [INT])
    body = [Decl(GI("Sink"), "own", New("Sink", I(1), targs=[INT])), Echo(MCall(Var("own"), "name")), Echo(MCall(Var("own"), "pick", I(9))),
            Decl(GI("Source"), "top", New("Sink", I(2), targs=[INT])), Echo(MCall(Var("top"), "name")), Echo(MCall(Var("top"), "pick", I(9))), Echo(MCall(Var("top"), "report")),
            Decl(GI("Relay"), "mid", New("Sink", I(3), targs=[INT])), Echo(MCall(Var("mid"), "name")), Echo(MCall(Var("mid"), "pick", I(9))), Echo(MCall(Var("mid"), "hop")), Echo(MCall(Var("mid"), "report")),
            Decl(C("Source", [STR]), "str", New("Sink", S("seed"), targs=[STR])), Echo(MCall(Var("str"), "name")), Echo(MCall(Var("str"), "pick", S("other"))),
            Decl(GI("Source"), "dir", New("Direct", I(4), targs=[INT])), Echo(MCall(Var("dir"), "name")), Echo(MCall(Var("dir"), "pick", I(9))),
            Decl(GI("Source"), "pl", New("PlainSink")), Echo(MCall(Var("pl"), "name")), Echo(MCall(Var("pl"), "pick", I(9))), Echo(MCall(Var("pl"), "report"))]
    for order in ((0, 1, 2, 3, 4), (4, 3, 2, 1, 0), (2, 0, 4, 1, 3)):
        cl = [src, relay, sink, direct, plain]
        out.append(Program([Func("main", [], VOID, body)], [cl[i] for i in order]))
    # (8) an inherited static method runs in the class that declares it: bare static names and unqualified static calls inside it
    #     mean that class's members, also when the call is made through a subclass that redeclares members of the same names
    counter = Class("Counter", "", [Field(INT, "count", I(10), static=True)],
                    [Method("tag", [], STR, [Ret(S("Counter"))], static=True),
                     Method("bump", [], INT, [Expr(Asg("count", Bin("+", Var("count"), I(1)))), Ret(Var("count"))], static=True),
                     Method("who", [], STR, [Ret(Bin("+", MCall(This(), "tag", bare=True), Var("count")))], static=True),
                     Method("viaInstance", [], INT, [Ret(MCall(This(), "bump", bare=True))])], [Ctor([], [], default=True)], [])
    subc = Class("SubCounter", "Counter", [Field(INT, "count", I(100), static=True)],
                 [Method("tag", [], STR, [Ret(S("SubCounter"))], static=True), Method("mine", [], STR, [Ret(Bin("+", MCall(This(), "tag", bare=True), Var("count")))], static=True),
                  Method("viaSub", [], INT, [Ret(MCall(This(), "bump", bare=True))])], [Ctor([], [Super()])], [])
    body = [Echo(SCall("Counter", "bump")), Echo(SCall("SubCounter", "bump")), Echo(SCall("SubCounter", "who")), Echo(SCall("Counter", "who")), Echo(SCall("SubCounter", "mine")),
            Decl(C("SubCounter"), "sc", New("SubCounter")), Echo(MCall(Var("sc"), "viaInstance")), Echo(MCall(Var("sc"), "viaSub")),
            Echo(SFld("Counter", "count")), Echo(SFld("SubCounter", "count"))]
    for cl in ([counter, subc], [subc, counter]):
        out.append(Program([Func("main", [], VOID, body)], cl))
    # (9) super(...) picks the base constructor the way 'new' does: the most specific applicable one, whatever the declaration order
    animal = Class("Animal", "", [], [], [Ctor([], [], default=True)], [])
    dog = Class("Dog", "Animal", [], [], [Ctor([], [Super()])], [])
    for first_wide in (True, False):
        cts = [Ctor([Param(P("long"), "w")], [Echo(S("Pen(long)"))]), Ctor([Param(INT, "n")], [Echo(S("Pen(int)"))]),
               Ctor([Param(C("Animal"), "a")], [Echo(S("Pen(Animal)"))]), Ctor([Param(C("Dog"), "d")], [Echo(S("Pen(Dog)"))])]
        if not first_wide:
            cts = [cts[1], cts[0], cts[3], cts[2]]
        pen = Class("Pen", "", [], [], cts, [])
        cpen = Class("CountedPen", "Pen", [], [], [Ctor([Param(INT, "n")], [Super(Var("n")), Echo(S("CountedPen"))]), Ctor([Param(P("long"), "w")], [Super(Var("w")), Echo(S("CountedPen long"))])], [])
        dpen = Class("DogPen", "Pen", [], [], [Ctor([Param(C("Dog"), "d")], [Super(Var("d")), Echo(S("DogPen"))]), Ctor([Param(C("Animal"), "a")], [Super(Var("a")), Echo(S("DogPen animal"))])], [])
        body = [Decl(C("Pen"), "p1", New("Pen", I(1))), Decl(C("Pen"), "p2", New("Pen", L(2))), Decl(C("Pen"), "p3", New("Pen", New("Dog"))), Decl(C("Pen"), "p4", New("Pen", New("Animal"))),
                Decl(C("Pen"), "c1", New("CountedPen", I(3))), Decl(C("Pen"), "c2", New("CountedPen", L(4))), Decl(C("Pen"), "d1", New("DogPen", New("Dog"))),
                Decl(C("Animal"), "an", New("Dog")), Decl(C("Pen"), "d2", New("DogPen", Var("an")))]
        out.append(Program([Func("main", [], VOID, body)], [animal, dog, pen, cpen, dpen]))
    # (10) '= default' constructors whose parameters name fields that also have declaration initialisers: the argument wins; other
    #      initialisers see the fields in declaration order
    cfg = Class("Cfg", "", [Field(INT, "width", I(10)), Field(STR, "tag", S("t")), Field(INT, "area", Bin("*", Var("width"), I(2))), Field(INT, "plain")], [],
                [Ctor([Param(INT, "width"), Param(STR, "tag")], [], default=True), Ctor([Param(INT, "plain")], [], default=True), Ctor([], [], default=True)], [])
    cfgd = Class("CfgD", "Cfg", [Field(INT, "depth", I(5))], [], [Ctor([Param(INT, "depth")], [], default=True)], [])
    out.append(Program([Func("main", [], VOID, [Decl(C("Cfg"), "a", New("Cfg", I(3), S("x"))), Echo(Fld(Var("a"), "width")), Echo(Fld(Var("a"), "tag")), Echo(Fld(Var("a"), "area")),
                                                Decl(C("Cfg"), "b", New("Cfg", I(8))), Echo(Fld(Var("b"), "plain")), Echo(Fld(Var("b"), "width")),
                                                Decl(C("Cfg"), "c", New("Cfg")), Echo(Fld(Var("c"), "tag")), Echo(Fld(Var("c"), "area")),
                                                Decl(C("CfgD"), "d", New("CfgD", I(9))), Echo(Fld(Var("d"), "depth")), Echo(Fld(Var("d"), "width"))])], [cfg, cfgd]))
    # (11) a variable keeps its declared class through destroy / null / re-assignment: overloads are chosen by it
    basec = Class("Base", "", [], [], [Ctor([], [], default=True)], [])
    leafc = Class("Leaf", "Base", [], [], [Ctor([], [Super()])], [])
    sel = Class("Sel", "", [], [Method("pick", [Param(C("Base"), "b")], STR, [Ret(S("pick(Base)"))]), Method("pick", [Param(C("Leaf"), "l")], STR, [Ret(S("pick(Leaf)"))])], [Ctor([], [], default=True)], [])
    body = [Decl(C("Sel"), "s", New("Sel")), Decl(C("Base"), "b", New("Leaf")), Echo(MCall(Var("s"), "pick", Var("b"))), Destroy("b"), Expr(Asg("b", New("Leaf"))), Echo(MCall(Var("s"), "pick", Var("b"))),
            Expr(Asg("b", Null())), Expr(Asg("b", New("Leaf"))), Echo(MCall(Var("s"), "pick", Var("b"))), Decl(C("Base"), "u"), Expr(Asg("u", New("Leaf"))), Echo(MCall(Var("s"), "pick", Var("u"))),
            Decl(C("Leaf"), "l", New("Leaf")), Destroy("l"), Expr(Asg("l", New("Leaf"))), Echo(MCall(Var("s"), "pick", Var("l"))), Expr(Asg("b", Var("l"))), Echo(MCall(Var("s"), "pick", Var("b"))),
            Destroy("b"), Destroy("b"), Expr(Asg("b", Var("l"))), Echo(MCall(Var("s"), "pick", Var("b")))]
    out.append(Program([Func("main", [], VOID, body)], [basec, leafc, sel]))
    for build in (("Shape", "Circle", "Dot"), ("Dot", "Shape", "Circle"), ("Circle", "Dot", "Shape")):
        log = Class("Log", "", [], [Method("seen", [Param(C("Shape"), "s")], INT, [Echo(S("seen(Shape)")), Ret(I(1))], static=True),
                                    Method("seen", [Param(C("Circle"), "c")], INT, [Echo(S("seen(Circle)")), Ret(I(2))], static=True)], [], [], static=True)
        shape = Class("Shape", "", [Field(INT, "tag", SCall("Log", "seen", This())), Field(INT, "kind")],
                      [Method("classify", [Param(C("Shape"), "s")], INT, [Echo(S("Shape.classify(Shape)")), Ret(I(10))]),
                       Method("late", [], INT, [Ret(Bin("+", SCall("Log", "seen", This()), MCall(This(), "classify", This())))])],
                      [Ctor([], [Echo(S("Shape ctor")), Expr(FAsg(This(), "kind", MCall(This(), "classify", This())))])], [])
        circle = Class("Circle", "Shape", [Field(INT, "ctag", SCall("Log", "seen", This()))],
                       [Method("classify", [Param(C("Circle"), "c")], INT, [Echo(S("Circle.classify(Circle)")), Ret(I(20))]),
                        Method("late2", [], INT, [Ret(Bin("+", SCall("Log", "seen", This()), MCall(This(), "classify", This())))])],
                       [Ctor([], [Super(), Echo(S("Circle ctor")), Expr(FAsg(This(), "kind", Bin("+", Fld(This(), "kind"), MCall(This(), "classify", This()))))])], [])
        dot = Class("Dot", "Circle", [], [], [Ctor([], [Super(), Echo(S("Dot ctor"))])], [])
        body = []
        for nm in build:
            v = nm[0].lower()
            body += [Decl(C(nm), v, New(nm)), Echo(Fld(Var(v), "tag")), Echo(Fld(Var(v), "kind")), Echo(MCall(Var(v), "late"))]
            if nm != "Shape":
                body += [Echo(Fld(Var(v), "ctag")), Echo(MCall(Var(v), "late2"))]
        out.append(Program([Func("main", [], VOID, body)], [log, shape, circle, dot]))
    # overload sets over a three-level hierarchy where SEVERAL arguments need a conversion: the overload that executes is the closest
    # one over all parameters together (constructors, methods, free functions; arguments of the most derived class)
    ani = Class("Animal", "", [], [], [Ctor([], [])], [])
    dog = Class("Dog", "Animal", [], [], [Ctor([], [Super()])], [])
    pup = Class("Puppy", "Dog", [], [], [Ctor([], [Super()])], [])
    CA, CD, CP = C("Animal"), C("Dog"), C("Puppy")
    pairc = Class("Pair", "", [Field(INT, "tag")],
                  [Method("meet", [Param(CA, "a"), Param(CA, "b")], INT, [Ret(I(10))]), Method("meet", [Param(CD, "a"), Param(CA, "b")], INT, [Ret(I(20))]),
                   Method("both", [Param(CA, "a"), Param(CD, "b")], INT, [Ret(I(30))]), Method("both", [Param(CD, "a"), Param(CD, "b")], INT, [Ret(I(40))]),
                   Method("three", [Param(CA, "a"), Param(CA, "b"), Param(CA, "c")], INT, [Ret(I(50))]),
                   Method("three", [Param(CD, "a"), Param(CD, "b"), Param(CA, "c")], INT, [Ret(I(60))])],
                  [Ctor([Param(CA, "a"), Param(CA, "b")], [Expr(FAsg(This(), "tag", I(1)))]), Ctor([Param(CD, "a"), Param(CA, "b")], [Expr(FAsg(This(), "tag", I(2)))])], [])
    fa = Func("greet", [Param(CA, "a"), Param(CA, "b")], INT, [Ret(I(70))])
    body = [Decl(CP, "p", New("Puppy")), Decl(CP, "q", New("Puppy")), Decl(CD, "d", New("Dog")), Decl(CA, "a", New("Animal")),
            Decl(C("Pair"), "x", New("Pair", Var("d"), Var("a"))), Echo(Fld(Var("x"), "tag")), Echo(MCall(Var("x"), "meet", Var("d"), Var("a"))),
            Decl(C("Pair"), "y", New("Pair", Var("p"), Var("q"))), Echo(Fld(Var("y"), "tag")), Echo(MCall(Var("y"), "meet", Var("p"), Var("q"))),
            Echo(MCall(Var("y"), "both", Var("p"), Var("q"))), Echo(MCall(Var("y"), "both", Var("a"), Var("p"))), Echo(MCall(Var("y"), "three", Var("p"), Var("q"), Var("p"))),
            Echo(MCall(Var("y"), "three", Var("p"), Var("a"), Var("p"))), Echo(MCall(Var("y"), "meet", Var("p"), Var("a"))), Echo(Call("greet", Var("p"), Var("q"))),
            Decl(C("Pair"), "z", New("Pair", Var("a"), Var("p"))), Echo(Fld(Var("z"), "tag"))]
    out.append(Program([fa, Func("main", [], VOID, body)], [ani, dog, pup, pairc]))
    # element assignments whose index or value expression calls a method that itself writes the same field array: the writes made by
    # the call persist (a[0] = bump() behaves like 't = bump(); a[0] = t'), for instance fields, static fields and through a relay
    IA = A("int")
    acc = Class("Acc", "", [Field(IA, "arr", Arr("int", [I(0), I(0), I(0)])), Field(INT, "k", I(0))],
                [Method("bump", [], INT, [Expr(AAsg("arr", I(1), I(5))), Expr(Asg("k", Bin("+", Var("k"), I(1)))), Ret(Bin("+", I(6), Var("k")))]),
                 Method("slot", [], INT, [Expr(AAsg("arr", I(2), Bin("+", Idx(Var("arr"), I(2)), I(4)))), Ret(I(0))]),
                 Method("relay", [], INT, [Ret(MCall(This(), "bump", bare=True))]),
                 Method("go", [], VOID, [Expr(AAsg("arr", I(0), MCall(This(), "bump", bare=True))), Echo(Var("arr")),
                                        Expr(AAsg("arr", MCall(This(), "slot", bare=True), I(9))), Echo(Var("arr")),
                                        Expr(AAsg("arr", MCall(This(), "slot", bare=True), MCall(This(), "relay", bare=True))), Echo(Var("arr")),
                                        Decl(INT, "t", MCall(This(), "bump", bare=True)), Expr(AAsg("arr", I(2), Var("t"))), Echo(Var("arr")), Echo(Var("k"))])],
                [Ctor([], [])], [])
    out.append(Program([Func("main", [], VOID, [Decl(C("Acc"), "a", New("Acc")), Expr(MCall(Var("a"), "go")), Decl(C("Acc"), "b", New("Acc")),
                                                Expr(MCall(Var("b"), "go")), Echo(Fld(Var("a"), "arr"))])], [acc]))
    return out
