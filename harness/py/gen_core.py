"""Seeded generator of well-typed programs over the documented classical core (C07), plus the exhaustive
operator table. Only behaviour the documentation fixes is generated: no integer overflow (values stay small;
the reference marks anything beyond as 'undef' and the case is dropped), no char arithmetic, no concatenation
of floats / chars / arrays into strings, no float '%'."""
import itertools
import random

from bsyntax import *

NAMES = ["a", "b", "c", "x", "y", "n", "k", "t", "u", "v", "w", "p", "q0", "r", "s", "acc", "tmp", "idx"]
INT_LITS = [-7, -2, -1, 0, 1, 2, 3, 5]
LONG_LITS = [-3, 0, 1, 4]
FLOAT_LITS = [(-3, 2), (0, 1), (1, 2), (2, 1), (5, 4)]
STR_LITS = ["", "a", "xy ", "v="]
SCALARS = ["int", "long", "float", "bool", "bit", "str"]


class Scope:
    def __init__(self, parent=None):
        self.vars = {}          # name -> (type, final, loopvar)
        self.parent = parent

    def all(self):
        d = dict(self.parent.all()) if self.parent else {}
        d.update(self.vars)
        return d


class Gen:
    def __init__(self, rnd, allow_errors=True):
        self.r = rnd
        self.allow_errors = allow_errors
        self.funcs = {}         # name -> (param types, ret type)
        self.used = set()
        self.cur_fn = None
        self.need_step = False

    def may_call(self, callee):
        """acyclic call graph: main may call everything, fI only fJ with J > I, everybody the bounded `rec`"""
        if callee == "main" or callee == self.cur_fn:
            return False
        if self.cur_fn == "main" or callee == "rec":
            return self.cur_fn != "rec"
        if self.cur_fn == "rec":
            return False
        return callee > self.cur_fn

    # ------------------------------------------------------------ names
    def fresh(self, scope):
        pool = [n for n in NAMES if n not in scope.all() and n not in self.funcs]
        if pool:
            return self.r.choice(pool)
        i = 0
        while True:
            nm = "z%d" % i
            if nm not in scope.all():
                return nm
            i += 1

    def vars_of(self, scope, pred):
        return [n for n, (t, fin, lv) in scope.all().items() if pred(t, fin, lv)]

    # ------------------------------------------------------------ expressions
    def lit(self, t):
        r = self.r
        if t == "int":
            return I(r.choice(INT_LITS))
        if t == "long":
            return L(r.choice(LONG_LITS))
        if t == "float":
            n, d = r.choice(FLOAT_LITS)
            return F(n, d)
        if t == "bool":
            return Bool(r.random() < 0.5)
        if t == "bit":
            return Bit(r.randint(0, 1))
        if t == "str":
            return S(r.choice(STR_LITS))
        if t == "char":
            return Ch(r.choice("abz"))
        raise ValueError(t)

    def expr(self, t, scope, depth):
        r = self.r
        if depth <= 0 or r.random() < 0.25:
            vs = self.vars_of(scope, lambda ty, fin, lv: ty == P(t))
            if vs and r.random() < 0.65:
                return Var(r.choice(vs))
            return self.lit(t)
        d = depth - 1
        roll = r.random()
        # calls to user functions returning t
        fs = [n for n, (pts, rt) in self.funcs.items() if rt == P(t) and self.may_call(n)]
        if fs and roll < 0.15:
            f = r.choice(fs)
            args = [self.arg(pt, scope, d) for pt in self.funcs[f][0]]
            if all(a is not None for a in args):
                return Call(f, *args)
        # array element
        arrs = self.vars_of(scope, lambda ty, fin, lv: "arr" in ty and ty["arr"] == t)
        if arrs and roll < 0.25:
            a = r.choice(arrs)
            return Idx(Var(a), self.index_expr(scope, d))
        if t == "int":
            k = r.random()
            if k < 0.55:
                op = r.choice(["+", "-", "+", "-", "*", "%"])
                if op == "*":
                    return Bin("*", self.expr("int", scope, 0), I(r.choice([-2, 2, 3])))
                if op == "%":
                    return Bin("%", self.expr("int", scope, d), self.divisor("int", scope, d))
                return Bin(op, self.expr("int", scope, d), self.expr("int", scope, d))
            if k < 0.7:
                return Un("-", self.expr("int", scope, d))
            if k < 0.85:
                return Cast("int", self.expr(r.choice(["float", "bit", "long"]), scope, d))
            return Paren(self.expr("int", scope, d))
        if t == "long":
            k = r.random()
            if k < 0.6:
                op = r.choice(["+", "-", "%"])
                lt, rt = r.choice([("long", "long"), ("long", "int"), ("int", "long")])
                if op == "%":
                    return Bin("%", self.expr(lt, scope, d), self.divisor(rt, scope, d))
                return Bin(op, self.expr(lt, scope, d), self.expr(rt, scope, d))
            if k < 0.8:
                return Cast("long", self.expr(r.choice(["int", "float"]), scope, d))
            return Un("-", self.expr("long", scope, d))
        if t == "float":
            k = r.random()
            if k < 0.4:
                # '/' always produces float, whatever the operand types
                lt, rt = r.choice([("int", "int"), ("float", "int"), ("int", "float"), ("long", "int"), ("float", "float")])
                return Bin("/", self.expr(lt, scope, d), self.divisor(rt, scope, d))
            if k < 0.8:
                op = r.choice(["+", "-", "*"])
                lt, rt = r.choice([("float", "float"), ("float", "int"), ("int", "float"), ("long", "float")])
                if op == "*":
                    return Bin("*", self.expr(lt, scope, 0), self.lit(rt))
                return Bin(op, self.expr(lt, scope, d), self.expr(rt, scope, d))
            if k < 0.9:
                return Cast("float", self.expr(r.choice(["int", "bit"]), scope, d))
            return Un("-", self.expr("float", scope, d))
        if t == "bool":
            k = r.random()
            if k < 0.5:
                op = r.choice(["<", "<=", ">", ">=", "==", "!="])
                lt, rt = r.choice([("int", "int"), ("int", "long"), ("float", "int"), ("long", "long"), ("float", "float"), ("int", "float")])
                return Bin(op, self.expr(lt, scope, d), self.expr(rt, scope, d))
            if k < 0.62:
                ty = r.choice(["str", "bool", "bit"])
                return Bin(r.choice(["==", "!="]), self.expr(ty, scope, d), self.expr(ty, scope, d))
            if k < 0.85:
                return Bin(r.choice(["&&", "||"]), self.expr("bool", scope, d), self.expr("bool", scope, d))
            return Un("!", self.expr("bool", scope, d))
        if t == "bit":
            k = r.random()
            if k < 0.6:
                return Bin(r.choice(["&", "|", "^"]), self.expr("bit", scope, d), self.expr("bit", scope, d))
            if k < 0.8:
                return Un("~", self.expr("bit", scope, d))
            return Cast("bit", self.expr(r.choice(["int", "float"]), scope, d))
        if t == "str":
            other = r.choice(["int", "long", "bool", "bit", "str"])
            if r.random() < 0.5:
                return Bin("+", self.expr("str", scope, d), self.expr(other, scope, d))
            return Bin("+", self.expr(other, scope, d), self.expr("str", scope, d))
        return self.lit(t)

    def divisor(self, t, scope, d):
        # mostly non-zero literals; sometimes an arbitrary expression (division / modulo by zero is a documented runtime error)
        if self.allow_errors and self.r.random() < 0.12:
            # a possibly-zero divisor must not be a compile-time constant (the analyser folds constants and rejects
            # a constant zero divisor statically, which is a legitimate alternative to the runtime error)
            vs = self.vars_of(scope, lambda ty, fin, lv: ty == P(t) and not fin)
            if vs:
                v = self.r.choice(vs)
                return self.r.choice([Var(v), Bin("-", Var(v), self.lit(t)), Bin("-", Var(v), Var(v))])
        if t == "int":
            return I(self.r.choice([-3, -2, 2, 3, 4]))
        if t == "long":
            return L(self.r.choice([-2, 3, 5]))
        return F(*self.r.choice([(1, 2), (2, 1), (-3, 2), (4, 1)]))

    def index_expr(self, scope, d):
        if self.allow_errors and self.r.random() < 0.08:
            return self.expr("int", scope, d)
        lv = self.vars_of(scope, lambda ty, fin, lv: lv)
        if lv and self.r.random() < 0.5:
            return Bin("%", Var(self.r.choice(lv)), I(2))     # loop counters are >= 0
        return I(self.r.randint(0, 1))

    def arg(self, pt, scope, d):
        if "arr" in pt:
            vs = self.vars_of(scope, lambda ty, fin, lv: ty == pt or ("arr" in ty and ty["arr"] == pt["arr"]))
            return Var(self.r.choice(vs)) if vs else None
        return self.expr(pt["p"], scope, d)

    # ------------------------------------------------------------ statements
    def stmts(self, scope, n, depth, ret_t):
        out = []
        for _ in range(n):
            s = self.stmt(scope, depth, ret_t)
            if s is not None:
                out.append(s)
        return out

    def stmt(self, scope, depth, ret_t):
        r = self.r
        roll = r.random()
        if roll < 0.22:
            return self.decl(scope)
        if roll < 0.40:
            vs = self.vars_of(scope, lambda ty, fin, lv: "p" in ty and not fin and not lv and ty["p"] != "char")
            if vs:
                v = r.choice(vs)
                t = scope.all()[v][0]["p"]
                if t == "int" and r.random() < 0.2:
                    return Expr(Post(r.choice(["++", "--"]), v))
                # `long x = <int expr>` exercises the implicit int -> long widening
                et = "int" if t == "long" and r.random() < 0.3 else t
                return Expr(Asg(v, self.expr(et, scope, 2)))
            return self.decl(scope)
        if roll < 0.52:
            ty = r.choice(SCALARS)
            return Echo(self.expr(ty, scope, 3))
        if roll < 0.58:
            arrs = self.vars_of(scope, lambda ty, fin, lv: "arr" in ty)
            if arrs:
                a = r.choice(arrs)
                if r.random() < 0.4:
                    return Echo(Var(a))
                return Expr(AAsg(a, self.index_expr(scope, 1), self.expr(scope.all()[a][0]["arr"], scope, 2)))
        if depth <= 0:
            return Echo(self.expr(r.choice(SCALARS), scope, 2))
        if roll < 0.70:
            c = self.cond(scope)
            t_sc, e_sc = Scope(scope), Scope(scope)
            return If(c, self.stmts(t_sc, r.randint(1, 3), depth - 1, ret_t),
                      self.stmts(e_sc, r.randint(0, 2), depth - 1, ret_t) if r.random() < 0.6 else [])
        if roll < 0.78:
            return self.while_loop(scope, depth, ret_t)
        if roll < 0.86:
            return self.for_loop(scope, depth, ret_t)
        if roll < 0.90:
            return Tern(self.cond(scope), Echo(self.expr(r.choice(SCALARS), scope, 1)), Echo(self.expr(r.choice(SCALARS), scope, 1)))
        if roll < 0.94 and ret_t is not None and depth >= 1:
            # early return (possibly from inside a loop)
            return If(self.cond(scope), [Ret(self.expr(ret_t["p"], scope, 2) if ret_t != VOID else None)])
        if roll < 0.97:
            sc = Scope(scope)
            return Block(self.stmts(sc, r.randint(1, 3), depth - 1, ret_t))
        fs = [n for n, (pts, rt) in self.funcs.items() if self.may_call(n)]
        if fs:
            f = r.choice(fs)
            args = [self.arg(pt, scope, 2) for pt in self.funcs[f][0]]
            if all(a is not None for a in args):
                return Expr(Call(f, *args))
        return Echo(self.expr("int", scope, 2))

    def cond(self, scope):
        if self.r.random() < 0.15:
            return self.expr("bit", scope, 1)          # bit is accepted as a condition
        return self.expr("bool", scope, 2)

    def decl(self, scope):
        r = self.r
        name = self.fresh(scope)
        if r.random() < 0.18:
            et = r.choice(["int", "long", "float", "bit", "bool", "str"])
            if r.random() < 0.5:
                n = r.randint(1, 3)
                scope.vars[name] = (A(et), False, False)
                return Decl(A(et), name, Arr(et, [self.lit(et) for _ in range(n)]))
            n = r.randint(1, 3)
            scope.vars[name] = (A(et), False, False)
            if r.random() < 0.35:
                # size given by a final int (resolved by the analyser, evaluated again at run time)
                szn = self.fresh(scope)
                scope.vars[szn] = (P("int"), True, False)
                return [Decl(P("int"), szn, I(n), final=True), Decl(A(et, szn), name)]
            return Decl(A(et, n), name)
        t = r.choice(["int", "int", "int", "long", "float", "bool", "bit", "str"])
        final = r.random() < 0.1
        if t == "long" and r.random() < 0.3:
            init = self.expr("int", scope, 2)
        else:
            init = self.expr(t, scope, 2) if (final or r.random() < 0.85) else None
        scope.vars[name] = (P(t), final, False)
        return Decl(P(t), name, init, final=final)

    def while_loop(self, scope, depth, ret_t):
        r = self.r
        i = self.fresh(scope)
        scope.vars[i] = (P("int"), False, True)
        bound = r.randint(1, 4)
        body_sc = Scope(scope)
        body = self.stmts(body_sc, r.randint(1, 3), depth - 1, ret_t)
        body.append(Expr(Asg(i, Bin("+", Var(i), I(1)))) if r.random() < 0.7 else Expr(Post("++", i)))
        return Block([Decl(P("int"), i, I(0)), While(Bin("<", Var(i), I(bound)), body)]) if False else \
            [Decl(P("int"), i, I(0)), While(Bin("<", Var(i), I(bound)), body)]

    def for_loop(self, scope, depth, ret_t):
        r = self.r
        fsc = Scope(scope)
        i = self.fresh(fsc)
        fsc.vars[i] = (P("int"), False, True)
        bound = r.randint(1, 4)
        body_sc = Scope(fsc)
        body = self.stmts(body_sc, r.randint(1, 3), depth - 1, ret_t)
        roll = r.random()
        if roll < 0.25 and self.cur_fn != "step":
            # the update clause calls a user function (with its own echo and return value)
            self.need_step = True
            upd = Asg(i, Call("step", Var(i)))
        elif roll < 0.40 and ret_t is not None and bound >= 2:
            # the update clause would raise a runtime error on the step that an early return skips
            k = r.randint(0, bound - 1)
            upd = Asg(i, Bin("+", Bin("+", Var(i), I(1)), Bin("%", I(7), Bin("-", I(k), Var(i)))))
            body.append(If(Bin("==", Var(i), I(k)), [Ret(self.expr(ret_t["p"], body_sc, 1) if ret_t != VOID else None)]))
            return For(Decl(P("int"), i, I(0)), Bin("<", Var(i), I(bound)), upd, body)
        else:
            upd = Asg(i, Bin("+", Var(i), I(1))) if r.random() < 0.6 else Post("++", i)
        if ret_t is not None and r.random() < 0.3:
            body.append(If(Bin("==", Var(i), I(r.randint(0, bound))), [Ret(self.expr(ret_t["p"], body_sc, 1) if ret_t != VOID else None)]))
        return For(Decl(P("int"), i, I(0)), Bin("<", Var(i), I(bound)), upd, body)

    # ------------------------------------------------------------ functions / programs
    def flatten(self, ss):
        out = []
        for s in ss:
            if isinstance(s, list):
                out.extend(self.flatten(s))
            elif s is not None:
                s = dict(s)
                for key in ("t", "e", "b"):
                    if key in s and isinstance(s[key], list) and s["k"] in ("if", "while", "for", "block"):
                        s[key] = self.flatten(s[key])
                out.append(s)
        return out

    def function(self, name, pts, rt, depth):
        self.cur_fn = name
        sc = Scope()
        params = []
        for pt in pts:
            pn = self.fresh(sc)
            sc.vars[pn] = (pt, False, False)
            params.append(Param(pt, pn))
        body = self.stmts(sc, self.r.randint(2, 5), depth, rt)
        if rt != VOID:
            body.append(Ret(self.expr(rt["p"], sc, 2)))
        return Func(name, params, rt, self.flatten(body))

    def recursive(self, name):
        """int function with bounded recursion depth"""
        self.cur_fn = name
        sc = Scope()
        sc.vars["n"] = (P("int"), False, True)
        sc.vars["acc"] = (P("int"), False, False)
        step = self.expr("int", sc, 1)
        return Func(name, [Param(P("int"), "n"), Param(P("int"), "acc")], P("int"),
                    [If(Bin("<=", Var("n"), I(0)), [Ret(Var("acc"))]),
                     Echo(Bin("+", S(name + " "), Var("n"))),
                     Ret(Call(name, Bin("-", Var("n"), I(1)), Bin("+", Var("acc"), step)))])

    def program(self):
        r = self.r
        self.funcs = {}
        nf = r.randint(0, 3)
        sigs = []
        for i in range(nf):
            pts = [r.choice([P("int"), P("int"), P("long"), P("float"), P("bool"), P("str"), A("int")]) for _ in range(r.randint(0, 3))]
            rt = r.choice([P("int"), P("int"), P("long"), P("float"), P("bool"), P("str"), VOID])
            sigs.append(("f%d" % i, pts, rt))
            self.funcs["f%d" % i] = (pts, rt)
        rec = r.random() < 0.3
        if rec:
            self.funcs["rec"] = ([P("int"), P("int")], P("int"))
        fns = [self.function(n, pts, rt, 2) for n, pts, rt in sigs]
        if rec:
            fns.append(self.recursive("rec"))
        main = self.function("main", [], VOID, 3)
        if rec:
            main["body"].insert(r.randint(0, len(main["body"])), Echo(Call("rec", I(r.randint(0, 3)), I(0))))
        fns.append(main)
        if self.need_step:
            fns.append(Func("step", [Param(P("int"), "v")], P("int"), [Echo(Bin("+", S("step "), Var("v"))), Ret(Bin("+", Var("v"), I(1)))]))
        r.shuffle(fns)            # declaration order is irrelevant (forward calls are ordinary)
        return Program(fns)


def operator_table():
    """Every (operator, left value, right value) over representative values of the types the documentation
    admits for that operator; one echo per cell. Cells that raise a documented runtime error get their own program."""
    vals = {
        "int": [I(-7), I(-1), I(0), I(1), I(3)],
        "long": [L(-3), L(0), L(4)],
        "float": [F(-3, 2), F(0, 1), F(1, 2), F(5, 1)],
        "bool": [Bool(True), Bool(False)],
        "bit": [Bit(0), Bit(1)],
        "str": [S(""), S("ab")],
        "char": [Ch("a"), Ch("b")],
    }
    num = ["int", "long", "float"]
    cells = []
    for op in ["+", "-", "*", "/"]:
        for lt, rt in itertools.product(num, num):
            for l, r in itertools.product(vals[lt], vals[rt]):
                cells.append(Bin(op, l, r))
    for lt, rt in itertools.product(["int", "long"], ["int", "long"]):
        for l, r in itertools.product(vals[lt], vals[rt]):
            cells.append(Bin("%", l, r))
    for op in ["<", "<=", ">", ">=", "==", "!="]:
        for lt, rt in itertools.product(num, num):
            for l, r in itertools.product(vals[lt], vals[rt]):
                cells.append(Bin(op, l, r))
    for op in ["==", "!="]:
        for ty in ["bool", "str", "char", "bit"]:
            for l, r in itertools.product(vals[ty], vals[ty]):
                cells.append(Bin(op, l, r))
    for op in ["&&", "||"]:
        for lt, rt in itertools.product(["bool", "bit"], ["bool", "bit"]):
            for l, r in itertools.product(vals[lt], vals[rt]):
                cells.append(Bin(op, l, r))
    for op in ["&", "|", "^"]:
        for l, r in itertools.product(vals["bit"], vals["bit"]):
            cells.append(Bin(op, l, r))
    for ty in ["int", "long", "bool", "bit", "str"]:
        for v in vals[ty]:
            cells.append(Bin("+", S("s"), v))
            cells.append(Bin("+", v, S("s")))
    for v in vals["int"] + vals["long"] + vals["float"]:
        cells.append(Un("-", v))
    for v in vals["bool"] + vals["bit"]:
        cells.append(Un("!", v))
    for v in vals["bit"]:
        cells.append(Un("~", v))
    for t, srcs in [("int", ["int", "long", "float", "bit"]), ("long", ["int", "long", "float", "bit"]),
                    ("float", ["int", "long", "float", "bit"]), ("bit", ["int", "long", "float", "bit"])]:
        for st in srcs:
            for v in vals[st]:
                cells.append(Cast(t, v))
    # 64-bit longs: comparison, equality, + and - (results in range), negation, printing, concatenation
    wide = [L(9007199254740993), L(9007199254740992), L(-9007199254740993), L(1152921504606846977), L(1152921504606846976),
            L(9223372036854775807), L(-9223372036854775808), L(4294967296), L(-4294967297), L(2147483648)]
    small = [L(0), L(1), L(-1), I(7)]
    for op in ["<", "<=", ">", ">=", "==", "!="]:
        for l, r in itertools.product(wide, wide + small):
            cells.append(Bin(op, l, r))
            cells.append(Bin(op, r, l))
    for l, r in itertools.product(wide[:5] + wide[7:], small + wide[7:]):
        cells.append(Bin("+", l, r))
        cells.append(Bin("-", l, r))
    for v in wide:
        cells.append(v)
        cells.append(Bin("+", S("n="), v))
        if v.get("text") != "9223372036854775808":
            cells.append(Un("-", v))
    # result TYPE of integer arithmetic, made visible: (l op r) is widened past the 32-bit range by a further + or *;
    # an int-typed result would wrap (undocumented -> the reference says undef), a long-typed one must not
    probes_l = {"int": [I(999), I(-999)], "long": [L(999), L(-999), L(7999)]}
    for op in ["+", "-", "*", "%"]:
        for lt, rt in [("int", "long"), ("long", "int"), ("long", "long")]:
            for l, r in itertools.product(probes_l[lt], probes_l[rt][:2] if op != "%" else [x for x in (probes_l[rt][:2] + [I(1000) if rt == "int" else L(1000)])]):
                e = Bin(op, l, r)
                cells.append(Bin("+", e, I(2147483647)))
                cells.append(Bin("*", e, I(3000000)))
                cells.append(Bin("-", I(-2147483647), e))
    for v in probes_l["long"]:
        cells.append(Bin("*", Un("-", v), I(3000000)))
        cells.append(Bin("*", Cast("long", I(999)), I(3000000)))
    # operands through variables too (same cells, values read from typed locals)
    progs = []

    def is_err(c):
        return c["k"] == "bin" and c["op"] in ("/", "%") and c["r"]["k"] in ("int", "long", "float") and \
            (c["r"].get("v", 1) == 0 or c["r"].get("n", 1) == 0)
    batch = []
    for c in cells:
        if is_err(c):
            progs.append(Program([Func("main", [], VOID, [Echo(S("before")), Echo(c), Echo(S("after"))])]))
        else:
            batch.append(c)
    for i in range(0, len(batch), 40):
        progs.append(Program([Func("main", [], VOID, [Echo(c) for c in batch[i:i + 40]])]))
    # variable-operand variant of the binary cells
    # large longs travel unchanged through variables, arrays, parameters and return values
    progs.append(Program([
        Func("idl", [Param(P("long"), "v")], P("long"), [Ret(Var("v"))]),
        Func("main", [], VOID,
             [s_ for j, w in enumerate(wide) for s_ in (
                 Decl(P("long"), "w%d" % j, w), Echo(Var("w%d" % j)), Echo(Call("idl", Var("w%d" % j))),
                 Decl(A("long"), "a%d" % j, Arr("long", [w, L(1)])), Echo(Idx(Var("a%d" % j), I(0))),
                 Echo(Bin("==", Call("idl", Var("w%d" % j)), Idx(Var("a%d" % j), I(0)))),
                 Decl(P("long"), "x%d" % j, L(0)),
                 While(Bin("<", Var("x%d" % j), I(0)), [Expr(Asg("x%d" % j, Var("w%d" % j)))]))])]))
    # typed array literals mixing the element types the documentation allows (int[]: int, bit, float truncated; float[]: float, int, bit),
    # in every order of the differently typed elements
    mixes = {"int": [I(7), Bit(1), F(29, 10), I(-2), Bit(0), F(-29, 10)], "float": [F(5, 2), I(3), Bit(1), F(-1, 2), I(-4)]}
    body = []
    k = 0
    for et, elems in mixes.items():
        for perm in itertools.permutations(range(3)):
            for tail in ([], elems[3:]):
                es = [elems[i] for i in perm] + tail
                k += 1
                body += [Decl(A(et), "m%d" % k, Arr(et, es)), Echo(Var("m%d" % k)), Echo(Idx(Var("m%d" % k), I(len(es) - 1))),
                         Echo(Bin("+", Idx(Var("m%d" % k), I(0)), Idx(Var("m%d" % k), I(1))))]
    progs.append(Program([Func("main", [], VOID, body)]))
    # left-associative '+' chains mixing arithmetic and concatenation: the value depends on where the first string
    # operand stands (1 + 2 + "s" is "3s", "s" + 1 + 2 is "s12"); rendered a second time without redundant parentheses
    def chain(xs):
        e = xs[0]
        for x in xs[1:]:
            e = Bin("+", e, x)
        return e
    nums = [I(1), I(2), L(40), F(1, 2), F(1, 2), I(-3), Bit(1)]
    body = [Decl(P("int"), "ca", I(1)), Decl(P("int"), "cb", I(2)), Decl(P("float"), "cf", F(1, 2)), Decl(P("long"), "cl", L(5000000000)),
            Decl(P("string"), "cs", S(" v"))]
    vars_ = [Var("ca"), Var("cb"), Var("cf"), Var("cl")]
    for pool in (nums, vars_):
        for n in (2, 3, 4):
            for xs in itertools.islice(itertools.permutations(pool, n), 0, 40, 3):
                xs = list(xs)
                for pos in range(n + 1):
                    for s_ in (S(" t"), Var("cs")):
                        body.append(Echo(chain(xs[:pos] + [s_] + xs[pos:])))
                body.append(Echo(chain(xs[:1] + [S("|")] + xs[1:] + [S("|")])))
                body.append(Echo(Bin("+", chain(xs), Bin("+", S("<"), chain(xs)))))
                body.append(Echo(chain([Bin("*", xs[0], xs[1])] + xs[1:] + [S(" m")])))
                body.append(Echo(chain(xs + [S(" m"), Bin("*", xs[0], xs[1])])))
    for k in range(0, len(body), 60):
        progs.append(Program([Func("main", [], VOID, body[:5] + body[max(5, k):k + 60])]))
    # one array-literal node evaluated several times with different values of the variables it mentions: in a loop body, in a
    # function called repeatedly and recursively, as an argument inside a while loop, as the right-hand side of an assignment
    IA_, FA_ = A("int"), A("float")
    pair = Func("pair", [Param(P("int"), "n")], IA_, [Decl(IA_, "r", Arr("int", [Var("n"), Bin("*", Var("n"), I(2))])), Ret(Var("r"))])
    weight = Func("weight", [Param(IA_, "xs")], P("int"), [Ret(Bin("+", Idx(Var("xs"), I(0)), Bin("*", Idx(Var("xs"), I(1)), I(10))))])
    halves = Func("halves", [Param(P("int"), "n")], P("float"),
                  [Decl(FA_, "h", Arr("float", [Bin("/", Var("n"), I(2)), F(1, 1)])), If(Bin("<=", Var("n"), I(1)), [Ret(Idx(Var("h"), I(0)))]),
                   Ret(Bin("+", Idx(Var("h"), I(0)), Call("halves", Bin("-", Var("n"), I(2)))))])
    body = [For(Decl(P("int"), "i", I(0)), Bin("<", Var("i"), I(3)), Asg("i", Bin("+", Var("i"), I(1))),
                [Decl(IA_, "row", Arr("int", [Var("i"), Bin("+", Var("i"), I(1))])), Echo(Var("row")),
                 Decl(A("str"), "names", Arr("str", [Bin("+", S("n"), Var("i")), S("k")])), Echo(Idx(Var("names"), I(0)))]),
            Echo(Call("pair", I(1))), Echo(Call("pair", I(5))), Echo(Idx(Call("pair", I(7)), I(1))),
            Decl(P("int"), "a", I(1)), Decl(P("int"), "b", I(2)),
            While(Bin("<", Var("a"), I(4)), [Echo(Call("weight", Arr("int", [Var("a"), Var("b")]))), Expr(Asg("a", Bin("+", Var("a"), I(1)))), Expr(Asg("b", Bin("*", Var("b"), I(2))))]),
            Echo(Call("halves", I(7))),
            Decl(IA_, "acc", Arr("int", [I(0), I(0)])),
            For(Decl(P("int"), "j", I(1)), Bin("<", Var("j"), I(4)), Asg("j", Bin("+", Var("j"), I(1))),
                [Expr(Asg("acc", Arr("int", [Var("j"), Bin("*", Var("j"), Var("j"))]))), Echo(Var("acc"))])]
    progs.append(Program([pair, weight, halves, Func("main", [], VOID, body)]))
    # elements with effects (postfix ++/--, assignment expressions, calls that echo) are evaluated exactly once each, left to right,
    # wherever the literal is written: typed declaration, argument, right-hand side of an assignment, returned value
    note = Func("note", [Param(P("int"), "x")], P("int"), [Echo(Var("x")), Ret(Var("x"))])
    mk = Func("mk", [Param(P("int"), "k")], IA_, [Decl(IA_, "m", Arr("int", [Post("++", "k"), Post("++", "k"), Var("k")])), Ret(Var("m"))])
    fmk = Func("fmk", [Param(P("int"), "k")], FA_, [Decl(FA_, "m", Arr("float", [F(0, 1), F(0, 1)])), Expr(Asg("m", Arr("float", [Bin("/", Post("++", "k"), I(2)), Bin("/", Var("k"), I(2))]))), Ret(Var("m"))])
    body = [Decl(P("int"), "n", I(0)),
            Echo(Call("weight", Arr("int", [Post("++", "n"), Post("++", "n")]))), Echo(Var("n")),
            Decl(IA_, "r", Arr("int", [Post("++", "n"), Post("--", "n"), Var("n")])), Echo(Var("r")), Echo(Var("n")),
            Expr(Asg("r", Arr("int", [Post("++", "n"), Call("note", Var("n")), Asg("n", I(9))]))), Echo(Var("r")), Echo(Var("n")),
            Echo(Call("mk", I(4))), Echo(Call("fmk", I(3))),
            Echo(Call("weight", Arr("int", [Call("note", I(1)), Call("note", I(2))]))),
            Decl(A("str"), "names", Arr("str", [S("a"), S("b")])),
            Expr(Asg("names", Arr("str", [Bin("+", S("a"), Post("++", "n")), Bin("+", S("b"), Var("n"))]))), Echo(Var("names")), Echo(Var("n")),
            Decl(A("bool"), "fl", Arr("bool", [Bool(False), Bool(False)])),
            Expr(Asg("fl", Arr("bool", [Bin("==", Post("++", "n"), I(10)), Bin("==", Var("n"), I(11))]))), Echo(Var("fl")), Echo(Var("n")),
            While(Bin("<", Var("n"), I(20)), [Echo(Call("weight", Arr("int", [Post("++", "n"), Asg("n", Bin("+", Var("n"), I(2)))])))]), Echo(Var("n"))]
    progs.append(Program([weight, note, mk, fmk, Func("main", [], VOID, body)]))
    # the value of an assignment expression is the value assigned (chains, initialisers, arguments, echo, conditions, widening)
    twice = Func("twice", [Param(P("int"), "x")], P("int"), [Ret(Bin("*", Var("x"), I(2)))])
    body = [Decl(P("int"), "a", I(1)), Decl(P("int"), "b", I(2)), Decl(P("int"), "c", I(3)), Decl(P("long"), "w", L(1)), Decl(P("float"), "f", F(1, 2)), Decl(P("str"), "s", S("x")),
            Expr(Asg("a", Asg("b", I(7)))), Echo(Var("a")), Echo(Var("b")),
            Expr(Asg("a", Asg("b", Asg("c", Bin("+", Var("a"), I(4)))))), Echo(Var("a")), Echo(Var("b")), Echo(Var("c")),
            Decl(P("int"), "d", Asg("c", I(5))), Echo(Var("d")), Echo(Call("twice", Asg("c", I(11)))), Echo(Asg("c", I(9))), Echo(Var("c")),
            Expr(Asg("w", Asg("a", I(6)))), Echo(Var("w")), Expr(Asg("s", Asg("s", S("y")))), Echo(Var("s")),
            Expr(Asg("f", Asg("f", Bin("+", Var("f"), F(1, 1))))), Echo(Var("f")),
            Decl(P("bool"), "flag", Bool(False)), Decl(P("bool"), "flag2", Asg("flag", Bin("==", Var("c"), I(9)))), Echo(Var("flag")), Echo(Var("flag2")),
            For(Decl(P("int"), "i", I(0)), Bin("<", Var("i"), I(3)), Asg("i", Asg("a", Bin("+", Var("i"), I(1)))), [Echo(Bin("+", Var("i"), Var("a")))]), Echo(Var("a"))]
    progs.append(Program([twice, Func("main", [], VOID, body)]))
    tyname = {"int": "int", "long": "long", "float": "float", "bool": "bool", "bit": "bit", "str": "str", "char": "char"}
    vb = []
    for c in batch:
        if c["k"] == "bin" and c["l"]["k"] in tyname and c["r"]["k"] in tyname:
            vb.append(c)
    for i in range(0, len(vb), 25):
        body = []
        for j, c in enumerate(vb[i:i + 25]):
            body.append(Decl(P(tyname[c["l"]["k"]]), "l%d" % j, c["l"]))
            body.append(Decl(P(tyname[c["r"]["k"]]), "r%d" % j, c["r"]))
            body.append(Echo(Bin(c["op"], Var("l%d" % j), Var("r%d" % j))))
        progs.append(Program([Func("main", [], VOID, body)]))
    return progs, len(cells)


def random_programs(seed, n, allow_errors=True):
    rnd = random.Random(seed)
    out = []
    for _ in range(n):
        g = Gen(rnd, allow_errors)
        out.append(g.program())
    return out
