"""Systematic family for C09: a callee that leaves through `return` from inside every kind of nested construct
(for / while / block / if, alone and nested), sharing its parameter and local names with variables the caller
keeps using afterwards; plus callees whose locals/parameters shadow nothing but collide with the caller's."""
import itertools

from bsyntax import *


def wrap(kind, inner, i):
    """statement list that contains `inner` inside the construct `kind` (loop counters named to collide)"""
    if kind == "for":
        return [For(Decl(P("int"), i, I(0)), Bin("<", Var(i), I(3)), Asg(i, Bin("+", Var(i), I(1))), inner)]
    if kind == "while":
        return [Decl(P("int"), i, I(0)), While(Bin("<", Var(i), I(3)), inner + [Expr(Asg(i, Bin("+", Var(i), I(1))))])]
    if kind == "block":
        return [Block(inner)]
    if kind == "if":
        return [If(Bin(">=", Var("target"), I(0)), inner)]
    raise ValueError(kind)


def programs():
    out = []
    kinds = ["for", "while", "block", "if"]
    shapes = [(k,) for k in kinds] + [p for p in itertools.product(kinds, kinds) if p[0] in ("for", "while") or p[1] in ("for", "while")]
    for shape in shapes:
        for shared in (True, False):
            # callee: find(items, target) returns from the innermost construct
            pn = ("items", "target") if shared else ("xs", "goal")
            ret = [Decl(P("int"), "hit", Bin("+", Var(pn[1]), I(100))), Ret(Var("hit"))]
            body = ret
            counters = ["i", "j"]
            for depth, k in enumerate(reversed(shape)):
                body = wrap(k, body, counters[depth % 2]) if k != "if" else [If(Bin(">=", Var(pn[1]), I(0)), body)]
            callee = Func("find", [Param(A("int"), pn[0]), Param(P("int"), pn[1])], P("int"),
                          [Decl(P("int"), "total", I(7))] + body + [Ret(I(-1))])
            main = Func("main", [], VOID, [
                Decl(A("int"), "items", Arr("int", [I(10), I(20), I(30)])),
                Decl(P("int"), "target", I(99)), Decl(P("int"), "total", I(5)), Decl(P("int"), "hit", I(1)),
                Decl(P("int"), "i", I(40)), Decl(P("int"), "j", I(41)),
                Decl(P("int"), "r", Call("find", Var("items"), I(2))),
                Echo(Var("r")), Echo(Var("target")), Echo(Var("total")), Echo(Var("hit")), Echo(Var("i")), Echo(Var("j")),
                Echo(Idx(Var("items"), I(1))),
                Expr(Asg("target", Bin("+", Var("target"), I(1)))), Expr(Asg("total", Bin("+", Var("total"), I(1)))),
                Echo(Bin("+", Var("target"), Var("total"))),
                Decl(P("int"), "r2", Call("find", Var("items"), Var("target"))), Echo(Var("r2")), Echo(Var("target")), Echo(Var("i"))])
            out.append(Program([callee, main]))
    # argument expressions that name caller variables equal to the callee's parameters, in swapped order
    diff = Func("diff", [Param(P("int"), "a"), Param(P("int"), "b")], P("int"), [Ret(Bin("-", Var("a"), Var("b")))])
    weigh = Func("weigh", [Param(P("int"), "lo"), Param(P("int"), "hi"), Param(P("int"), "bias")], P("int"),
                 [Ret(Bin("+", Bin("*", Var("lo"), I(100)), Bin("+", Bin("*", Var("hi"), I(10)), Var("bias"))))])
    main = Func("main", [], VOID, [Decl(P("int"), "a", I(3)), Decl(P("int"), "b", I(10)), Decl(P("int"), "lo", I(1)), Decl(P("int"), "hi", I(2)),
                                   Decl(P("int"), "bias", I(4)),
                                   Echo(Call("diff", Var("b"), Var("a"))), Echo(Call("diff", Var("a"), Var("b"))),
                                   Echo(Call("weigh", Var("hi"), Bin("+", Var("lo"), Var("bias")), Var("lo"))),
                                   Echo(Call("diff", Call("diff", Var("b"), Var("a")), Var("b")))])
    out.append(Program([diff, weigh, main]))
    # a callee initialiser mentioning a name the caller also has
    f = Func("bump", [Param(P("int"), "n")], P("int"), [Decl(P("int"), "m", Bin("+", Var("n"), I(1))), Ret(Var("m"))])
    main = Func("main", [], VOID, [Decl(P("int"), "m", I(50)), Decl(P("int"), "n", I(60)), Echo(Call("bump", I(1))), Echo(Var("m")), Echo(Var("n"))])
    out.append(Program([f, main]))
    out += class_scope_programs()
    out += call_site_programs()
    out += destructor_scope_programs()
    out += constant_scope_programs()
    out += override_parameter_programs()
    return out


def class_scope_programs():
    """class code whose bare names could be captured by a frame that happens to be live: field initialisers under a constructor
    whose parameters are named like fields, ++/-- on bare field names under callers with same-named locals, static initialisers
    of a generic class first instantiated inside a function with same-named locals"""
    out = []
    INT = P("int")
    for pnames in (("w", "dbl", "side"), ("p", "q", "r")):       # colliding and fresh parameter names: same behaviour
        a, b, c = pnames
        shape = Class("Shape", "", [Field(INT, "w", I(5)), Field(INT, "dbl", Bin("*", Var("w"), I(2))), Field(INT, "sum", Bin("+", Var("dbl"), Var("w")))],
                      [Method("area", [], INT, [Ret(Bin("+", Var("sum"), Var("dbl")))])],
                      [Ctor([Param(INT, a)], [Echo(Bin("+", S("Shape "), Var(a))), Expr(FAsg(This(), "w", Var(a)))]),
                       Ctor([Param(INT, a), Param(INT, b)], [Echo(Bin("+", S("Shape2 "), Bin("+", Var(a), Var(b))))])], [])
        sq = Class("Sq", "Shape", [Field(INT, "side", Bin("+", Var("w"), I(1))), Field(INT, "twice", Bin("*", Var("side"), I(2)))], [],
                   [Ctor([Param(INT, c), Param(INT, a)], [Super(Bin("+", Var(c), Var(a))), Echo(Bin("+", S("Sq "), Var(c)))]),
                    Ctor([Param(INT, b)], [Super(Var(b)), Echo(Bin("+", S("Sq1 "), Var(b)))])], [])
        main = Func("main", [], VOID, [
            Decl(INT, "w", I(70)), Decl(INT, "dbl", I(71)), Decl(INT, "side", I(72)),
            Decl(C("Shape"), "s", New("Shape", I(40))), Echo(Fld(Var("s"), "w")), Echo(Fld(Var("s"), "dbl")), Echo(Fld(Var("s"), "sum")), Echo(MCall(Var("s"), "area")),
            Decl(C("Shape"), "s2", New("Shape", I(8), I(9))), Echo(Fld(Var("s2"), "dbl")), Echo(Fld(Var("s2"), "sum")),
            Decl(C("Sq"), "x", New("Sq", I(3), I(9))), Echo(Fld(Var("x"), "side")), Echo(Fld(Var("x"), "twice")), Echo(Fld(Var("x"), "dbl")),
            Decl(C("Sq"), "y", New("Sq", I(6))), Echo(Fld(Var("y"), "side")), Echo(Fld(Var("y"), "sum")),
            Echo(Var("w")), Echo(Var("dbl")), Echo(Var("side"))])
        out.append(Program([main], [shape, sq]))
    for lnames in (("hits", "left", "total"), ("h0", "l0", "t0")):
        h, l, t = lnames
        counter = Class("Counter", "", [Field(INT, "hits", I(0)), Field(INT, "left", I(10)), Field(INT, "total", I(0), static=True)],
                        [Method("bump", [], VOID, [Expr(Post("++", "hits")), Expr(Post("--", "left")), Expr(Post("++", "total"))]),
                         Method("bumpTwice", [], VOID, [Decl(INT, h, I(500)), Expr(MCall(This(), "bump", bare=True)), Expr(MCall(This(), "bump")), Echo(Var(h))]),
                         Method("tick", [], INT, [Decl(INT, t, I(0)), Expr(Post("++", "total")), Ret(Bin("+", Var("total"), Var(t)))], static=True),
                         Method("show", [], VOID, [Echo(Var("hits")), Echo(Var("left")), Echo(Var("total"))])],
                        [Ctor([], [Expr(Post("++", "hits")), Expr(Post("--", "hits"))])],
                        [Expr(Post("--", "total")), Echo(Bin("+", S("~Counter "), Var("total")))])
        drive = Func("drive", [Param(C("Counter"), "c")], INT, [Decl(INT, h, I(100)), Decl(INT, l, I(200)), Expr(MCall(Var("c"), "bumpTwice")),
                                                               Expr(MCall(Var("c"), "bump")), Echo(Var(h)), Echo(Var(l)), Ret(Bin("+", Var(h), Var(l)))])
        main = Func("main", [], VOID, [Decl(INT, t, I(1000)), Decl(C("Counter"), "c", New("Counter")), Echo(Call("drive", Var("c"))),
                                       Echo(SCall("Counter", "tick")), Echo(Var(t)), Expr(MCall(Var("c"), "show")),
                                       Block([Decl(INT, h, I(7)), Decl(C("Counter"), "d", New("Counter")), Expr(MCall(Var("d"), "bump")), Echo(Var(h))]),
                                       Echo(Var(t))])
        out.append(Program([drive, main], [counter]))
    for lnames in (("base", "twice"), ("b0", "t0")):
        b, t = lnames
        g = Class("G", "", [Field(INT, "base", I(5), static=True), Field(INT, "twice", Bin("*", Var("base"), I(2)), static=True), Field(P("T"), "v")],
                  [Method("tw", [], INT, [Ret(Bin("+", Var("twice"), Var("base")))])], [Ctor([Param(P("T"), "x")], [Expr(FAsg(This(), "v", Var("x")))])], [], tparams=["T"])
        first = Func("first", [], INT, [Decl(INT, b, I(100)), Decl(INT, t, I(300)), Decl(C("G", [P("int")]), "g", New("G", I(1), targs=[P("int")])),
                                        Ret(Bin("+", MCall(Var("g"), "tw"), Var(b)))])
        second = Func("second", [Param(INT, b)], INT, [Decl(C("G", [P("str")]), "g", New("G", S("s"), targs=[P("str")])), Ret(Bin("+", MCall(Var("g"), "tw"), Var(b)))])
        main = Func("main", [], VOID, [Echo(Call("first")), Echo(Call("second", I(1000)))])
        out.append(Program([first, second, main], [g]))
    # a method whose local array / array parameter is named like an array field of its class (or of a base): element stores and
    # reads go to the local, the field keeps its value, and the other way round through 'this.'
    IA = A("int")
    for names in (("data", "buf"), ("d0", "b0")):
        d, b = names
        store = Class("Store", "", [Field(IA, "data", Arr("int", [I(1), I(2), I(3)])), Field(IA, "buf", Arr("int", [I(7), I(8)]))],
                      [Method("local", [], INT, [Decl(IA, d, Arr("int", [I(10), I(20), I(30)])), Expr(AAsg(d, I(0), I(99))), Echo(Idx(Var(d), I(0))),
                                                 Echo(Idx(Fld(This(), "data"), I(0))), Ret(Bin("+", Idx(Var(d), I(0)), Idx(Fld(This(), "data"), I(0))))]),
                       Method("param", [Param(IA, b)], INT, [Expr(AAsg(b, I(1), I(55))), Echo(Var(b)), Echo(Fld(This(), "buf")), Ret(Idx(Var(b), I(1)))]),
                       Method("field", [], VOID, [Expr(AAsg("data", I(2), I(-4))), Expr(AAsg("buf", I(0), I(-5))), Echo(Var("data")), Echo(Var("buf"))])],
                      [Ctor([Param(IA, d)], [Expr(AAsg(d, I(0), I(77))), Echo(Var(d)), Echo(Fld(This(), "data"))])], [])
        sub = Class("Sub", "Store", [], [Method("inner", [], INT, [Decl(IA, b, Arr("int", [I(4), I(5)])), For(Decl(INT, "i", I(0)), Bin("<", Var("i"), I(2)), Asg("i", Bin("+", Var("i"), I(1))),
                                                                      [Expr(AAsg(b, Var("i"), Bin("*", Idx(Var(b), Var("i")), I(10))))]),
                                                                 Echo(Var(b)), Echo(Fld(This(), "buf")), Ret(Idx(Var(b), I(1)))])],
                    [Ctor([Param(IA, "a")], [Super(Var("a"))])], [])
        main = Func("main", [], VOID, [Decl(IA, "src", Arr("int", [I(6), I(6), I(6)])), Decl(C("Store"), "s", New("Store", Var("src"))), Echo(Var("src")),
                                       Echo(MCall(Var("s"), "local")), Echo(MCall(Var("s"), "param", Var("src"))), Echo(Var("src")),
                                       Expr(MCall(Var("s"), "field")), Echo(MCall(Var("s"), "local")),
                                       Decl(C("Sub"), "t", New("Sub", Var("src"))), Echo(MCall(Var("t"), "inner")), Echo(MCall(Var("t"), "param", Var("src"))),
                                       Expr(MCall(Var("t"), "field")), Echo(Fld(Var("t"), "data")), Echo(Fld(Var("s"), "buf"))])
        out.append(Program([main], [store, sub]))
    return out


def destructor_scope_programs():
    """every destructor of a chain (most derived first) runs in its own frame: a top-level local of a derived destructor is not
    visible to the base destructor, which reads and writes its class's fields by bare name"""
    out = []
    INT = P("int")
    for names in (("pending", "closed", "id"), ("p0", "c0", "i0")):      # colliding with the base's fields / fresh
        a, b, c = names
        handle = Class("Handle", "", [Field(INT, "pending", I(2)), Field(INT, "closed", I(0)), Field(INT, "id")], [],
                       [Ctor([Param(INT, "i")], [Expr(FAsg(This(), "id", Var("i")))])],
                       [Echo(Bin("+", S("Handle closes with "), Var("pending"))), Expr(Asg("closed", Bin("+", Var("closed"), I(1)))), Echo(Var("closed")), Echo(Var("id"))])
        session = Class("Session", "Handle", [Field(INT, "extra", I(5))], [], [Ctor([Param(INT, "i")], [Super(Var("i"))])],
                        [Decl(INT, a, I(18)), Decl(INT, b, I(40)), Expr(Asg(a, Bin("+", Var(a), Var("extra")))), Echo(Bin("+", S("Session flushed "), Var(a))), Echo(Var(b))])
        deep = Class("Deep", "Session", [], [], [Ctor([Param(INT, "i")], [Super(Var("i"))])],
                     [Decl(INT, c, I(-1)), Decl(INT, a, I(77)), Echo(Bin("+", Var(c), Var(a)))])
        main = Func("main", [], VOID, [Block([Decl(C("Session"), "s", New("Session", I(1)))]), Echo(S("mid")),
                                       Decl(C("Handle"), "t", New("Deep", I(2))), Destroy("t"), Echo(S("after destroy")),
                                       Block([Decl(C("Deep"), "u", New("Deep", I(3))), Decl(C("Handle"), "v", New("Handle", I(4)))]), Echo(S("end"))])
        out.append(Program([main], [handle, session, deep]))
    return out


def constant_scope_programs():
    """'final int' locals with the same name and different constant values in different functions / sibling blocks, used (directly
    and through derived constants) as array sizes: each array has the length its own scope's constant says"""
    out = []
    INT = P("int")
    for names in (("width", "width", "width"), ("w1", "w2", "w3")):
        a, b, c = names
        header = Func("header", [], INT, [Decl(INT, a, I(2), final=True), Decl({"arr": "int", "size": Var(a)}, "cells"), Echo(Var("cells")), Ret(Var(a))])
        body = Func("body", [], INT, [Decl(INT, b, I(4), final=True), Decl(INT, "twice", Bin("*", Var(b), I(2)), final=True), Decl({"arr": "int", "size": Var(b)}, "row"),
                                      Decl({"arr": "float", "size": Var("twice")}, "weights"), Expr(AAsg("row", I(3), I(9))), Echo(Var("row")), Echo(Var("weights")), Ret(Bin("+", Var(b), Var("twice")))])
        main = Func("main", [], VOID, [Echo(Call("header")), Echo(Call("body")),
                                       Block([Decl(INT, c, I(3), final=True), Decl({"arr": "int", "size": Var(c)}, "x"), Echo(Var("x"))]),
                                       Block([Decl(INT, c, I(1), final=True), Decl({"arr": "int", "size": Var(c)}, "y"), Echo(Var("y"))]), Echo(Call("header"))])
        for order in ((header, body, main), (body, header, main)):
            out.append(Program(list(order)))
    return out


def override_parameter_programs():
    """an override may spell its parameters differently from the method it overrides: its body sees its own names, whichever way the
    call reaches it (base-typed reference, derived-typed reference, unqualified call from a base method)"""
    out = []
    INT = P("int")
    for names in (("w", "h", "k"), ("base", "height", "sides")):        # same spelling as the base declaration / a different one
        a, b, c = names
        shape = Class("Shape", "", [Field(INT, "sides", I(0)), Field(INT, "w", I(1000))],
                      [Method("area", [Param(INT, "w"), Param(INT, "h")], INT, [Ret(Bin("*", Var("w"), Var("h")))], virtual=True),
                       Method("grow", [Param(INT, "k")], INT, [Ret(Bin("+", Var("sides"), Var("k")))], virtual=True),
                       Method("twiceArea", [Param(INT, "w"), Param(INT, "h")], INT, [Ret(Bin("*", I(2), MCall(This(), "area", Var("w"), Var("h"), bare=True)))])],
                      [Ctor([], [])], [])
        tri = Class("Tri", "Shape", [], [Method("area", [Param(INT, a), Param(INT, b)], INT, [Ret(Bin("-", Bin("*", Var(a), Var(b)), I(1)))], override=True),
                                         Method("grow", [Param(INT, c)], INT, [Expr(FAsg(This(), "sides", Bin("+", Fld(This(), "sides"), Var(c)))), Ret(Bin("*", Var(c), I(100)))], override=True)],
                    [Ctor([], [Super(), Expr(FAsg(This(), "sides", I(3)))])], [])
        main = Func("main", [], VOID, [Decl(C("Shape"), "s", New("Tri")), Echo(MCall(Var("s"), "area", I(4), I(5))), Echo(MCall(Var("s"), "grow", I(26))), Echo(MCall(Var("s"), "twiceArea", I(2), I(3))),
                                       Decl(C("Tri"), "t", New("Tri")), Echo(MCall(Var("t"), "area", I(6), I(7))), Echo(MCall(Var("t"), "grow", I(2))), Echo(Fld(Var("t"), "sides")),
                                       Decl(C("Shape"), "p", New("Shape")), Echo(MCall(Var("p"), "area", I(8), I(9))), Echo(MCall(Var("p"), "grow", I(1)))])
        out.append(Program([main], [shape, tri]))
    return out


def call_site_programs():
    """the same function / method / constructor called from call sites at different block-nesting depths of one caller, whose
    enclosing scopes declare variables named like the callee's parameters and locals: a callee reads its own"""
    out = []
    INT = P("int")
    for cn in (("i", "t", "k"), ("p0", "q0", "r0")):
        a, b, c = cn
        probe = Func("probe", [Param(INT, a)], INT, [Decl(INT, b, Bin("*", Var(a), I(2))), Block([Decl(INT, c, Bin("+", Var(b), Var(a))), Ret(Bin("+", Var(c), Var(a)))])])
        acc = Class("Acc", "", [Field(INT, "sum", I(0))],
                    [Method("add", [Param(INT, a)], INT, [Decl(INT, b, Bin("+", Var(a), I(1))), Expr(FAsg(This(), "sum", Bin("+", Var("sum"), Var(b)))), Ret(Var("sum"))])],
                    [Ctor([Param(INT, c)], [Decl(INT, a, Bin("*", Var(c), I(3))), Expr(FAsg(This(), "sum", Var(a)))])], [])
        def calls(n):
            return [Echo(Call("probe", I(n))), Echo(MCall(Var("acc"), "add", I(n))), Decl(C("Acc"), "z%d" % n, New("Acc", I(n))), Echo(Fld(Var("z%d" % n), "sum"))]
        body = [Decl(C("Acc"), "acc", New("Acc", I(1)))] + calls(1)
        body += [For(Decl(INT, "i", I(5)), Bin("<", Var("i"), I(7)), Asg("i", Bin("+", Var("i"), I(1))),
                     [Decl(INT, "t", I(100))] + calls(2) + [Block([Decl(INT, "k", I(50))] + calls(3) + [While(Bin("<", Var("k"), I(51)), [Decl(INT, "j", I(-9))] + calls(4) + [Expr(Asg("k", Bin("+", Var("k"), I(1))))])]), Echo(Var("t"))])]
        body += [Block([Decl(INT, "t", I(31)), Block([Decl(INT, "i", I(32)), Block([Decl(INT, "k", I(33))] + calls(5))])])]
        body += [If(Bin("==", I(1), I(1)), [Decl(INT, "k", I(60)), Decl(INT, "i", I(61)), Decl(INT, "t", I(62))] + calls(6))] + calls(7)
        outer = Func("outer", [Param(INT, "t")], INT, [Decl(INT, "i", I(900)), Decl(INT, "r", Call("probe", Var("t"))), Block([Decl(INT, "k", I(800)), Expr(Asg("r", Bin("+", Var("r"), Call("probe", I(3)))))]), Ret(Var("r"))])
        body += [Echo(Call("outer", I(4))), Block([Decl(INT, "i", I(1)), Block([Decl(INT, "t", I(2)), Echo(Call("outer", I(5)))])])]
        out.append(Program([probe, outer, Func("main", [], VOID, body)], [acc]))
    return out
