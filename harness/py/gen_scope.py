"""Systematic family for C09: a callee that leaves through `return` from inside every kind of nested construct
(for / while / block / if, alone and nested), sharing its parameter and local names with variables the caller
keeps using afterwards; plus callees whose locals/parameters shadow nothing but collide with the caller's."""
import itertools

from bsyntax import *


def wrap(kind, inner, i):
    """statement list that contains `inner` inside the construct `kind` (loop counters named to collide)"""
    if kind == "for":
        return [For(Decl(P("int"), i, I(0)), Bin("<", Var(i), I(3)), Asg(i, Bin("+", Var(i), I(1))), inner)]
    if kind == "while":
        return [Decl(P("int"), i, I(0)), While(Bin("<", Var(i), I(3)), inner + [Expr(Asg(i, Bin("+", Var(i), I(1))))])]
    if kind == "block":
        return [Block(inner)]
    if kind == "if":
        return [If(Bin(">=", Var("target"), I(0)), inner)]
    raise ValueError(kind)


def programs():
    out = []
    kinds = ["for", "while", "block", "if"]
    shapes = [(k,) for k in kinds] + [p for p in itertools.product(kinds, kinds) if p[0] in ("for", "while") or p[1] in ("for", "while")]
    for shape in shapes:
        for shared in (True, False):
            # callee: find(items, target) returns from the innermost construct
            pn = ("items", "target") if shared else ("xs", "goal")
            ret = [Decl(P("int"), "hit", Bin("+", Var(pn[1]), I(100))), Ret(Var("hit"))]
            body = ret
            counters = ["i", "j"]
            for depth, k in enumerate(reversed(shape)):
                body = wrap(k, body, counters[depth % 2]) if k != "if" else [If(Bin(">=", Var(pn[1]), I(0)), body)]
            callee = Func("find", [Param(A("int"), pn[0]), Param(P("int"), pn[1])], P("int"),
                          [Decl(P("int"), "total", I(7))] + body + [Ret(I(-1))])
            main = Func("main", [], VOID, [
                Decl(A("int"), "items", Arr("int", [I(10), I(20), I(30)])),
                Decl(P("int"), "target", I(99)), Decl(P("int"), "total", I(5)), Decl(P("int"), "hit", I(1)),
                Decl(P("int"), "i", I(40)), Decl(P("int"), "j", I(41)),
                Decl(P("int"), "r", Call("find", Var("items"), I(2))),
                Echo(Var("r")), Echo(Var("target")), Echo(Var("total")), Echo(Var("hit")), Echo(Var("i")), Echo(Var("j")),
                Echo(Idx(Var("items"), I(1))),
                Expr(Asg("target", Bin("+", Var("target"), I(1)))), Expr(Asg("total", Bin("+", Var("total"), I(1)))),
                Echo(Bin("+", Var("target"), Var("total"))),
                Decl(P("int"), "r2", Call("find", Var("items"), Var("target"))), Echo(Var("r2")), Echo(Var("target")), Echo(Var("i"))])
            out.append(Program([callee, main]))
    # argument expressions that name caller variables equal to the callee's parameters, in swapped order
    diff = Func("diff", [Param(P("int"), "a"), Param(P("int"), "b")], P("int"), [Ret(Bin("-", Var("a"), Var("b")))])
    weigh = Func("weigh", [Param(P("int"), "lo"), Param(P("int"), "hi"), Param(P("int"), "bias")], P("int"),
                 [Ret(Bin("+", Bin("*", Var("lo"), I(100)), Bin("+", Bin("*", Var("hi"), I(10)), Var("bias"))))])
    main = Func("main", [], VOID, [Decl(P("int"), "a", I(3)), Decl(P("int"), "b", I(10)), Decl(P("int"), "lo", I(1)), Decl(P("int"), "hi", I(2)),
                                   Decl(P("int"), "bias", I(4)),
                                   Echo(Call("diff", Var("b"), Var("a"))), Echo(Call("diff", Var("a"), Var("b"))),
                                   Echo(Call("weigh", Var("hi"), Bin("+", Var("lo"), Var("bias")), Var("lo"))),
                                   Echo(Call("diff", Call("diff", Var("b"), Var("a")), Var("b")))])
    out.append(Program([diff, weigh, main]))
    # a callee initialiser mentioning a name the caller also has
    f = Func("bump", [Param(P("int"), "n")], P("int"), [Decl(P("int"), "m", Bin("+", Var("n"), I(1))), Ret(Var("m"))])
    main = Func("main", [], VOID, [Decl(P("int"), "m", I(50)), Decl(P("int"), "n", I(60)), Echo(Call("bump", I(1))), Echo(Var("m")), Echo(Var("n"))])
    out.append(Program([f, main]))
    return out
