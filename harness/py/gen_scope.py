"""Systematic family for C09: a callee that leaves through `return` from inside every kind of nested construct
(for / while / block / if, alone and nested), sharing its parameter and local names with variables the caller
keeps using afterwards; plus callees whose locals/parameters shadow nothing but collide with the caller's."""
import itertools

from bsyntax import *


def wrap(kind, inner, i):
    """statement list that contains `inner` inside the construct `kind` (loop counters named to collide)"""
    if kind == "for":
        return [For(Decl(P("int"), i, I(0)), Bin("<", Var(i), I(3)), Asg(i, Bin("+", Var(i), I(1))), inner)]
    if kind == "while":
        return [Decl(P("int"), i, I(0)), While(Bin("<", Var(i), I(3)), inner + [Expr(Asg(i, Bin("+", Var(i), I(1))))])]
    if kind == "block":
        return [Block(inner)]
    if kind == "if":
        return [If(Bin(">=", Var("target"), I(0)), inner)]
    raise ValueError(kind)


def programs():
    out = []
    kinds = ["for", "while", "block", "if"]
    shapes = [(k,) for k in kinds] + [p for p in itertools.product(kinds, kinds) if p[0] in ("for", "while") or p[1] in ("for", "while")]
    for shape in shapes:
        for shared in (True, False):
            # callee: find(items, target) returns from the innermost construct
            pn = ("items", "target") if shared else ("xs", "goal")
            ret = [Decl(P("int"), "hit", Bin("+", Var(pn[1]), I(100))), Ret(Var("hit"))]
            body = ret
            counters = ["i", "j"]
            for depth, k in enumerate(reversed(shape)):
                body = wrap(k, body, counters[depth % 2]) if k != "if" else [If(Bin(">=", Var(pn[1]), I(0)), body)]
            callee = Func("find", [Param(A("int"), pn[0]), Param(P("int"), pn[1])], P("int"),
                          [Decl(P("int"), "total", I(7))] + body + [Ret(I(-1))])
            main = Func("main", [], VOID, [
                Decl(A("int"), "items", Arr("int", [I(10), I(20), I(30)])),
                Decl(P("int"), "target", I(99)), Decl(P("int"), "total", I(5)), Decl(P("int"), "hit", I(1)),
                Decl(P("int"), "i", I(40)), Decl(P("int"), "j", I(41)),
                Decl(P("int"), "r", Call("find", Var("items"), I(2))),
                Echo(Var("r")), Echo(Var("target")), Echo(Var("total")), Echo(Var("hit")), Echo(Var("i")), Echo(Var("j")),
                Echo(Idx(Var("items"), I(1))),
                Expr(Asg("target", Bin("+", Var("target"), I(1)))), Expr(Asg("total", Bin("+", Var("total"), I(1)))),
                Echo(Bin("+", Var("target"), Var("total"))),
                Decl(P("int"), "r2", Call("find", Var("items"), Var("target"))), Echo(Var("r2")), Echo(Var("target")), Echo(Var("i"))])
            out.append(Program([callee, main]))
    # argument expressions that name caller variables equal to the callee's parameters, in swapped order
    diff = Func("diff", [Param(P("int"), "a"), Param(P("int"), "b")], P("int"), [Ret(Bin("-", Var("a"), Var("b")))])
    weigh = Func("weigh", [Param(P("int"), "lo"), Param(P("int"), "hi"), Param(P("int"), "bias")], P("int"),
                 [Ret(Bin("+", Bin("*", Var("lo"), I(100)), Bin("+", Bin("*", Var("hi"), I(10)), Var("bias"))))])
    main = Func("main", [], VOID, [Decl(P("int"), "a", I(3)), Decl(P("int"), "b", I(10)), Decl(P("int"), "lo", I(1)), Decl(P("int"), "hi", I(2)),
                                   Decl(P("int"), "bias", I(4)),
                                   Echo(Call("diff", Var("b"), Var("a"))), Echo(Call("diff", Var("a"), Var("b"))),
                                   Echo(Call("weigh", Var("hi"), Bin("+", Var("lo"), Var("bias")), Var("lo"))),
                                   Echo(Call("diff", Call("diff", Var("b"), Var("a")), Var("b")))])
    out.append(Program([diff, weigh, main]))
    # a callee initialiser mentioning a name the caller also has
    f = Func("bump", [Param(P("int"), "n")], P("int"), [Decl(P("int"), "m", Bin("+", Var("n"), I(1))), Ret(Var("m"))])
    main = Func("main", [], VOID, [Decl(P("int"), "m", I(50)), Decl(P("int"), "n", I(60)), Echo(Call("bump", I(1))), Echo(Var("m")), Echo(Var("n"))])
    out.append(Program([f, main]))
    out += class_scope_programs()
    return out


def class_scope_programs():
    """class code whose bare names could be captured by a frame that happens to be live: field initialisers under a constructor
    whose parameters are named like fields, ++/-- on bare field names under callers with same-named locals, static initialisers
    of a generic class first instantiated inside a function with same-named locals"""
    out = []
    INT = P("int")
    for pnames in (("w", "dbl", "side"), ("p", "q", "r")):       # colliding and fresh parameter names: same behaviour
        a, b, c = pnames
        shape = Class("Shape", "", [Field(INT, "w", I(5)), Field(INT, "dbl", Bin("*", Var("w"), I(2))), Field(INT, "sum", Bin("+", Var("dbl"), Var("w")))],
                      [Method("area", [], INT, [Ret(Bin("+", Var("sum"), Var("dbl")))])],
                      [Ctor([Param(INT, a)], [Echo(Bin("+", S("Shape "), Var(a))), Expr(FAsg(This(), "w", Var(a)))]),
                       Ctor([Param(INT, a), Param(INT, b)], [Echo(Bin("+", S("Shape2 "), Bin("+", Var(a), Var(b))))])], [])
        sq = Class("Sq", "Shape", [Field(INT, "side", Bin("+", Var("w"), I(1))), Field(INT, "twice", Bin("*", Var("side"), I(2)))], [],
                   [Ctor([Param(INT, c), Param(INT, a)], [Super(Bin("+", Var(c), Var(a))), Echo(Bin("+", S("Sq "), Var(c)))]),
                    Ctor([Param(INT, b)], [Super(Var(b)), Echo(Bin("+", S("Sq1 "), Var(b)))])], [])
        main = Func("main", [], VOID, [
            Decl(INT, "w", I(70)), Decl(INT, "dbl", I(71)), Decl(INT, "side", I(72)),
            Decl(C("Shape"), "s", New("Shape", I(40))), Echo(Fld(Var("s"), "w")), Echo(Fld(Var("s"), "dbl")), Echo(Fld(Var("s"), "sum")), Echo(MCall(Var("s"), "area")),
            Decl(C("Shape"), "s2", New("Shape", I(8), I(9))), Echo(Fld(Var("s2"), "dbl")), Echo(Fld(Var("s2"), "sum")),
            Decl(C("Sq"), "x", New("Sq", I(3), I(9))), Echo(Fld(Var("x"), "side")), Echo(Fld(Var("x"), "twice")), Echo(Fld(Var("x"), "dbl")),
            Decl(C("Sq"), "y", New("Sq", I(6))), Echo(Fld(Var("y"), "side")), Echo(Fld(Var("y"), "sum")),
            Echo(Var("w")), Echo(Var("dbl")), Echo(Var("side"))])
        out.append(Program([main], [shape, sq]))
    for lnames in (("hits", "left", "total"), ("h0", "l0", "t0")):
        h, l, t = lnames
        counter = Class("Counter", "", [Field(INT, "hits", I(0)), Field(INT, "left", I(10)), Field(INT, "total", I(0), static=True)],
                        [Method("bump", [], VOID, [Expr(Post("++", "hits")), Expr(Post("--", "left")), Expr(Post("++", "total"))]),
                         Method("bumpTwice", [], VOID, [Decl(INT, h, I(500)), Expr(MCall(This(), "bump", bare=True)), Expr(MCall(This(), "bump")), Echo(Var(h))]),
                         Method("tick", [], INT, [Decl(INT, t, I(0)), Expr(Post("++", "total")), Ret(Bin("+", Var("total"), Var(t)))], static=True),
                         Method("show", [], VOID, [Echo(Var("hits")), Echo(Var("left")), Echo(Var("total"))])],
                        [Ctor([], [Expr(Post("++", "hits")), Expr(Post("--", "hits"))])],
                        [Expr(Post("--", "total")), Echo(Bin("+", S("~Counter "), Var("total")))])
        drive = Func("drive", [Param(C("Counter"), "c")], INT, [Decl(INT, h, I(100)), Decl(INT, l, I(200)), Expr(MCall(Var("c"), "bumpTwice")),
                                                               Expr(MCall(Var("c"), "bump")), Echo(Var(h)), Echo(Var(l)), Ret(Bin("+", Var(h), Var(l)))])
        main = Func("main", [], VOID, [Decl(INT, t, I(1000)), Decl(C("Counter"), "c", New("Counter")), Echo(Call("drive", Var("c"))),
                                       Echo(SCall("Counter", "tick")), Echo(Var(t)), Expr(MCall(Var("c"), "show")),
                                       Block([Decl(INT, h, I(7)), Decl(C("Counter"), "d", New("Counter")), Expr(MCall(Var("d"), "bump")), Echo(Var(h))]),
                                       Echo(Var(t))])
        out.append(Program([drive, main], [counter]))
    for lnames in (("base", "twice"), ("b0", "t0")):
        b, t = lnames
        g = Class("G", "", [Field(INT, "base", I(5), static=True), Field(INT, "twice", Bin("*", Var("base"), I(2)), static=True), Field(P("T"), "v")],
                  [Method("tw", [], INT, [Ret(Bin("+", Var("twice"), Var("base")))])], [Ctor([Param(P("T"), "x")], [Expr(FAsg(This(), "v", Var("x")))])], [], tparams=["T"])
        first = Func("first", [], INT, [Decl(INT, b, I(100)), Decl(INT, t, I(300)), Decl(C("G", [P("int")]), "g", New("G", I(1), targs=[P("int")])),
                                        Ret(Bin("+", MCall(Var("g"), "tw"), Var(b)))])
        second = Func("second", [Param(INT, b)], INT, [Decl(C("G", [P("str")]), "g", New("G", S("s"), targs=[P("str")])), Ret(Bin("+", MCall(Var("g"), "tw"), Var(b)))])
        main = Func("main", [], VOID, [Echo(Call("first")), Echo(Call("second", I(1000)))])
        out.append(Program([first, second, main], [g]))
    return out
